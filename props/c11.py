"""C11 — malformed or hostile client bytes hurt only the sender.

P : coq/Hostile/{Decode,Multi,Proofs,Props}.v — the pre-auth readers, read_message, every decoder
    reachable from client bytes and the per-message session classifier as total functions
    (Ok | Err | Panic, debug/release), c11_total / c11_preauth_isolated / c11_sender_only.
T1: no `panic = "abort"` anywhere the real binary's profile is defined (tokio's per-task panic
    isolation is what "process alive" rests on); census of the panic sites the model was
    written from.
T2: wire harness.  A malformed-stream generator applied at every session state next to a
    CANARY client on a pool_size = 1 pool.  Model-free monitors: harness process alive, canary
    answered correctly by a backend session that was CLEAN when its first statement arrived,
    capacity restored.  Tie: the attacker's outcome (how its task ended, which reply
    terminators and pooler-made errors it saw) = Decode.observe on the same bytes.
"""
import json, os, re, struct, sys
import vlib
from props import wirelib as W

COQ_FILES = ["Hostile/Decode.v", "Hostile/Multi.v", "Hostile/Proofs.v", "Hostile/Segment.v", "Hostile/MultiProofs.v", "Hostile/Props.v"]
KQ = b"SELECT * FROM data WHERE id = $1"
PW_SENTINEL = b"md5" + b"0" * 32 + b"\0"
HUGE = 64 * 1024 * 1024          # "huge" frames are capped at 64 MiB (pgcat really allocates and fills len bytes)


# ------------------------------------------------------------------------------------------ bytes
def i32(v):
    return struct.pack(">i", v)


def i16(v):
    return struct.pack(">h", v)


def fr(tag, body=b"", length=None):
    return tag + i32(len(body) + 4 if length is None else length) + body


def Qm(sql):
    return fr(b"Q", sql + b"\0")


def Pm(name, sql, types=()):
    return fr(b"P", name + b"\0" + sql + b"\0" + i16(len(types)) + b"".join(i32(t) for t in types))


def Bm(portal=b"", name=b"", fmts=(), params=(), rfmts=()):
    b = portal + b"\0" + name + b"\0" + i16(len(fmts)) + b"".join(i16(f) for f in fmts) + i16(len(params))
    for p in params:
        b += i32(-1) if p is None else i32(len(p)) + p
    b += i16(len(rfmts)) + b"".join(i16(f) for f in rfmts)
    return fr(b"B", b)


def Dm(kind, name):
    return fr(b"D", kind + name + b"\0")


def Cm(kind, name):
    return fr(b"C", kind + name + b"\0")


def Em(portal=b"", mx=0):
    return fr(b"E", portal + b"\0" + i32(mx))


Sm, Hm, Xm, cm = fr(b"S"), fr(b"H"), fr(b"X"), fr(b"c")


def dm(data):
    return fr(b"d", data)


def fm(msg=b"x"):
    return fr(b"f", msg + b"\0")


def startup(params, code=196608, length=None, tail=b"\0"):
    b = i32(code) + b"".join(k + b"\0" + v + b"\0" for k, v in params) + tail
    return i32(len(b) + 4 if length is None else length) + b


PROBE = Qm(b"SELECT 'probe'")


# --------------------------------------------------------------------------------- configurations
VARIANTS = {
    # name: (parser, cache, regex, rw/shardkey, admin)
    "plain": dict(parser=False, cache=False, regex=False, rw=False),
    "parser": dict(parser=True, cache=False, regex=False, rw=False),
    "cache": dict(parser=False, cache=True, regex=False, rw=False),
    "regex": dict(parser=False, cache=False, regex=True, rw=False),
    "parser_cache": dict(parser=True, cache=True, regex=False, rw=False),
    "parser_regex": dict(parser=True, cache=False, regex=True, rw=False),
    "cache_regex": dict(parser=False, cache=True, regex=True, rw=False),
    "all": dict(parser=True, cache=True, regex=True, rw=False),
    "shardkey": dict(parser=True, cache=False, regex=False, rw=True),
}


def make_toml(v, trust=False):
    opts = {"query_parser_enabled": v["parser"], "prepared_statements_cache_size": 50 if v["cache"] else 0,
            "query_parser_read_write_splitting": v["rw"]}
    if v["regex"]:
        opts["shard_id_regex"] = r"/\* shard_id: (\d+) \*/"
        opts["sharding_key_regex"] = r"/\* sharding_key: (\d+) \*/"
        opts["regex_search_limit"] = 1000
    if v["rw"]:
        opts["automatic_sharding_key"] = "data.id"
    user = {"username": "u", "password": "pw", "pool_size": 1}
    if trust:
        user["auth_type"] = "trust"
    return W.make_toml({"connect_timeout": 700, "worker_threads": 2},
                       {"db": {"opts": opts, "users": [user], "shards": [{"database": "db0", "servers": [["b0", "primary"]]}]}})


# ------------------------------------------------------------------------------------- generator
def cap_len(bs, at):
    """random bytes: keep the announced length (the big-endian i32 at offset `at`) negative or below 64 MiB, so that the
    pooler is not made to allocate and fill gigabytes (read_message really does that: the named limitation)"""
    if len(bs) > at and 0x04 <= bs[at] < 0x80:
        bs = bs[:at] + bytes([bs[at] & 0x03]) + bs[at + 1:]
    return bs


def sanitize(prefix, hostile):
    """walk the stream the way read_message frames it and keep every ANNOUNCED length below 64 MiB (concatenated
    or misaligned pieces make arbitrary text be read as a length field)"""
    bs = bytearray(prefix + hostile)
    i = 0
    while i + 5 <= len(bs):
        ln = struct.unpack(">i", bytes(bs[i + 1:i + 5]))[0]
        if ln < 4:
            break
        if ln - 4 > len(bs) - (i + 5):
            if ln > HUGE and i + 1 >= len(prefix):
                bs[i + 1] &= 0x03
            break
        i += 1 + ln
    return bytes(bs[len(prefix):])


def malformed_bodies():
    """(label, frame bytes): well-framed messages with malformed bodies."""
    out = []
    for tag in b"QPBDCESHXdcfp":
        out.append(("len4_%s" % chr(tag), fr(bytes([tag]))))
    P = [("P_name_no_nul", b"x"), ("P_name_only", b"x\0"), ("P_query_no_nul", b"x\0SELECT 1"), ("P_no_count", b"\0SELECT 1\0"),
         ("P_half_count", b"\0SELECT 1\0\0"), ("P_short_types", b"\0SELECT 1\0" + i16(2) + i32(23)),
         ("P_neg_count", b"\0SELECT 1\0" + i16(-1)), ("P_neg_count_named", b"s9\0SELECT 1\0" + i16(-3)),
         ("P_big_count", b"\0SELECT 1\0" + i16(32767)),
         ("P_valid_unnamed", b"\0SELECT 'p'\0" + i16(0)), ("P_valid_named", b"s2\0SELECT 'p2'\0" + i16(1) + i32(23)),
         ("P_bad_utf8_name", b"\xff\xfe\0SELECT 1\0" + i16(0)), ("P_bad_sql", b"\0SELEC ((( \0" + i16(0)),
         ("P_shard_comment", b"\0/* shard_id: 0 */ SELECT 1\0" + i16(0)), ("P_key_query", b"\0" + KQ + b"\0" + i16(0))]
    out += [(l, fr(b"P", b)) for l, b in P]
    Bb = [("B_portal_no_nul", b"p"), ("B_portal_only", b"p\0"), ("B_no_counts", b"\0\0"), ("B_half_count", b"\0\0\0"),
          ("B_neg_fmts", b"\0\0" + i16(-1) + i16(0) + i16(0)), ("B_short_fmts", b"\0\0" + i16(2) + i16(0)),
          ("B_bad_fmt_code", b"\0\0" + i16(1) + i16(2) + i16(1) + i32(1) + b"5" + i16(0)),
          ("B_bad_fmt_code2", b"\0\0" + i16(2) + i16(0) + i16(7) + i16(2) + i32(1) + b"5" + i32(1) + b"6" + i16(0)),
          ("B_no_nparams", b"\0\0" + i16(0)), ("B_neg_params", b"\0\0" + i16(0) + i16(-1) + i16(0)),
          ("B_param_no_len", b"\0\0" + i16(0) + i16(1)), ("B_param_short", b"\0\0" + i16(0) + i16(1) + i32(10) + b"abc"),
          ("B_param_null", b"\0\0" + i16(0) + i16(1) + i32(-1) + i16(0)), ("B_param_neg5", b"\0\0" + i16(0) + i16(1) + i32(-5) + i16(0)),
          ("B_fewer_fmts", b"\0\0" + i16(2) + i16(0) + i16(0) + i16(3) + i32(1) + b"1" + i32(1) + b"2" + i32(1) + b"3" + i16(0)),
          ("B_valid_text", b"\0\0" + i16(0) + i16(1) + i32(1) + b"5" + i16(0)),
          ("B_valid_bin8", b"\0\0" + i16(1) + i16(1) + i16(1) + i32(8) + struct.pack(">q", 5) + i16(0)),
          ("B_bin_len3", b"\0\0" + i16(1) + i16(1) + i16(1) + i32(3) + b"abc" + i16(0)),
          ("B_bin2_short", b"\0\0" + i16(1) + i16(1) + i16(1) + i32(2) + b"a"),
          ("B_no_rfmts", b"\0\0" + i16(0) + i16(0)),
          ("B_unknown_name", b"\0nope\0" + i16(0) + i16(0) + i16(0)), ("B_known_name", b"\0s1\0" + i16(0) + i16(0) + i16(0)),
          ("B_huge_param_len", b"\0\0" + i16(0) + i16(1) + i32(2**31 - 1) + b"x")]
    out += [(l, fr(b"B", b)) for l, b in Bb]
    for t in (b"D", b"C"):
        n = t.decode()
        out += [(n + "_kind_only", fr(t, b"S")), (n + "_no_nul", fr(t, b"Sab")), (n + "_valid_S", fr(t, b"S\0")), (n + "_valid_P", fr(t, b"P\0")),
                (n + "_bad_kind", fr(t, b"Z\0")), (n + "_unknown_name", fr(t, b"Snope\0")), (n + "_known_name", fr(t, b"Ss1\0")),
                (n + "_long_no_nul", fr(t, b"S" + b"a" * 300)), (n + "_bad_utf8", fr(t, b"S\xff\xc0\0"))]
    Qb = [("Q_no_nul", b"SELECT 1"), ("Q_only_nul", b"\0"), ("Q_valid", b"SELECT 'q'\0"), ("Q_two_nuls", b"SELECT 1\0junk\0"),
          ("Q_bad_utf8", b"\xff\xfeSELECT\0"), ("Q_shard_comment", b"/* shard_id: 0 */ SELECT 1\0"),
          ("Q_key_comment_overflow", b"/* sharding_key: 99999999999999999999 */ SELECT 1\0"),
          ("Q_shard_comment_big", b"/* shard_id: 7 */ SELECT 1\0"),
          ("Q_custom_show", b"SHOW SHARD\0"), ("Q_custom_set_key", b"SET SHARDING KEY TO '12345678901234567890123'\0"),
          ("Q_custom_set_shard", b"SET SHARD TO '99999999999999999999999'\0"), ("Q_bad_sql", b"SELEC ((((\0"),
          ("Q_nested_parens", b"SELECT " + b"(" * 200 + b"1" + b")" * 200 + b"\0"), ("Q_semicolons", b";;;\0")]
    out += [(l, fr(b"Q", b)) for l, b in Qb]
    out += [("E_no_nul", fr(b"E", b"p")), ("E_short", fr(b"E", b"\0\0")), ("E_valid", Em()), ("E_unknown_portal", Em(b"nope"))]
    return out


def bad_frames(rng):
    """(label, bytes, ...): frame-level damage: bad length fields, truncation, unknown tags, noise."""
    out = []
    for tag in (b"Q", b"P", b"z", b"\0"):
        for ln in (-1, -2, -2**31, 0, 1, 3):
            out.append(("len_%d_%s" % (ln, tag.hex()), tag + i32(ln) + b"abc"))
    out += [("trunc_header_1", b"Q"), ("trunc_header_4", b"Q\0\0\0"), ("trunc_body", fr(b"Q", b"SELEC", length=100)),
            ("len_short_of_content", fr(b"Q", b"SELECT 1\0", length=8)),            # frame ends inside the text, the tail is read as the next message
            ("len_beyond_content", fr(b"Q", b"SELECT 1\0", length=15) + Sm),        # the next message is swallowed into the body
            ("oversized_1MiB", b"Q" + i32(1 << 20) + b"SELECT"), ("oversized_max", b"d" + i32(HUGE) + b"x"),
            ("unknown_tag_z", fr(b"z", b"abc")), ("unknown_tag_00", fr(b"\0", b"")), ("unknown_tag_ff", fr(b"\xff", b"\1\2")),
            ("password_after_auth", fr(b"p", b"md5abc\0")), ("flush", Hm), ("terminate", Xm)]
    for k in range(6):
        n = rng.choice([1, 3, 5, 6, 9, 17, 40, 64])
        out.append(("noise_%d" % k, cap_len(bytes(rng.getrandbits(8) for _ in range(n)), 1)))
    for k in range(4):   # noise behind a plausible tag: random length field
        out.append(("noise_tagged_%d" % k, cap_len(rng.choice([b"Q", b"P", b"B", b"d"]) + bytes(rng.getrandbits(8) for _ in range(rng.choice([4, 8, 20]))), 1)))
    return out


def parse_frame(name, sql, count, oids, trailing=b""):
    return fr(b"P", name + b"\0" + sql + b"\0" + i16(count) + b"".join(i32(t) for t in oids) + trailing)


def canary_parse_mutants():
    """mutated copies of the CANARY's own Parse frames (same text T0): count fields -1, 0, 1, 32767, fewer / more OIDs than
    the count, trailing bytes — each followed by Sync so that an accepted one reaches the shared statement cache"""
    out = []
    for cnt in (-1, 0, 1, 32767):
        out.append(("PT_count_%d_no_oids" % cnt, parse_frame(b"h1", T0, cnt, ()) + Sm))
        out.append(("PT_count_%d_two_oids" % cnt, parse_frame(b"h2", T0, cnt, TYPES2) + Sm))
    out += [("PT_count_2_one_oid", parse_frame(b"h3", T0, 2, (23,)) + Sm), ("PT_count_2_three_oids", parse_frame(b"h4", T0, 2, (23, 25, 23)) + Sm),
            ("PT_count_0_trailing", parse_frame(b"h5", T0, 0, (), b"\xde\xad\xbe") + Sm), ("PT_count_2_trailing", parse_frame(b"h6", T0, 2, TYPES2, b"\0") + Sm),
            ("PT_unnamed_count_-1", parse_frame(b"", T0, -1, ()) + Bm() + Em() + Sm),
            ("PT_valid_then_bind_exec", parse_frame(b"h7", T0, 0, ()) + Bm(name=b"h7") + Em() + Sm),
            ("PT_count_-1_then_valid", parse_frame(b"h8", T0, -1, ()) + parse_frame(b"h9", T0, 0, ()) + Sm)]
    return out


def wrong_order():
    return canary_parse_mutants() + [("bind_without_parse", Bm() + Sm), ("execute_unknown_portal", Em(b"nope") + Sm), ("copydata_outside_copy", dm(b"1\tx\n")),
            ("copydata_outside_copy_big", dm(b"y" * 9000)), ("query_12k", Qm(b"SELECT '" + b"q" * 12000 + b"'")), ("copydone_outside_copy", cm), ("copyfail_outside_copy", fm()),
            ("copydata_then_sync", dm(b"1\tx\n") + Sm), ("sync_storm", Sm * 5), ("sync_flush_storm", (Sm + Hm) * 3),
            ("describe_then_sync", Dm(b"S", b"") + Sm), ("close_then_sync", Cm(b"S", b"") + Sm), ("close_named_then_sync", Cm(b"S", b"s1") + Sm),
            ("terminate_mid_batch", Pm(b"", b"SELECT 1") + Bm() + Xm), ("parse_bind_exec_sync", Pm(b"", b"SELECT 'e'") + Bm() + Em() + Sm),
            ("parse_named_twice", Pm(b"s3", b"SELECT 3") + Pm(b"s3", b"SELECT 33") + Sm), ("bind_named_after_close", Pm(b"s4", b"SELECT 4") + Cm(b"S", b"s4") + Bm(name=b"s4") + Sm),
            ("close_then_bind_same_batch", Pm(b"s5", b"SELECT 5") + Sm + Cm(b"S", b"s5") + Bm(name=b"s5") + Em() + Sm),
            ("copydone_copyfail_pair", cm + fm()), ("query_in_batch", Pm(b"", b"SELECT 1") + Qm(b"SELECT 'mid'") + Sm)]


# post-auth session states: name -> (prefix bytes, number of reply terminators the prefix produces)
def post_states(v):
    st = {"idle": (b"", 0),
          "idle_batch": (Pm(b"", b"SELECT 'x'") + Bm(), 0),
          "txn": (Qm(b"BEGIN"), 1),
          "txn_failed": (Qm(b"BEGIN") + Qm(b"SELECT 1 /*mock: error*/"), 2),
          "held_idle": (Hm, 0),
          "txn_batch": (Qm(b"BEGIN") + Pm(b"", b"SELECT 'y'") + Bm(), 1),
          "copy": (Qm(b"COPY t FROM STDIN"), 1),
          "copy_txn": (Qm(b"BEGIN") + Qm(b"COPY t FROM STDIN"), 2),
          "idle_named": (Pm(b"s1", b"SELECT 's1'") + Sm, 1),
          "txn_named": (Qm(b"BEGIN") + Pm(b"s1", b"SELECT 's1'") + Sm, 2)}
    if v["rw"]:
        st["idle_keyed"] = (Pm(b"", KQ), 0)
    return st


def gen_cases(rng, quick):
    cases = []
    vnames = list(VARIANTS)
    kinds = [("body", l, b) for l, b in malformed_bodies()] + [("frame", l, b) for l, b in bad_frames(rng)] + [("order", l, b) for l, b in wrong_order()]
    k = 0
    # every (state, kind) once, the configuration rotates so that every (kind, variant) and (state, variant) pair occurs
    snames = list(post_states(VARIANTS["plain"]))
    for si, sn in enumerate(snames):
        for ki, (cat, lab, hb) in enumerate(kinds):
            if quick and (si * 7 + ki) % 2 == 1 and cat != "order" and sn not in ("idle", "txn"):
                continue          # quick tier: half of the body/frame kinds in the secondary states
            vn = vnames[(si + ki + (ki // len(vnames))) % (len(vnames) - 1)]      # shardkey handled below
            probe = (ki + si) % 2 == 0
            cases.append(dict(kind="post", variant=vn, state=sn, cat=cat, label=lab, hostile=hb, probe=probe))
            k += 1
    # shard-key inference: malformed Binds after a Parse whose placeholder is the sharding key
    for lab, hb in malformed_bodies():
        if lab.startswith("B_") or lab.startswith("P_key") or lab.startswith("len4_B"):
            cases.append(dict(kind="post", variant="shardkey", state="idle_keyed", cat="body", label=lab, hostile=hb, probe=True))
            cases.append(dict(kind="post", variant="shardkey", state="idle", cat="body", label=lab, hostile=hb, probe=False))
    # every variant sees every body kind at idle and inside a transaction (quick: idle only for odd kinds)
    for vi, vn in enumerate(vnames[:-1]):
        for ki, (lab, hb) in enumerate(malformed_bodies()):
            if quick and (ki + vi) % 3 != 0:
                continue
            for sn in ("idle", "txn"):
                cases.append(dict(kind="post", variant=vn, state=sn, cat="body", label=lab, hostile=hb, probe=(ki % 2 == 0)))
    for vn in ("cache", "cache_regex", "parser_cache", "all"):
        for ki, (lab, hb) in enumerate(canary_parse_mutants()):
            for sn in ("idle", "txn", "idle_named"):
                if quick and (ki + len(vn) + len(sn)) % 2 == 1 and vn != "cache":
                    continue
                cases.append(dict(kind="post", variant=vn, state=sn, cat="cache_poison", label=lab, hostile=hb, probe=(ki % 2 == 0)))
    # admin client
    adm = [(l, b) for l, b in malformed_bodies() if l.startswith(("len4_", "Q_", "P_valid", "B_valid", "C_", "E_"))] + bad_frames(rng)
    adm += [("admin_show_help", Qm(b"SHOW HELP")), ("admin_unsupported", Qm(b"SELECT 1")), ("admin_show_bogus", Qm(b"SHOW BOGUS")), ("admin_set", Qm(b"SET x TO 1")),
            ("admin_show_lists", Qm(b"SHOW LISTS")), ("admin_show_version_no_nul", fr(b"Q", b"SHOW VERSION"))]
    for i, (lab, hb) in enumerate(adm):
        cases.append(dict(kind="admin", variant="plain", state="admin", cat="admin", label=lab, hostile=hb, probe=(i % 2 == 0)))
    # pre-auth
    good = [(b"user", b"u"), (b"database", b"db")]
    pre = []
    for ln in (-1, -2**31, 0, 3, 4, 5, 7, 8, 2**31 - 1, HUGE):
        pre.append(("startup_len_%d" % ln, i32(ln) + (i32(196608) if ln >= 8 else b"\0\0")))
    pre += [("startup_len8_protocol", startup([], tail=b"")), ("startup_len8_ssl", i32(8) + i32(80877103)), ("startup_len8_cancel", i32(8) + i32(80877102)),
            ("cancel_short", i32(12) + i32(80877102) + i32(7)), ("cancel_unknown_key", i32(16) + i32(80877102) + i32(7) + i32(9)),
            ("cancel_long", i32(20) + i32(80877102) + i32(7) + i32(9) + i32(1)),
            ("startup_unknown_code", i32(8) + i32(12345)), ("startup_gssenc", i32(8) + i32(80877104)), ("startup_v2", startup(good, code=131072)),
            ("startup_no_terminator", startup(good, tail=b"")), ("startup_unterminated_value", i32(4 + 4 + 6) + i32(196608) + b"user\0u"),
            ("startup_odd_strings", startup([(b"user", b"u")], tail=b"x\0\0")), ("startup_no_user", startup([(b"database", b"db")])),
            ("startup_empty_params", startup([])), ("startup_only_nuls", startup([], tail=b"\0\0\0\0")),
            ("startup_unknown_db", startup([(b"user", b"u"), (b"database", b"nope")])), ("startup_unknown_user", startup([(b"user", b"x"), (b"database", b"db")])),
            ("startup_dup_user", startup([(b"user", b"x"), (b"database", b"db"), (b"user", b"u")])),
            ("startup_empty_value_skipped", i32(4 + 4 + 5 + 1 + 9 + 3) + i32(196608) + b"user\0\0database\0db\0"),
            ("startup_latin1", startup([(b"user", b"\xe9"), (b"database", b"db")])),
            ("startup_trunc_len", b"\0\0"), ("startup_trunc_body", i32(40) + i32(196608) + b"user\0"),
            ("startup_len_short_of_content", startup(good, length=12)),
            ("startup_valid_then_garbage", startup(good) + b"\xff" * 7)]
    for k2 in range(5):
        pre.append(("startup_noise_%d" % k2, cap_len(bytes(rng.getrandbits(8) for _ in range(rng.choice([1, 4, 8, 13, 40]))), 0)))
    for lab, hb in pre:
        cases.append(dict(kind="pre", variant="plain", state="pre_startup", cat="startup", label=lab, hostile=hb, probe=False))
        cases.append(dict(kind="pre", variant="plain", state="after_ssl_n", cat="startup", label=lab, hostile=hb, probe=False))
    pw = [("pw_wrong", fr(b"p", b"md5" + b"a" * 32 + b"\0")), ("pw_empty", fr(b"p")), ("pw_bad_code", fr(b"Q", b"x\0")), ("pw_code_only", b"p"),
          ("pw_len_0", b"p" + i32(0)), ("pw_len_3", b"p" + i32(3)), ("pw_len_neg", b"p" + i32(-7)), ("pw_len_min", b"p" + i32(-2**31)), ("pw_len_min3", b"p" + i32(-2**31 + 3)),
          ("pw_len_min4", b"p" + i32(-2**31 + 4)), ("pw_trunc", fr(b"p", b"md5", length=40)), ("pw_huge", b"p" + i32(HUGE) + b"md5"), ("pw_trunc_len", b"p\0\0"),
          ("pw_then_query", fr(b"p", b"x\0") + PROBE), ("pw_ssl_request", i32(8) + i32(80877103))]
    for lab, hb in pw:
        cases.append(dict(kind="pre", variant="plain", state="await_pw", cat="password", label=lab, hostile=hb, probe=False))
        cases.append(dict(kind="pre", variant="plain", state="await_pw_admin", cat="password", label=lab, hostile=hb, probe=False))
    # trust auth: a valid startup goes straight to the session, the rest of the write is session traffic
    for lab, hb in (("trust_then_q_len4", fr(b"Q")), ("trust_then_close_kind_only", fr(b"C", b"S")), ("trust_then_probe", PROBE), ("trust_then_noise", b"\xfe" * 9)):
        cases.append(dict(kind="pre", variant="plain", state="pre_startup_trust", cat="startup", label=lab, hostile=startup(good) + hb, probe=False))
    # TCP segmentation: the same bytes cut into several writes
    seg = [c for c in cases if c["kind"] == "post" and c["cat"] == "order"][: (8 if quick else 60)]
    for c in seg:
        d = dict(c)
        n = len(c["hostile"])
        d["splits"] = sorted({1, 3, max(1, n // 2), max(1, n - 2)})
        d["label"] = c["label"] + "+split"
        cases.append(d)
    if not quick:
        # random compositions of hostile pieces at random states, many
        allk = kinds
        for t in range(int(os.environ.get("C11_RANDOM", "30000"))):
            vn = rng.choice(vnames)
            sts = list(post_states(VARIANTS[vn]))
            sn = rng.choice(sts)
            pieces = [rng.choice(allk) for _ in range(rng.choice([1, 1, 2, 3]))]
            hb = b"".join(p[2] for p in pieces)
            cases.append(dict(kind="post", variant=vn, state=sn, cat="random", label="+".join(p[1] for p in pieces), hostile=hb, probe=rng.random() < 0.5))
    for i, c in enumerate(cases):
        c["id"] = i
    return cases


# ------------------------------------------------------------------------------------- scenarios
T0 = b"SELECT 'canary-ext' /*T*/"        # the fixed text of the canary's prepared statements
TYPES2 = (23, 25)


def canary_ext_rounds():
    """the canary's EXTENDED round (statement caching on): T0 prepared with 0 and with 2 typed parameters, bound, described,
    executed; then bound and executed again.  The shared statement cache (pool level and per server) is what it probes."""
    return [Pm(b"c0", T0) + Bm(name=b"c0") + Dm(b"S", b"c0") + Em() + Sm,
            Pm(b"c2", T0, TYPES2) + Bm(name=b"c2", params=[b"1", b"x"]) + Dm(b"S", b"c2") + Em() + Sm,
            Bm(name=b"c0") + Em() + Bm(name=b"c2", params=[b"2", b"y"]) + Em() + Sm]


def canary(wait_ms=5000, ext=False, ntasks=2):
    # the canary terminates and waits for the pooler's close: its server is back in the pool by then (no timing involved)
    st = [{"op": "connect", "c": "k", "params": {"user": "u", "database": "db"}, "password": "pw", "timeout_ms": 4000},
          {"op": "send", "c": "k", "msgs": [{"t": "Q", "sql": "SELECT 'canary-1'"}]}, {"op": "recv", "c": "k", "until": "Z", "timeout_ms": 4000},
          {"op": "send", "c": "k", "msgs": [{"t": "Q", "sql": "SELECT 'canary-2'"}]}, {"op": "recv", "c": "k", "until": "Z", "timeout_ms": 4000}]
    if ext:
        for i, r in enumerate(canary_ext_rounds()):
            st += [{"op": "send", "c": "k", "msgs": [{"raw": r.hex()}]}, {"op": "recv", "c": "k", "until": "Z", "timeout_ms": 4000, "label": "ext%d" % (i + 1)}]
    return st + [{"op": "send", "c": "k", "msgs": [{"t": "X"}]}, {"op": "recv", "c": "k", "until": "", "count": 0, "timeout_ms": 4000, "label": "bye"},
                 {"op": "wait_tasks", "n": ntasks, "timeout_ms": wait_ms}, {"op": "snapshot", "label": "end"}]


CANARY = canary()


def canon_frame(f):
    t = f.get("t")
    if t == "D":
        return ["D", (f.get("cols") or [None, None, None])[2]]
    if t == "C":
        return ["C", f.get("tag")]
    if t == "Z":
        return ["Z", f.get("status")]
    if t == "E":
        return ["E", f.get("fields", {}).get("C"), f.get("fields", {}).get("M", "")[:80]]
    return [t, f.get("len")]


BASELINE = {}      # what the canary sees on a FRESH pool: {"ext": [[frames of round 1], ..], "tracked": {...}}


def compute_baseline(wire):
    """the canary alone on a fresh pool (statement caching on): the reference for 'answered exactly as on a fresh pool'"""
    r = W.run_scenario(wire, {"backends": [{"name": "b0"}], "toml": make_toml(VARIANTS["cache"]), "hex": False, "steps": canary(3000, True, 1)}, timeout=60)
    if "events" not in r:
        return "baseline scenario failed: %s" % str(r)[:300]
    ext = [[canon_frame(f) for f in e["frames"]] for e in r["events"] if e.get("who") == "k" and e.get("ev") == "recv" and str(e.get("label", "")).startswith("ext")]
    first = [e for e in r["events"] if e.get("ev") == "msg" and e.get("detail", {}).get("sql") == "SELECT 'canary-1'"]
    if len(ext) != 3 or not first or any(f[0] == "E" for rr in ext for f in rr):
        return "baseline canary round is not clean: %s" % json.dumps(ext)[:400]
    BASELINE["ext"] = ext
    BASELINE["tracked"] = first[0].get("tracked")
    return None


def stream_bytes(c):
    """the post-prefix bytes of the attacker: hostile part (+ probe)"""
    hb = c["hostile"]
    if c.get("probe"):
        hb += (cm + PROBE) if c["state"].startswith("copy") else PROBE
    if c["kind"] == "post":
        return sanitize(post_states(VARIANTS[c["variant"]])[c["state"]][0], hb)
    if c["kind"] == "admin":
        return sanitize(b"", hb)
    if c["state"] == "pre_startup_trust":
        n = struct.unpack(">i", hb[:4])[0]
        return hb[:n] + sanitize(b"", hb[n:])
    return hb


def scenario(c, wait_ms=6000):
    v = VARIANTS[c["variant"]]
    trust = c["state"] == "pre_startup_trust"
    steps = []
    A = "a"
    hb = stream_bytes(c)
    if c["kind"] == "pre":
        if c["state"] in ("pre_startup", "pre_startup_trust"):
            steps.append({"op": "connect", "c": A, "raw_startup": hb.hex(), "no_auth": True})
        elif c["state"] == "after_ssl_n":
            steps += [{"op": "connect", "c": A, "raw_startup": (i32(8) + i32(80877103)).hex(), "no_auth": True}, {"op": "read_raw", "c": A, "n": 1, "timeout_ms": 4000},
                      {"op": "send", "c": A, "msgs": [{"raw": hb.hex()}]}]
        else:
            db = "pgcat" if c["state"] == "await_pw_admin" else "db"
            us = "admin" if c["state"] == "await_pw_admin" else "u"
            steps += [{"op": "connect", "c": A, "raw_startup": startup([(b"user", us.encode()), (b"database", db.encode())]).hex(), "no_auth": True},
                      {"op": "recv", "c": A, "until": "R", "timeout_ms": 4000, "label": "challenge"}, {"op": "send", "c": A, "msgs": [{"raw": hb.hex()}]}]
    else:
        if c["kind"] == "admin":
            steps.append({"op": "connect", "c": A, "params": {"user": "admin", "database": "pgcat"}, "password": "adminpw", "timeout_ms": 4000})
            prefix, nz = b"", 0
        else:
            cs = {"op": "connect", "c": A, "params": dict({"user": "u", "database": "db"}, **c.get("startup_params", {})), "password": "pw", "timeout_ms": 4000}
            if c.get("raw_startup"):
                cs["raw_startup"] = c["raw_startup"]
            steps.append(cs)
            prefix, nz = post_states(v)[c["state"]]
        if prefix:
            steps.append({"op": "send", "c": A, "msgs": [{"raw": prefix.hex()}]})
            if nz:
                steps.append({"op": "recv", "c": A, "until": "ZG", "count": nz, "timeout_ms": 4000, "label": "prefix"})
        s = {"op": "send", "c": A, "msgs": [{"raw": hb.hex()}]}
        if c.get("splits"):
            s["splits"] = c["splits"]
        steps.append(s)
    steps += [{"op": "half_close", "c": A}, {"op": "recv", "c": A, "until": "", "count": 0, "timeout_ms": wait_ms, "label": "hostile"}, {"op": "close", "c": A},
              {"op": "wait_tasks", "n": 1, "timeout_ms": wait_ms}]
    return {"backends": [{"name": "b0"}], "toml": make_toml(v, trust), "hex": False, "workers": 2, "steps": steps + canary(wait_ms, v["cache"])}


# ----------------------------------------------------------------------------------- observation
def task_class(t):
    if t is None:
        return "running"
    if t == "ok":
        return "ok"
    if t == "panic":
        return "panic"
    if "ClientBadStartup" in t:
        return "badstartup"
    if "UnexpectedEof" in t or "password code" in t or "password message" in t:
        if "message code from socket" in t or "password code" in t:
            return "eof_boundary"
        return "eof_inside"
    return "err"


def observe(res, c):
    """what the attacker saw and how its task ended (canonical)"""
    ev = res.get("events", [])
    zs, nerr, closed, outcome = [], 0, False, None
    started = c["kind"] == "pre"
    for e in ev:
        if e.get("who") != "a":
            continue
        if e.get("ev") == "startup_done":
            started = True
            continue
        if e.get("ev") != "recv" or not started:
            continue
        if e.get("label") == "challenge":
            continue
        for f in e["frames"]:
            if f.get("t") == "Z":
                zs.append({"I": "ZI", "T": "ZT", "E": "ZE"}.get(f.get("status"), "Z?"))
            elif f.get("t") == "G":
                zs.append("ZG")
            elif f.get("t") == "E" and f.get("fields", {}).get("C") in ("58000", "28P01") and f.get("fields", {}).get("S") == "FATAL":
                nerr += 1
        if e.get("label") == "hostile":
            closed = e.get("outcome") in ("closed", "closed-in-frame")
            outcome = e.get("outcome")
    tr = res.get("task_results", [])
    snaps = res.get("snapshots", [])
    # the attacker's task is the first one that can have ended (the canary stays connected)
    t = tr[0] if tr else None
    return {"zs": zs, "nerr": nerr, "closed": closed, "recv_outcome": outcome, "task": task_class(t), "task_raw": t}


CLEAN = {"txn": "I", "copy": False, "gucs": [], "role": None, "stmts": [], "sql_prepared": [], "listens": []}


def monitors(res, c):
    """model-free: process alive, canary served by a clean session, capacity restored. -> list of problems"""
    bad = []
    if "harness_fault" in res:
        # the harness itself could not run (its own main thread panicked: no socket / thread to be had, ...): not an observation of the pooler
        return ["HARNESS-FAULT: %s" % str(res["harness_fault"])[:400]]
    if "harness_error" in res:
        return ["process died or hung: %s" % str(res["harness_error"])[:600]]
    if "start_error" in res:
        return ["pooler did not start: %s" % res["start_error"]]
    ev = res["events"]
    k_done = [e for e in ev if e.get("who") == "k" and e.get("ev") == "startup_done"]
    if not k_done or not k_done[0].get("auth_ok"):
        bad.append("canary could not log in")
    recvs = [e for e in ev if e.get("who") == "k" and e.get("ev") == "recv" and e.get("label") != "bye"]
    for i, e in enumerate(recvs[:2]):
        want = "SELECT 'canary-%d'" % (i + 1)
        rows = [f for f in e["frames"] if f.get("t") == "D"]
        zz = [f for f in e["frames"] if f.get("t") == "Z"]
        errs = [f for f in e["frames"] if f.get("t") == "E"]
        if e.get("outcome") != "ok" or len(rows) != 1 or rows[0].get("cols", [None, None, None])[2] != want or errs or not zz or zz[-1].get("status") != "I":
            bad.append("canary statement %d not answered correctly: outcome=%s frames=%s" % (i + 1, e.get("outcome"), json.dumps(e["frames"])[:300]))
    if len(recvs) < 2:
        bad.append("canary statements missing")
    first = [e for e in ev if e.get("ev") == "msg" and e.get("detail", {}).get("sql") == "SELECT 'canary-1'"]
    if first:
        st = dict(first[0]["state"])
        # the pooler's own PGCAT_n statements stay on a server connection by design (C08), they are nobody's session state
        st["stmts"] = [x for x in st.get("stmts", []) if not str(x[0]).startswith("PGCAT_")]
        dirty = {k: st.get(k) for k in CLEAN if st.get(k) != CLEAN[k]}
        if dirty:
            bad.append("canary's first statement reached a backend session that was not clean: %s" % dirty)
        if BASELINE.get("tracked") is not None and first[0].get("tracked") != BASELINE["tracked"]:
            bad.append("canary's first statement ran with session parameters that are not its own: %s (fresh pool: %s)" % (first[0].get("tracked"), BASELINE["tracked"]))
    elif not bad:
        bad.append("canary's statement never reached the backend")
    exts = [e for e in ev if e.get("who") == "k" and e.get("ev") == "recv" and str(e.get("label", "")).startswith("ext")]
    if exts or VARIANTS[c["variant"]]["cache"]:
        got = [[canon_frame(f) for f in e["frames"]] for e in exts]
        want = BASELINE.get("ext")
        if want is not None and got != want:
            i = next((j for j in range(3) if j >= len(got) or got[j] != want[j]), 0)
            bad.append("canary's extended round %d (Parse/Bind/Describe/Execute of its own statement) is not answered as on a fresh pool: got %s, fresh pool %s"
                       % (i + 1, json.dumps(got[i] if i < len(got) else None)[:300], json.dumps(want[i])[:200]))
        elif want is None and any(f[0] == "E" for rr in got for f in rr):
            bad.append("canary's extended round got an error: %s" % json.dumps(got)[:300])
    if VARIANTS[c["variant"]]["cache"]:
        # statement caching on: no statement name a client chooses exists on a server, and the pooler's own are not a client's to
        # close: the backend never sees Close('S', <non-empty name>) (the pool's LRU of 50 is never full here: no eviction Close)
        cl = sorted({str(e["detail"].get("name")) for e in ev if e.get("ev") == "msg" and e.get("tag") == "C" and e.get("detail", {}).get("kind") == "S" and e.get("detail", {}).get("name")})
        if cl:
            bad.append("statement caching on, yet the backend received Close of named statement(s) %s" % cl[:6])
    if "panic" in res.get("task_results", [])[1:]:
        bad.append("a task other than the first one to end (the sender's) panicked: %s" % res.get("task_results"))
    snaps = [s for s in res.get("snapshots", []) if s.get("label") == "end"]
    if snaps:
        s = snaps[0]
        for p in s["pools"]:
            for x in p["servers"]:
                if x["connections"] > 1 or x["idle"] != x["connections"]:
                    bad.append("capacity not restored: connections=%d idle=%d (pool_size 1)" % (x["connections"], x["idle"]))
    else:
        bad.append("no final snapshot")
    return bad


# -------------------------------------------------------------------------------------- the model
def custom_regexes():
    src = open(os.path.join(vlib.REPO, "src", "query_router.rs")).read()
    m = re.search(r"const CUSTOM_SQL_REGEXES: \[&str; (\d+)\] = \[(.*?)\];", src, re.S)
    if not m:
        return None
    lits = re.findall(r'r"((?:[^"\\]|\\.)*)"', m.group(2))
    if len(lits) != int(m.group(1)):
        return None
    out = []
    for l in lits:
        flags = 0
        m2 = re.match(r"\(\?([a-z]*)-u\)", l)      # Rust (?i-u): case-insensitive, ASCII only -> Python (?i) + re.ASCII
        if m2:
            l = "(?%s)" % m2.group(1) + l[m2.end():] if m2.group(1) else l[m2.end():]
            flags = re.ASCII
        out.append(re.compile(l[:-1] + r"\Z" if l.endswith("$") else l, flags))
    return out


def frames_of(bs):
    """best-effort split of a byte string into well-formed frames (for the oracle inputs only)"""
    out, i = [], 0
    while i + 5 <= len(bs):
        ln = struct.unpack(">i", bs[i + 1:i + 5])[0]
        if ln < 4 or i + 1 + ln > len(bs):
            break
        out.append((bs[i:i + 1], bs[i + 5:i + 1 + ln]))
        i += 1 + ln
    return out


def coq_opts(c, chk, customs, fxs):
    v = VARIANTS[c["variant"]]
    b = lambda x: "true" if x else "false"
    def tab(pairs):
        return "(fun q => " + "".join("if beq_bytes q %s then %d%%N else " % (vlib.coq_bytes(q), v_) for q, v_ in pairs) + "0%N)"
    cl, fl = tab(customs), tab(fxs)
    ph = "(fun q => if beq_bytes q %s then [1%%Z] else [])" % vlib.coq_bytes(KQ) if v["rw"] else "(fun _ => [])"
    return ("(mkO %s %s %s %s %s None true %s %s %s false %s %s %s %s %s)"
            % (b(chk), b(v["parser"]), b(v["cache"]), b(v["regex"]), b(v["rw"]), vlib.coq_bytes(b"u"), vlib.coq_bytes(b"db"),
               b(c["state"] == "pre_startup_trust"), vlib.coq_bytes(PW_SENTINEL), vlib.coq_bytes(PW_SENTINEL), cl, ph, fl))


def model_input(c):
    """(initial state term, bytes the model runs on)"""
    hb = stream_bytes(c)
    if c["kind"] == "pre":
        if c["state"] in ("pre_startup", "pre_startup_trust"):
            return "PreStartup", hb
        if c["state"] == "after_ssl_n":
            return "AfterSslN", hb
        return ("(AwaitPw true)" if c["state"] == "await_pw_admin" else "(AwaitPw false)"), hb
    if c["kind"] == "admin":
        return "AdminIdle", hb
    return "(Idle c0)", post_states(VARIANTS[c["variant"]])[c["state"]][0] + hb


ADMIN_SHOW = {"HELP", "BANS", "CONFIG", "DATABASES", "LISTS", "POOLS", "CLIENTS", "SERVERS", "STATS", "VERSION", "USERS"}


def admin_class(q):
    """admin.rs handle_admin: 0 unsupported (error_response), 1 answered, 2 state-changing"""
    try:
        parts = q.decode("utf-8").rstrip(";").split()
    except UnicodeDecodeError:
        return 0
    w = parts[0].upper() if parts else ""
    if w in ("BAN", "UNBAN", "RELOAD", "PAUSE", "RESUME", "SHUTDOWN"):
        return 2
    if w == "SET":
        return 1
    if w == "SHOW":
        return 1 if (parts[1].upper() if len(parts) > 1 else "") in ADMIN_SHOW else 0
    return 0


def custom_class(txt, rx):
    """try_execute_command + handle_custom_protocol on a one-shard pool: 0 none, 1 answered, 2 error_response"""
    hits = [i for i, r in enumerate(rx) if r.search(txt)]
    if len(hits) != 1:
        return 0
    i = hits[0]
    m = rx[i].search(txt)
    if i == 0:
        return 1 if int(m.group(1)) < 2**63 else 2
    if i == 1:
        v_ = m.group(1)
        return 1 if v_.upper() == "ANY" or int(v_) < 1 else 2
    return 1


def coq_expr(c, obs, chk, rx):
    st, bs = model_input(c)
    customs, fxs = [], []
    for tag, body in frames_of(bs):
        if tag == b"Q":
            q = body.split(b"\0")[0] if b"\0" in body else body[:-1]
            try:
                txt = q.decode("utf-8")
            except UnicodeDecodeError:
                txt = None
            if txt is not None and c["kind"] != "admin" and custom_class(txt, rx):
                customs.append((q, custom_class(txt, rx)))
            if c["kind"] == "admin" and body and admin_class(body[:-1]):
                fxs.append((body[:-1], admin_class(body[:-1])))
    return "observe %s %s %s [%s]" % (coq_opts(c, chk, customs, fxs), st, vlib.coq_bytes(bs), "; ".join(obs["zs"]))


PREAMBLE = "From PV Require Import Hostile.Decode.\nFrom Coq Require Import ZArith NArith List. Import ListNotations."


def expected_task(kl, sc):
    """model final class -> set of admissible task endings after the client's half-close"""
    pre = sc in (0, 1)
    if kl == "KOk":
        return {"ok"}
    if kl == "KPanic":
        return {"panic"}
    if kl == "KErr":
        return {"err", "badstartup"}
    if kl == "KCont":
        return {"badstartup"} if pre else {"eof_boundary"}
    if kl == "KNeed":
        return {"badstartup"} if pre else {"eof_inside"}
    if kl == "KBlocked":
        return {"running"}
    return set()


def compare(c, obs, val):
    """model value vs observation -> list of disagreements"""
    kl, sc, zs, nerr = vlib.parse_coq(val)
    diffs = []
    if zs != obs["zs"]:
        diffs.append("reply terminators: model %s, implementation %s" % (zs, obs["zs"]))
    if nerr != obs["nerr"]:
        diffs.append("pooler-made error replies: model %d, implementation %d" % (nerr, obs["nerr"]))
    if obs["task"] not in expected_task(kl, sc):
        diffs.append("task ending: model %s (state class %d), implementation %s (%s)" % (kl, sc, obs["task"], (obs["task_raw"] or "")[:120]))
    if kl != "KBlocked" and not obs["closed"]:
        diffs.append("model %s but the connection was not closed by the pooler after the client's half-close (recv outcome %s)" % (kl, obs.get("recv_outcome")))
    return diffs, kl, sc


# --------------------------------------------------------------------------------------------- T1
SITES = [
    # (file, regex, expected count, what)
    ("src/client.rs", r"vec!\[0u8; len as usize - 4\]", 1, "get_startup length arithmetic"),
    ("src/client.rs", r"vec!\[0u8; \(len - 4\) as usize\]", 2, "password readers"),
    ("src/client.rs", r"let process_id = bytes\.get_i32\(\);\s*let secret_key = bytes\.get_i32\(\);", 1, "Client::cancel reads"),
    ("src/client.rs", r"let close: Close = \(&message\)\.try_into\(\)\?;", 2, "Close decoded in both loops"),
    ("src/client.rs", r"self\.forget_closed_statement\(&close\);", 2, "Close forgets the statement name on arrival, both loops"),
    ("src/messages.rs", r"BytesMut::with_capacity\(len as usize \+ 1\)", 1, "read_message allocation"),
    ("src/messages.rs", r"if slice_end < slice_start", 1, "read_message guard"),
    ("src/messages.rs", r"&buf\[\.\.buf\.len\(\) - 1\]", 1, "cursor read_string"),
    ("src/messages.rs", r"4 \* parse\.num_params as usize", 1, "Parse re-encoding"),
    ("src/messages.rs", r"None => Err\(Error::ClientBadStartup\),", 1, "parse_params: unterminated string is an error"),
    ("src/query_router.rs", r"cmp::min\(len - 5, self\.pool_settings\.regex_search_limit\)", 1, "comment routing segment"),
    ("src/query_router.rs", r"message_cursor\.read_string\(\)\.unwrap\(\)", 4, "try_execute_command + parse unwraps"),
    ("src/query_router.rs", r"_ => unreachable!\(\),\s*\}\)\s*\}", 1, "uniform format code"),
    ("src/query_router.rs", r"formats\[i as usize\]\.clone\(\)", 1, "per-parameter format lookup"),
    ("src/query_router.rs", r"Vec::with_capacity\(n as usize\)", 1, "format vector capacity"),
    ("src/admin.rs", r"&query\[\.\.len - 5\]", 1, "admin query slice"),
    ("src/client.rs", r"if !server\.in_copy_mode\(\) \{\s*self\.buffer\.clear\(\);", 1, "CopyDone/CopyFail outside COPY dropped"),
    ("src/client.rs", r"if server\.in_copy_mode\(\) \{\s*continue;\s*\}", 1, "Sync dropped while in COPY"),
    ("src/client.rs", r"server\.mark_bad\(\"query while the server is in COPY mode\"\);", 1, "Query during COPY ends the session, server discarded"),
    ("src/pool.rs", r"self\.address\.role != Role::Mirror && conn\.is_unclean\(\)", 1, "has_broken closes unclean connections"),
]


def t1(run):
    probs = []
    for rel in ("Cargo.toml", ".cargo/config.toml", ".cargo/config"):
        p = os.path.join(vlib.REPO, rel)
        if os.path.exists(p):
            txt = re.sub(r"#.*", "", open(p).read())
            if re.search(r"panic\s*=\s*[\"']abort[\"']", txt) or re.search(r"-C\s*panic=abort|-Cpanic=abort", txt):
                probs.append("%s selects panic=abort: a panicking client task would terminate the pooler" % rel)
    site_diffs = []
    for rel, rx, n, what in SITES:
        src = open(os.path.join(vlib.REPO, rel)).read()
        got = len(re.findall(rx, src))
        if got != n:
            site_diffs.append("%s: %s — pattern /%s/ occurs %d times, the model was written for %d" % (rel, what, rx, got, n))
    run.cov["t1"] = {"panic_abort": probs, "site_census_checked": len(SITES), "site_census_diffs": site_diffs}
    return probs, site_diffs


# ------------------------------------------------------------------------------------------ check
def known_ids():
    return {e.get("id"): e for e in vlib.known_findings("C11") if e.get("status") == "known"}


UNREPRODUCED = []     # first-run failures that did not show again when the same scenario was repeated alone (kept in the evidence)


def run_confirmed(wire, scns, cases, extra_fail=None):
    """run the scenarios 16-way parallel; a scenario whose monitors fail (or whose harness could not run) is repeated alone, twice:
    a defect of the pooler is deterministic on these inputs and shows again, an accident of the loaded machine (no local port,
    no thread, a scheduling stall past a timeout) does not.  Only a failure that shows in all three runs is reported."""
    import time
    res = W.run_scenarios(wire, scns, timeout=90)
    for i, (scn, c) in enumerate(zip(scns, cases)):
        probs = monitors(res[i], c) or (extra_fail(res[i], c) if extra_fail else [])
        if not probs or c.get("no_retry"):
            continue
        for k in range(2):
            time.sleep(1.5)
            r2 = W.run_scenario(wire, scn, timeout=90)
            p2 = monitors(r2, c) or (extra_fail(r2, c) if extra_fail else [])
            if not p2:
                UNREPRODUCED.append({"case": c.get("label"), "variant": c.get("variant"), "state": c.get("state"), "first_run": probs[:2], "repeat_that_passed": k + 1})
                res[i] = r2
                break
    return res


def viol(run, probs, what, payload):
    """a HARNESS-FAULT (the harness could not run, three times) is a broken check, everything else a violation"""
    if probs and probs[0].startswith("HARNESS-FAULT"):
        run.broken.append("%s — %s" % (what[:200], probs[0]))
    else:
        run.violation("counterexample", what, payload)


def run_batch(run, wire, cases, chk, rx, stats, label):
    scns = [scenario(c) for c in cases]
    res = run_confirmed(wire, scns, cases)
    obs, exprs, live = [], [], []
    for c, r in zip(cases, res):
        probs = monitors(r, c)
        stats["evaluations"] += 1
        if "harness_error" in r or "start_error" in r or "harness_fault" in r:
            stats["monitor_fail"].append((c, probs, None))
            continue
        o = observe(r, c)
        obs.append(o)
        live.append((c, r, probs, o))
        exprs.append(coq_expr(c, o, chk, rx))
    vals = vlib.coq_eval("c11_" + label, PREAMBLE, exprs, shard=max(20, len(exprs) // 16 + 1)) if exprs else []
    for (c, r, probs, o), val in zip(live, vals):
        diffs, kl, sc = compare(c, o, val)
        stats["classes"][kl] = stats["classes"].get(kl, 0) + 1
        stats["distinct"].add((c["variant"], c["state"], c["label"], bool(c.get("probe")), chk))
        stats["trans"].add((c["state"], c["cat"], kl))
        if probs:
            stats["monitor_fail"].append((c, probs, (o, val)))
        if diffs:
            import time
            for k in range(2):
                time.sleep(1.0)
                r2 = W.run_scenario(wire, scenario(c), timeout=90)
                if "events" not in r2:
                    continue
                o2 = observe(r2, c)
                val2 = vlib.coq_eval("c11_re_" + label, PREAMBLE, [coq_expr(c, o2, chk, rx)])[0]
                d2, _, _ = compare(c, o2, val2)
                if not d2:
                    UNREPRODUCED.append({"case": c.get("label"), "variant": c.get("variant"), "state": c.get("state"), "first_run": diffs[:2], "repeat_that_passed": k + 1})
                    diffs = []
                    break
        if diffs:
            stats["tie_fail"].append((c, diffs, (o, val)))
        else:
            stats["validated"] += 1
        if len(stats["samples"]) < 8 and kl in ("KPanic", "KErr", "KCont") and (kl, c["state"]) not in stats["_seen"]:
            stats["_seen"].add((kl, c["state"]))
            stats["samples"].append({"variant": c["variant"], "state": c["state"], "label": c["label"], "bytes": stream_bytes(c).hex()[:160],
                                     "model": val, "implementation": {k: o[k] for k in ("zs", "nerr", "closed", "task")}})
    return res


def case_replay(c, chk=True):
    d = {k: v for k, v in c.items() if k not in ("hostile",)}
    d["hostile_hex"] = c["hostile"].hex()
    d["chk"] = chk
    return d


def special_scenarios(run, wire, quick):
    """the recorded known classes, each reproduced in ONE guarded scenario, and the regression inputs of repaired ones"""
    known = known_ids()
    out = {}
    # F25: deep expression -> stack overflow -> the whole process aborts
    c = dict(kind="post", variant="parser", state="idle", cat="known", label="deep_expression_200k", hostile=Qm(b"SELECT 1" + b"+1" * 200000), probe=False, id=-1)
    r = W.run_scenario(wire, scenario(c), timeout=120)
    died = "harness_error" in r and ("rc=-6" in str(r["harness_error"]) or "rc=-11" in str(r["harness_error"]) or "overflowed its stack" in str(r["harness_error"]))
    out["F25"] = {"reproduced": died, "detail": str(r.get("harness_error", "survived"))[:200]}
    if died:
        if "F25-deep-expression-stack-overflow" in known:
            run.known_finding("one Query 'SELECT 1+1+...+1' with 200000 terms (400 KB) and query_parser_enabled: sqlparser's left-nested tree overflows the worker's stack; the pooler process aborts (stack overflow is not a panic, tokio cannot isolate it)",
                              key="F25-deep-expression-stack-overflow")
        else:
            run.violation("counterexample", "a 400 KB Query 'SELECT 1+1+...' (200000 terms) with query_parser_enabled aborts the whole pooler (stack overflow)",
                          {"input": case_replay(c), "impl": out["F25"]["detail"]})
    elif "harness_error" in r:
        run.broken.append("deep-expression scenario failed in an unexpected way: %s" % out["F25"]["detail"])
    else:
        probs = monitors(r, c)
        if probs:
            run.violation("counterexample", "deep expression: pooler survived but %s" % probs[0], {"input": case_replay(c), "monitors": probs})
    # F21c: extended-protocol COPY FROM STDIN, CopyDone is answered without ReadyForQuery (what PostgreSQL does)
    cc = (b"C" + i32(4 + 7) + b"COPY 1\0").hex()
    sql = ("COPY t FROM STDIN /*mock: copy_reply_raw=%s*/" % cc).encode()
    v = VARIANTS["plain"]
    steps = [{"op": "connect", "c": "a", "params": {"user": "u", "database": "db"}, "password": "pw"},
             {"op": "send", "c": "a", "msgs": [{"raw": (Pm(b"", sql) + Bm() + Em() + Sm).hex()}]}, {"op": "recv", "c": "a", "until": "G", "timeout_ms": 3000},
             {"op": "send", "c": "a", "msgs": [{"raw": (dm(b"1\tx\n") + cm + Sm).hex()}]}, {"op": "half_close", "c": "a"},
             {"op": "recv", "c": "a", "until": "", "count": 0, "timeout_ms": 1200, "label": "hostile"}, {"op": "close", "c": "a"}]
    r = W.run_scenario(wire, {"backends": [{"name": "b0"}], "toml": make_toml(v), "hex": False, "steps": steps + canary(800)}, timeout=60)
    c2 = dict(kind="post", variant="plain", state="idle", cat="known", label="extended_copy_copydone", hostile=b"", probe=False, id=-2)
    probs = monitors(r, c2)
    hung = bool(probs) and "harness_error" not in r and len(r.get("task_results", [])) < 2
    # the model's prediction for exactly this stream: Blocked
    val = vlib.coq_eval("c11_f21c", PREAMBLE, ["observe %s (Idle c0) %s [ZG]" % (coq_opts(c2, True, [], []), vlib.coq_bytes(Pm(b"", sql) + Bm() + Em() + Sm + dm(b"1\tx\n") + cm + Sm))])[0]
    kl, sc, zs, nerr = vlib.parse_coq(val)
    out["F21c"] = {"reproduced": hung, "monitors": probs[:2], "model": kl}
    if hung:
        if "F21c-extended-copy-needs-sync" in known:
            run.known_finding("extended-protocol COPY FROM STDIN (Parse/Bind/Execute/Sync), then CopyDone: the backend answers CommandComplete without ReadyForQuery (it skipped the Sync while in COPY), the 'c' arm waits for ReadyForQuery forever, the server connection is never returned (canary: could not get connection)",
                              key="F21c-extended-copy-needs-sync")
        else:
            run.violation("counterexample", "extended-protocol COPY: after CopyDone the sender's task waits on its server forever; %s" % probs[0],
                          {"input": {"steps": steps}, "monitors": probs})
    elif probs:
        run.violation("counterexample", "extended-protocol COPY scenario: %s" % probs[0], {"input": {"steps": steps}, "monitors": probs})
    if (kl == "KBlocked") != hung:
        run.violation("tie-broken", "extended-protocol COPY then CopyDone: model says %s, implementation %s" % (kl, "hangs" if hung else "does not hang"),
                      {"correspondence": "Decode.txn_msg 'c' arm (ext) vs client.rs 'c'|'f' arm", "model": val, "hung": hung}, found_input=hung)
    # F27 (thorough only): write/write deadlock on a large pipelined batch
    if not quick:
        raw = Pm(b"", b"SELECT 1 /*mock: rows=1, size=8000*/") + (Bm() + Em()) * 300000 + Sm
        steps = [{"op": "connect", "c": "a", "params": {"user": "u", "database": "db"}, "password": "pw"},
                 {"op": "spawn", "task": "flood", "steps": [{"op": "send", "c": "a", "msgs": [{"raw": raw.hex()}]}]}, {"op": "join", "task": "flood", "timeout_ms": 30000},
                 {"op": "sleep", "ms": 1500}, {"op": "close", "c": "a"}, {"op": "sleep", "ms": 500}]
        r = W.run_scenario(wire, {"backends": [{"name": "b0"}], "toml": make_toml(v), "hex": False, "steps": steps + canary(800)}, timeout=180)
        probs = monitors(r, c2)
        hung = bool(probs) and "harness_error" not in r and len(r.get("task_results", [])) < 2
        out["F27"] = {"reproduced": hung, "monitors": probs[:2], "request_bytes": len(raw)}
        if hung:
            if "F27-pipeline-write-deadlock" in known:
                run.known_finding("one Parse + 300000 x (Bind, Execute) + Sync (6.9 MB, 8 KB of reply per Execute): pgcat writes the whole batch before reading, the backend blocks writing replies: both sides wait forever, the connection is never returned",
                                  key="F27-pipeline-write-deadlock")
            else:
                run.violation("counterexample", "large pipelined batch deadlocks the sender's task on its server: %s" % probs[0], {"input": {"batch": "P + 300000 x (B,E) + S", "bytes": len(raw)}, "monitors": probs})
        elif probs:
            run.violation("counterexample", "large pipelined batch: %s" % probs[0], {"input": {"batch": "P + 300000 x (B,E) + S"}, "monitors": probs})
    # regression inputs of the two repaired hangs go through the ordinary generator (copydone_outside_copy, copydata_then_sync at state copy)
    run.cov["known_classes"] = out


def private_copy(path, tag):
    """other checks rebuild the shared harness binary while this one runs (the tree under /repo and harness/src moves):
    run every scenario of one check from one snapshot of the binary"""
    import shutil
    d = os.path.join(vlib.TMP, "c11_bin")
    os.makedirs(d, exist_ok=True)
    with vlib.Lock("cargo"):
        dst = os.path.join(d, "wire_%s_%d" % (tag, os.getpid()))
        shutil.copy2(path, dst)
    return dst


NEST_DEPTHS = (40, 60, 100, 200, 400, 1000)


def nest_shapes(n):
    return {"parens": b"SELECT " + b"(" * n + b"1" + b")" * n,
            "subquery": b"SELECT " + b"(SELECT " * n + b"1" + b")" * n,
            "case": b"SELECT " + b"CASE WHEN 1=1 THEN " * n + b"1" + b" ELSE 0 END" * n,
            "func": b"SELECT " + b"abs(" * n + b"1" + b")" * n,
            "not": b"SELECT " + b"NOT " * n + b"true",
            "minus": b"SELECT " + b"- " * n + b"1"}


def nesting_cases():
    """moderately nested SQL in ONE well-framed Query / Parse with the query parser on (pool setting, or switched on by the
    client with SET SERVER ROLE TO 'auto'): sqlparser's recursion limit must turn these into a parse error, not into a
    stack overflow of the worker thread"""
    out = []
    for n in NEST_DEPTHS:
        for sh, sql in nest_shapes(n).items():
            for msg in ("Q", "P"):
                for mode in ("pool", "role"):
                    hb = Qm(sql) if msg == "Q" else Pm(b"", sql) + Bm() + Em() + Sm
                    if mode == "role":
                        hb = Qm(b"SET SERVER ROLE TO 'auto'") + hb
                    out.append(dict(kind="post", variant="parser" if mode == "pool" else "plain", state="idle", cat="nesting",
                                    label="nest_%s_%d_%s_%s" % (sh, n, msg, mode), hostile=hb, probe=False, id=-10))
    return out


def nesting_probes(run, wire):
    """monitor-only (a process death is outside the model): the process survives, the sender is answered, the canary is served"""
    cases = nesting_cases()

    def unanswered(r, c):
        if "events" not in r:
            return []
        o = observe(r, c)
        return (["the sender got no reply terminator (task: %s)" % o["task_raw"]] if not o["zs"] else []) + (["the sender's task panicked"] if o["task"] == "panic" else [])
    res = run_confirmed(wire, [scenario(c) for c in cases], cases, unanswered)
    survived, answered, failures = 0, 0, []
    for c, r in zip(cases, res):
        if "harness_fault" in r:
            failures.append((c, monitors(r, c)))
            continue
        if "harness_error" in r or "start_error" in r:
            failures.append((c, ["the pooler process died or hung: %s" % str(r.get("harness_error", r.get("start_error")))[:300]]))
            continue
        survived += 1
        probs = monitors(r, c)
        o = observe(r, c)
        if not o["zs"]:
            probs = probs + ["the sender got no reply terminator (task: %s)" % o["task_raw"]]
        else:
            answered += 1
        if o["task"] == "panic":
            probs = probs + ["the sender's task panicked"]
        if probs:
            failures.append((c, probs))
    for c, probs in failures[:6]:
        viol(run, probs, "one %s message with SQL nested %s (query parser on): %s" % ("Query" if "_Q_" in c["label"] else "Parse", c["label"], probs[0]),
             {"input": case_replay(c), "monitors": probs, "note": "process liveness is monitor-only: no executable model exhibits a stack overflow"})
    run.cov["nesting_probes"] = {"scenarios": len(cases), "process_survived": survived, "sender_answered": answered, "failures": len(failures),
                                 "depths": list(NEST_DEPTHS), "shapes": sorted(nest_shapes(1)), "messages": ["Q", "P+B+E+S"],
                                 "parser_on_by": ["pool setting", "SET SERVER ROLE TO 'auto'"],
                                 "note": "monitor-only: process alive + canary served + sender answered; the model treats the parse outcome as an oracle (Ok and Err both continue)"}
    return len(cases)


def pool_wait_cases():
    """(Parse known to the server + Parse new + Sync) with the sender half-closing / closing / resetting at every point, also
    while the batch WAITS for the pool: a third client holds the only server in BEGIN during the batch, then commits.
    The statements are the canary's own (text T0, 0 and 2 typed parameters)."""
    known = Pm(b"ha", T0)
    new = Pm(b"hb", T0, TYPES2)
    points = {"after_known": known, "after_new": known + new, "whole_batch": known + new + Sm,
              "whole_batch_bind": known + new + Bm(name=b"hb", params=[b"1", b"x"]) + Em() + Sm}
    out = []
    for vn in ("cache", "all"):
        for pt, bs in points.items():
            for act in ("half_close", "close", "rst"):
                for held in (True, False):
                    out.append(dict(variant=vn, point=pt, action=act, held=held, bytes=bs, label="poolwait_%s_%s_%s_%s" % (vn, pt, act, "held" if held else "free")))
    return out


def pool_wait_scenario(c):
    v = VARIANTS[c["variant"]]
    A, H = "a", "h"
    steps = [{"op": "connect", "c": A, "params": {"user": "u", "database": "db"}, "password": "pw", "timeout_ms": 4000},
             # the server learns the sender's statement for T0 (0 parameters): "known to the server"
             {"op": "send", "c": A, "msgs": [{"raw": (Pm(b"ha", T0) + Sm).hex()}]}, {"op": "recv", "c": A, "until": "Z", "timeout_ms": 4000}]
    if c["held"]:
        steps += [{"op": "connect", "c": H, "params": {"user": "u", "database": "db"}, "password": "pw", "timeout_ms": 4000},
                  {"op": "send", "c": H, "msgs": [{"t": "Q", "sql": "BEGIN"}]}, {"op": "recv", "c": H, "until": "Z", "timeout_ms": 4000}]
    steps += [{"op": "send", "c": A, "msgs": [{"raw": c["bytes"].hex()}]}, {"op": "sleep", "ms": 40}]
    steps.append({"op": "half_close", "c": A} if c["action"] == "half_close" else {"op": "close", "c": A, "rst": c["action"] == "rst"})
    steps.append({"op": "sleep", "ms": 40})
    if c["held"]:
        steps += [{"op": "send", "c": H, "msgs": [{"t": "Q", "sql": "COMMIT"}]}, {"op": "recv", "c": H, "until": "Z", "timeout_ms": 4000},
                  {"op": "send", "c": H, "msgs": [{"t": "X"}]}, {"op": "recv", "c": H, "until": "", "count": 0, "timeout_ms": 4000, "label": "bye"}]
    if c["action"] == "half_close":
        steps += [{"op": "recv", "c": A, "until": "", "count": 0, "timeout_ms": 5000, "label": "hostile"}, {"op": "close", "c": A}]
    n = 2 if c["held"] else 1
    steps.append({"op": "wait_tasks", "n": n, "timeout_ms": 5000})
    toml = make_toml(v).replace("connect_timeout = 700", "connect_timeout = 5000")
    return {"backends": [{"name": "b0"}], "toml": toml, "hex": False, "workers": 2, "steps": steps + canary(5000, True, n + 1)}


HOSTILE_VALUES = ["x'", "x\\", "x\\'", "x\\\\'", "E'x", "'", "\\", "x'; SET statement_timeout TO 1; --", "x\\'; SET statement_timeout TO 1; --",
                  "x''; SET statement_timeout TO 1; --", "x\\\\'; SET statement_timeout TO 1; --", "E'x\\'; SET statement_timeout TO 1; --", "x\ny", "x$$y", "x\"y"]
TRACKED_KEYS = ["application_name", "client_encoding", "DateStyle", "TimeZone", "standard_conforming_strings"]


def startup_param_cases():
    """hostile STARTUP parameters for every tracked key: quotes, backslashes, backslash-quote, E-prefix look-alikes, attempts
    to smuggle a second statement into the SET the pooler sends to the SHARED server connection; NUL inside a value"""
    out = []
    for k in TRACKED_KEYS + ["datestyle", "TIMEZONE"]:
        for i, val in enumerate(HOSTILE_VALUES):
            out.append(dict(kind="post", variant="cache" if (i % 4 == 0) else "plain", state="idle", cat="startup_param", label="param_%s_%d" % (k, i),
                            hostile=Qm(b"SELECT 'hostile-session'"), probe=False, id=-20, startup_params={k: val}))
    for i, val in enumerate(HOSTILE_VALUES):      # with standard_conforming_strings switched off first: backslashes become escapes on the server
        out.append(dict(kind="post", variant="plain", state="idle", cat="startup_param", label="param_scs_off_app_%d" % i,
                        hostile=Qm(b"SELECT 'hostile-session'"), probe=False, id=-20, startup_params={"standard_conforming_strings": "off", "application_name": val}))
    # a NUL cannot be inside a value: the bytes behind it are read as further names / values
    raw = startup([(b"user", b"u"), (b"database", b"db"), (b"application_name", b"x\0'; SET statement_timeout TO 1; --")])
    out.append(dict(kind="post", variant="plain", state="idle", cat="startup_param", label="param_nul_inside", hostile=Qm(b"SELECT 'hostile-session'"), probe=False, id=-20,
                    raw_startup=raw.hex()))
    return out


def foreign_name_cases():
    """hostile use of statement names the sender does not own, statement caching on: the pooler's internal PGCAT_<n>, the names
    the victim uses, the empty name — through Close / Bind / Describe / Parse and through SQL DEALLOCATE / PREPARE."""
    pg = [b"PGCAT_%d" % i for i in range(16)]
    items = {
        "close_S_pgcat_0_15": b"".join(Cm(b"S", n) for n in pg) + Sm,
        "close_S_pgcat_0": Cm(b"S", b"PGCAT_0") + Sm,
        "close_P_pgcat_0_15": b"".join(Cm(b"P", n) for n in pg) + Sm,
        "close_S_victim_names": Cm(b"S", b"c0") + Cm(b"S", b"c2") + Sm,
        "close_S_empty": Cm(b"S", b"") + Sm,
        "bind_pgcat_0": Bm(name=b"PGCAT_0") + Em() + Sm,
        "describe_pgcat_1": Dm(b"S", b"PGCAT_1") + Sm,
        "parse_named_pgcat_0_other_text": Pm(b"PGCAT_0", b"SELECT 'hijack'") + Bm(name=b"PGCAT_0") + Em() + Sm,
        "parse_victim_name_other_text": Pm(b"c0", b"SELECT 'hijack'") + Bm(name=b"c0") + Em() + Cm(b"S", b"c0") + Sm,
        "parse_unnamed_other_text": Pm(b"", b"SELECT 'hijack'") + Bm() + Em() + Sm,
        "parse_same_text_then_close": Pm(b"x0", T0) + Pm(b"x2", T0, TYPES2) + Cm(b"S", b"x0") + Cm(b"S", b"x2") + Sm,
        "sql_deallocate_pgcat_0": Qm(b"DEALLOCATE PGCAT_0"),
        "sql_deallocate_quoted": Qm(b'DEALLOCATE "PGCAT_1"'),
        "sql_deallocate_lower": Qm(b"deallocate pgcat_0"),
        "sql_deallocate_all": Qm(b"DEALLOCATE ALL"),
        "sql_discard_all": Qm(b"DISCARD ALL"),
        "sql_prepare_pgcat_next": Qm(b"PREPARE PGCAT_2 AS SELECT 1") + Qm(b"PREPARE PGCAT_3 AS SELECT 1") + Qm(b"PREPARE PGCAT_4 AS SELECT 1"),
        "sql_deallocate_in_txn": Qm(b"BEGIN") + Qm(b"DEALLOCATE PGCAT_0") + Qm(b"COMMIT"),
    }
    out = []
    for vn in ("cache", "all"):
        for lab, hb in items.items():
            for stay in (True, False):
                out.append(dict(variant=vn, label="foreign_%s_%s_%s" % (lab, vn, "victim_stays" if stay else "victim_left"), bytes=hb, stay=stay,
                                no_retry=lab.startswith("sql_")))
    return out


def foreign_name_scenario(c):
    v = VARIANTS[c["variant"]]
    rounds = canary_ext_rounds()
    V, A = "v", "a"
    steps = [{"op": "connect", "c": V, "params": {"user": "u", "database": "db"}, "password": "pw", "timeout_ms": 4000}]
    for i in (0, 1):     # the victim prepares its two statements: the server now holds PGCAT_0 and PGCAT_1
        steps += [{"op": "send", "c": V, "msgs": [{"raw": rounds[i].hex()}]}, {"op": "recv", "c": V, "until": "Z", "timeout_ms": 4000, "label": "vprep%d" % (i + 1)}]
    if not c["stay"]:
        steps += [{"op": "send", "c": V, "msgs": [{"t": "X"}]}, {"op": "recv", "c": V, "until": "", "count": 0, "timeout_ms": 4000, "label": "bye"}, {"op": "wait_tasks", "n": 1, "timeout_ms": 4000}]
    steps += [{"op": "connect", "c": A, "params": {"user": "u", "database": "db"}, "password": "pw", "timeout_ms": 4000},
              {"op": "send", "c": A, "msgs": [{"raw": c["bytes"].hex()}]}, {"op": "half_close", "c": A},
              {"op": "recv", "c": A, "until": "", "count": 0, "timeout_ms": 5000, "label": "hostile"}, {"op": "close", "c": A},
              {"op": "wait_tasks", "n": 1 if c["stay"] else 2, "timeout_ms": 5000}]
    n = 2
    if c["stay"]:        # the victim goes on using its statements: Bind / Execute again
        steps += [{"op": "send", "c": V, "msgs": [{"raw": rounds[2].hex()}]}, {"op": "recv", "c": V, "until": "Z", "timeout_ms": 4000, "label": "vagain"},
                  {"op": "send", "c": V, "msgs": [{"t": "X"}]}, {"op": "recv", "c": V, "until": "", "count": 0, "timeout_ms": 4000, "label": "bye"}]
    return {"backends": [{"name": "b0"}], "toml": make_toml(v), "hex": False, "workers": 2, "steps": steps + canary(5000, True, n + 1)}


def foreign_name_monitor(r, c):
    """the victim's later Bind / Execute is answered as on a fresh pool; the pooler's statements the backend session held before
    the hostile stream are still there when the next client's traffic arrives (minimal abstraction of the backend's statement
    set: another client's Close / DEALLOCATE does not change it)"""
    bad = []
    if "events" not in r:
        return bad
    ev = r["events"]
    if c["stay"] and BASELINE.get("ext"):
        got = [[canon_frame(f) for f in e["frames"]] for e in ev if e.get("who") == "v" and e.get("label") == "vagain"]
        if got != [BASELINE["ext"][2]]:
            bad.append("the victim's Bind/Execute of its own prepared statements is not answered as on a fresh pool: %s" % json.dumps(got)[:400])
    hostile_seq = [e["seq"] for e in ev if e.get("who") == "a" and e.get("ev") == "sent"]
    if hostile_seq:
        before = [e for e in ev if e.get("ev") == "msg" and e["seq"] < hostile_seq[0]]
        after = [e for e in ev if e.get("ev") == "msg" and e["seq"] > hostile_seq[0]]
        conn = before[-1]["conn"] if before else None
        held = {x[0] for x in (before[-1]["state"].get("stmts", []) if before else []) if str(x[0]).startswith("PGCAT_")}
        # the last message the backend session of that connection saw tells what it still holds
        last_same = [e for e in after if e["conn"] == conn]
        if last_same and held:
            closes = [e for e in last_same if e["tag"] == "C" and e["detail"].get("kind") == "S" and str(e["detail"].get("name", "")).startswith("PGCAT_")]
            if closes:
                bad.append("the backend received Close of the pooler's own statement(s) %s" % sorted({e["detail"]["name"] for e in closes})[:6])
    return bad


def cross_client_probes(run, wire):
    """monitor-only families (Decode.v treats these streams as ordinary well-framed messages; what they could hurt is SHARED
    state: the pool's and the servers' statement caches, the server connection's session parameters)"""
    out = {}
    pw = pool_wait_cases()
    res = run_confirmed(wire, [pool_wait_scenario(c) for c in pw], pw)
    fails = []
    for c, r in zip(pw, res):
        probs = monitors(r, c)
        if probs:
            fails.append((c, probs))
    for c, probs in fails[:4]:
        viol(run, probs, "sender %s at %s of (Parse known + Parse new + Sync)%s, config %s: %s" % (c["action"], c["point"], " while the batch waits for the pool" if c["held"] else "", c["variant"], probs[0]),
                      {"input": {"family": "pool_wait", "variant": c["variant"], "point": c["point"], "action": c["action"], "held": c["held"], "bytes_hex": c["bytes"].hex()}, "monitors": probs})
    out["pool_wait"] = {"scenarios": len(pw), "failures": len(fails)}
    fn = foreign_name_cases()
    res = run_confirmed(wire, [foreign_name_scenario(c) for c in fn], fn, foreign_name_monitor)
    fails, sqlfails = [], []
    for c, r in zip(fn, res):
        probs = monitors(r, c) + foreign_name_monitor(r, c)
        if probs and "_sql_" in c["label"]:
            sqlfails.append((c, probs))
        elif probs:
            fails.append((c, probs))
    if sqlfails:
        # SQL-level DEALLOCATE / PREPARE of the pooler's names is a well-formed Query that the server executes: reported to the
        # coordinator (F38 candidate); KNOWN-FINDING if recorded as known, VIOLATION if recorded as fixed, evidence-only until classified
        ent = {e.get("id"): e for e in vlib.known_findings("C11")}.get("F38-sql-deallocate-of-pooler-statement")
        text = ("a simple Query `DEALLOCATE PGCAT_0` from one client drops the statement the pooler prepared for everybody on that server connection while the "
                "pooler's per-connection list keeps it: other clients' Bind gets 26000 `prepared statement \"PGCAT_0\" does not exist` for as long as the connection lives")
        if ent and ent.get("status") == "known":
            run.known_finding(text, key="F38-sql-deallocate-of-pooler-statement")
        elif ent:
            c0_, p0_ = sqlfails[0]
            viol(run, p0_, "SQL-level DEALLOCATE/PREPARE of the pooler's statement names (%s): %s" % (c0_["label"], p0_[0]),
                 {"input": {"family": "foreign_names", "variant": c0_["variant"], "label": c0_["label"], "bytes_hex": c0_["bytes"].hex()}, "monitors": p0_})
        else:
            run.log("REPORTED, not yet classified: %s (%d scenarios)" % (text, len(sqlfails)))
    for c, probs in fails[:4]:
        viol(run, probs, "hostile use of a statement name the sender does not own (%s): %s" % (c["label"], probs[0]),
             {"input": {"family": "foreign_names", "variant": c["variant"], "label": c["label"], "victim_stays": c["stay"], "bytes_hex": c["bytes"].hex()}, "monitors": probs})
    out["foreign_names"] = {"scenarios": len(fn), "failures": len(fails), "failed": [c["label"] for c, _ in fails][:10],
                            "sql_level_deallocate_reaches_victims": [c["label"] for c, _ in sqlfails][:10]}
    sp = startup_param_cases()
    res = run_confirmed(wire, [scenario(c) for c in sp], sp)
    fails, authed, set_seen = [], 0, 0
    for c, r in zip(sp, res):
        probs = monitors(r, c)
        ev = r.get("events", [])
        if any(e.get("who") == "a" and e.get("ev") == "startup_done" and e.get("auth_ok") for e in ev):
            authed += 1
        if any(e.get("ev") == "msg" and str(e.get("detail", {}).get("sql", "")).upper().startswith("SET ") for e in ev):
            set_seen += 1
        if probs:
            fails.append((c, probs))
    for c, probs in fails[:4]:
        viol(run, probs, "startup parameters %s: %s" % (json.dumps(c.get("startup_params", c.get("raw_startup"))), probs[0]),
             {"input": case_replay(c), "monitors": probs})
    out["startup_params"] = {"scenarios": len(sp), "sender_authenticated": authed, "pooler_sent_SET_to_server": set_seen, "failures": len(fails)}
    out["note"] = ("monitor-only: the model classifies these streams as ordinary well-framed messages (Ok/continue); the checks are the canary's extended round "
                   "answered exactly as on a fresh pool (no 26000 / 42P05, no panic of its task), a clean session and the canary's own tracked parameters at its first statement; "
                   "that a connection is never handed on unclean is the clean_handoff hypothesis (C02), that the SET the pooler sends is one statement is C12's codec")
    run.cov["cross_client_probes"] = out
    return len(pw) + len(sp) + len(fn)


def copy_abort_probe(run, wire):
    """COPY FROM STDIN (simple protocol, outside a transaction) that the BACKEND aborts at the 2nd CopyData (ErrorResponse +
    ReadyForQuery sit unread in the pooler's server socket: it does not read the server while the client streams), then a Query
    instead of CopyDone/CopyFail.  Needs the mock directive copy_abort_at.  Before 016496c (F37) the canary was answered with the
    sender's row; kept as a regression input."""
    big = [b"1\tok\n" + b"x" * 5000, b"bad\trow\n" + b"y" * 5000]
    steps = [{"op": "connect", "c": "a", "params": {"user": "u", "database": "db"}, "password": "pw"},
             {"op": "send", "c": "a", "msgs": [{"t": "Q", "sql": "COPY t FROM STDIN /*mock: copy_abort_at=2*/"}]}, {"op": "recv", "c": "a", "until": "G", "timeout_ms": 3000},
             {"op": "send", "c": "a", "msgs": [{"raw": b"".join(dm(d) for d in big).hex()}]}, {"op": "sleep", "ms": 60},
             {"op": "send", "c": "a", "msgs": [{"raw": Qm(b"SELECT 'late'").hex()}]}, {"op": "recv", "c": "a", "until": "Z", "timeout_ms": 1500, "label": "hostile"},
             {"op": "half_close", "c": "a"}, {"op": "recv", "c": "a", "until": "", "count": 0, "timeout_ms": 3000, "label": "tail"}, {"op": "close", "c": "a"},
             {"op": "wait_tasks", "n": 1, "timeout_ms": 3000}]
    c = dict(variant="plain", label="copy_aborted_by_backend_then_query")
    scn = {"backends": [{"name": "b0"}], "toml": make_toml(VARIANTS["plain"]), "hex": False, "steps": steps + canary(3000, False, 2)}
    r = run_confirmed(wire, [scn], [c])[0]
    probs = monitors(r, c)
    run.cov["copy_abort_probe"] = {"monitors": probs[:2]}
    if probs:
        viol(run, probs, "COPY aborted by the backend at the 2nd CopyData, then Query instead of CopyDone: %s" % probs[0], {"input": {"steps": steps}, "monitors": probs})


def check(run):
    quick = run.tier == "quick"
    rng = run.rng
    run.assumptions += [
        "Coq 8.16.1 kernel + vm_compute; no axioms (Print Assumptions: closed under the global context)",
        "process liveness rests on tokio isolating a panicking task (no panic=abort: checked on every run) and on the absence of stack overflows / aborts, which no executable model exhibits (F25 is such a case, found by test)",
        "memory exhaustion by frames announcing up to 2 GiB (read_message allocates and fills len bytes before the body arrives) is named, not decided; 'huge' is capped at 64 MiB in the harness",
        "hypothesis clean_handoff of c11_sender_only (an unclean connection is never handed on) is C02's theorem/check, not re-established here",
        "PostgreSQL's reactions (ignores CopyData/CopyDone/CopyFail outside COPY and Sync/Flush inside; answers every Query and every Sync) are the mock backend's, not a real server's",
        "sqlparser, regex, custom-command matching and the placeholders infer() finds are environment (oracle fields o_custom / o_ph / o_adminfx of the model, computed by the driver from the same regex literals)",
        "transaction pool mode, MD5 or trust auth, no TLS certificate, no auth_query, no plugins, one shard; SET SERVER ROLE (which switches the parser per connection) is not generated",
    ]
    run.cov["trusted_base"] = ["coqc 8.16.1 kernel", "vm_compute", "harness/src/{bin/wire.rs,mockpg.rs,client.rs,pooler.rs}", "props/c11.py generator/canonicaliser/monitors",
                               "tokio task panic isolation", "Print Assumptions: Closed under the global context (all theorems)"]
    proof_ok, log = vlib.prove(run, COQ_FILES, "Hostile/Props.v")
    run.log("proof ok=%s" % proof_ok)
    probs, site_diffs = t1(run)
    for p in probs:
        run.violation("counterexample", p, {"input": {"file": "Cargo.toml"}, "what_breaks": "any Panic row of the C11 panic-site table now terminates the pooler (e.g. Close with body 'S')"})
    ok, blog, bins = vlib.cargo_build(["wire"])
    if not ok:
        run.violation("tie-broken", "harness does not build against /repo", {"correspondence": "wire harness build", "log": blog[-3000:]}, found_input=False)
        return
    wire = private_copy(bins["wire"], "dbg")
    rx = custom_regexes()
    if rx is None:
        run.violation("tie-broken", "CUSTOM_SQL_REGEXES literal not found in query_router.rs (shape changed)", {"correspondence": "custom command oracle"}, found_input=False)
        return
    berr = compute_baseline(wire)
    if berr:
        run.broken.append(berr)
        return
    stats = {"evaluations": 0, "validated": 0, "monitor_fail": [], "tie_fail": [], "classes": {}, "distinct": set(), "trans": set(), "samples": [], "_seen": set()}
    cases = gen_cases(rng, quick)
    run.log("generated %d streams" % len(cases))
    if proof_ok or True:
        CH = 2000
        for i in range(0, len(cases), CH):
            run_batch(run, wire, cases[i:i + CH], True, rx, stats, "dbg%d" % i)
            run.log("ran %d/%d streams; tie failures %d, monitor failures %d" % (min(i + CH, len(cases)), len(cases), len(stats["tie_fail"]), len(stats["monitor_fail"])))
    rel = None
    if not quick:
        ok2, blog2, bins2 = vlib.cargo_build(["wire"], release=True)
        if ok2:
            rel = private_copy(bins2["wire"], "rel")
            # release: a Parse with a negative count is re-encoded with a wrong length; PostgreSQL answers the garbage behind it
            # with FATAL and closes, the mock would wait for the announced bytes: not compared (named in the evidence)
            sub = [c for c in cases if c["cat"] != "random" and "PT_count_-1" not in c["label"] and "PT_unnamed_count_-1" not in c["label"]]
            run_batch(run, rel, sub, False, rx, stats, "rel")
            run.log("release build: %d streams" % len(sub))
        else:
            run.broken.append("release harness build failed: " + blog2[-500:])
    n_nest = nesting_probes(run, wire)
    stats["evaluations"] += n_nest + cross_client_probes(run, wire)
    special_scenarios(run, wire, quick)
    copy_abort_probe(run, wire)      # regression input of F37 (repaired in 016496c)

    # ---- decide
    for c, probs_, ow in stats["monitor_fail"][:6]:
        viol(run, probs_, "client bytes at state %s (%s, config %s) hurt someone else: %s" % (c["state"], c["label"], c["variant"], probs_[0]),
             {"input": case_replay(c), "monitors": probs_, "model": ow[1] if ow else None, "attacker_observation": ow[0] if ow else None,
              "note": "seen in three runs of this scenario out of three (the first in the parallel batch, two alone)"})
    for c, diffs, (o, val) in stats["tie_fail"][:6]:
        # a disagreement is a witness only if a monitor failed too; otherwise it is a broken tie
        run.violation("tie-broken", "model and implementation disagree at state %s on %s (config %s): %s" % (c["state"], c["label"], c["variant"], diffs[0]),
                      {"correspondence": "Decode.observe vs wire harness", "input": case_replay(c), "model": val, "implementation": {k: o[k] for k in ("zs", "nerr", "closed", "task", "task_raw")}, "diffs": diffs},
                      found_input=False)
    if site_diffs and not run.violations:
        run.violation("tie-broken", "panic-site census changed: " + site_diffs[0], {"correspondence": "source fingerprints the model was written from", "diffs": site_diffs}, found_input=False)
    if not proof_ok and not run.violations and not run.broken:
        run.violation("proof-broken", "Hostile/Props.v no longer checks; no failing input found by the monitors over %d streams" % stats["evaluations"],
                      {"theorem": "Hostile/Props.v", "coq_log": log[-2500:]}, found_input=False)
    run.cov["unreproduced_first_run_failures"] = UNREPRODUCED[:50]
    if UNREPRODUCED:
        run.log("%d first-run failure(s) did not show again when the scenario was repeated alone (machine load; listed in the evidence)" % len(UNREPRODUCED))
    run.cov["evaluations"] = stats["evaluations"]
    run.cov["distinct_nontrivial"] = len(stats["distinct"])
    run.cov["traces_validated_against_impl"] = stats["validated"]
    run.cov["disagreements_checked"] = len(stats["tie_fail"])
    run.cov["transitions_covered"] = len(stats["trans"])
    run.cov["outcome_classes"] = stats["classes"]
    run.cov["samples"] = stats["samples"]
    run.cov["rule"] = ("malformed-stream generator: %d body kinds (P/B/D/C/Q/E: empty, missing terminators, short/negative/oversized counts, bad format codes, bad UTF-8, len=4 for every tag), "
                       "frame damage (len in {-1,-2,MIN,0,1,3}, truncated header/body, length/content mismatch, 1 MiB and 64 MiB announced, unknown tags, noise), valid messages in invalid order; "
                       "applied at states %s + pre-startup / after-SSL-N / awaiting password (user, admin) / admin session; configs %s; with and without a trailing probe Query; TCP cuts. "
                       "distinct = distinct (config, state, input, probe, build) tuples; transitions = distinct (state, category, model outcome)" % (len(malformed_bodies()), sorted(post_states(VARIANTS["shardkey"])), sorted(VARIANTS)))
    dist = {}
    for c in cases:
        dist[c["cat"]] = dist.get(c["cat"], 0) + 1
    run.cov["input_distribution"] = {"by_category": dist, "states": len({c["state"] for c in cases}), "configs": len({c["variant"] for c in cases}), "release_build": rel is not None}
    if not quick and proof_ok:
        vlib.coqchk(run, ["PV.Hostile.Props"])
    for p_ in (wire, rel):
        if p_ and os.path.exists(p_):
            os.remove(p_)


def replay(run, path):
    r = json.load(open(path))
    print(json.dumps(r, indent=1)[:4000])
    inp = r.get("input", {})
    if "hostile_hex" not in inp:
        return 0
    ok, blog, bins = vlib.cargo_build(["wire"], release=not inp.get("chk", True))
    c = dict(inp)
    c["hostile"] = bytes.fromhex(inp["hostile_hex"])
    res = W.run_scenario(bins["wire"], scenario(c), timeout=120)
    probs = monitors(res, c)
    print("monitors:", probs or "all hold")
    if "harness_error" in res:
        return 1
    o = observe(res, c)
    val = vlib.coq_eval("c11_replay", PREAMBLE, [coq_expr(c, o, inp.get("chk", True), custom_regexes())])[0]
    diffs, kl, sc = compare(c, o, val)
    print("implementation:", {k: o[k] for k in ("zs", "nerr", "closed", "task", "task_raw")})
    print("model:", val)
    print("disagreements:", diffs or "none")
    return 1 if (probs or diffs) else 0
