"""C03 — queries and replies are relayed complete, in order and unmodified.

P:  coq/Relay/{Model,Proofs,Witness,Props}.v.  The buffering thresholds, the signature of every
    arm of Server::recv's `match code`, and the loop shapes of the 'c'|'f' arm and of
    send_and_receive_loop are REGENERATED from /repo/src/{server,client}.rs on every run
    (translate/relay_consts.py -> coq/Gen/RelayConsts.v); Props.v is stated over them.
T2: (a) pgcat::messages::read_message on segmented byte streams (harness bin `relayio`) vs
        parse_avail / feed_all evaluated in coqc;
    (b) pgcat in-process between a scripted client and the mock backend (harness bin `wire`):
        scripted reply streams (`/*mock:raw=<hex>*/`), TCP segmentation on both sides, simple /
        extended / pipelined requests, COPY IN/OUT/FAIL.  Model-free monitors: what the backend
        received == what the client sent, what the client received == what the backend sent
        (byte-exact, cumulative prefix at every exchange and equality at the end); the model
        must predict the same bytes per exchange and the same blocked exchanges.
    (c) the same with statement caching ON (prepared_statements_cache_size 1 and 8, props/c03cache.py): identity modulo the
        permitted differences — statement names replaced by PGCAT_<n> with the length word adjusted by exactly the
        name-length difference, Parse/Close answered by the pooler (one synthesised '1'/'3' each), pgcat's own
        out-of-band Close/Parse/Sync exchanges recognised and kept away from the client; harness-side mutants of real
        observations (Sync dropped / duplicated, Bind shortened / altered, extra ParseComplete) must be flagged on every run.
TLS is not covered.
"""
import json, os, struct, subprocess, sys
import vlib
from props import wirelib as W
from props import c03cache as CC

COQ_FILES = ["Relay/Model.v", "Relay/Proofs.v", "Relay/Witness.v", "Relay/Props.v"]
PAD = b"wUf3D"          # bytes whose hex text is a run of one character (keeps Coq literals short)
CLEANUP_SQL = {"ROLLBACK", "DISCARD ALL", "DEALLOCATE ALL", "RESET ALL", "RESET ROLE", "SET SESSION AUTHORIZATION DEFAULT"}
KNOWN_TEXT = {
    "F19-flush-dropped": "Flush ('H') is not forwarded: `Parse, Flush` gets no ParseComplete until a later Sync (input: P H, then S)",
    "F20-lone-sync-answered-locally": "a Sync with nothing buffered is answered by the pooler itself and not forwarded to the server (input: a single S)",
    "F30-query-overtakes-open-batch": "a simple Query written while Parse/Bind/... of an open batch are still buffered is sent to the server ahead of them (input: inside BEGIN, P(s1) Q S arrives at the server as Q P S)",
    "F34-synthesised-replies-ahead-of-server-replies": "statement caching on: the ParseComplete/CloseComplete the pooler synthesises are written ahead of the server's replies of the same batch, not where PostgreSQL sends them (input: Bind(s1) Execute Close(S,s1) Sync is answered 3 2 .. C Z instead of 2 .. C 3 Z)",
    "F21c-extended-copy-needs-sync": "extended-protocol COPY FROM STDIN: after CopyDone pgcat waits for a ReadyForQuery that PostgreSQL sends only after the client's Sync (input: P/B/E(COPY t FROM STDIN)/S, d, c, S)",
}


# --------------------------------------------------------------------------- frames
def enc(f):
    return f[0].encode("latin1") + struct.pack(">i", len(f[1]) + 4) + f[1]


def encs(fs):
    return b"".join(enc(f) for f in fs)


def split_frames(b):
    """bytes -> (frames, leftover)"""
    out, i = [], 0
    while i + 5 <= len(b):
        ln = struct.unpack(">i", b[i + 1:i + 5])[0]
        if ln < 4 or i + 1 + ln > len(b):
            break
        out.append((chr(b[i]), b[i + 5:i + 1 + ln]))
        i += 1 + ln
    return out, b[i:]


def cstr(s):
    return s.encode() + b"\0"


def fT(n=1):
    b = struct.pack(">h", n)
    for i in range(n):
        b += cstr("c%d" % i) + struct.pack(">ihihih", 0, 0, 25, -1, -1, 0)
    return ("T", b)


def fD_total(total, rng):
    """a DataRow whose encoding is exactly `total` bytes (>= 7)"""
    if total < 11:
        return ("D", struct.pack(">h", 0) + b"\0" * (total - 7)) if total == 7 else ("D", struct.pack(">h", 0) + bytes([rng.choice(PAD)]) * (total - 7))
    return ("D", struct.pack(">hi", 1, total - 11) + bytes([rng.choice(PAD)]) * (total - 11))


def fC(tag="SELECT 1"):
    return ("C", cstr(tag))


def fZ(st="I"):
    return ("Z", st.encode())


# field values that are not valid UTF-8 (a LATIN1 backend, cut multi-byte sequences, overlong forms)
NON_UTF8 = [b"\xe9", b"caf\xe9", b"\xff", b"\xc3", b"abc\xe2\x82", b"\xc0\xaf", b"\xe0\x80\xaf", b"\xf0\x9f\x98", b"\x80\x80", b"na\xefve \xfe\xff"]


def fN(rng, nonutf8=None):
    if nonutf8 is None:
        nonutf8 = rng.random() < 0.3
    if nonutf8:
        v = rng.choice(NON_UTF8)
        return ("N", b"SNOTICE\0VNOTICE\0C00000\0M" + v + b"\0D" + v + v + b"\0\0")
    return ("N", b"SNOTICE\0VNOTICE\0C00000\0M" + bytes([rng.choice(PAD)]) * rng.choice([1, 5, 40, 300]) + b"\0\0")


def fS(rng):
    k = rng.choice(["c03_param", "TimeZone", "application_name", "some.custom_guc"])
    return ("S", cstr(k) + cstr(rng.choice(["UTC", "x", "app-" + "w" * rng.randint(0, 30)])))


def fE(rng=None, nonutf8=None):
    if nonutf8 is None:
        nonutf8 = rng is not None and rng.random() < 0.4
    if nonutf8:
        v = rng.choice(NON_UTF8)
        return ("E", b"SERROR\0VERROR\0C22021\0M" + v + b"\0D" + rng.choice(NON_UTF8) + b"\0W" + v + b"\0\0")
    return ("E", b"SERROR\0VERROR\0CXX000\0Mscripted error\0\0")


def fd_total(total, rng):
    return ("d", bytes([rng.choice(PAD)]) * (total - 5))


FG = ("G", b"\0\0\1\0\0")
FH = ("H", b"\0\0\1\0\0")
Fc = ("c", b"")


# --------------------------------------------------------------------------- Coq literals
def coq_bytes_rle(b):
    parts, i, n, lit = [], 0, len(b), []
    while i < n:
        j = i
        while j < n and b[j] == b[i]:
            j += 1
        if j - i >= 12:
            if lit:
                parts.append("[" + "; ".join(map(str, lit)) + "]")
                lit = []
            parts.append("R %d %d" % (b[i], j - i))
        else:
            lit.extend(b[i:j])
        i = j
    if lit or not parts:
        parts.append("[" + "; ".join(map(str, lit)) + "]")
    return "(" + " ++ ".join(parts) + ")"


def coq_frame(f):
    return "(%d, %s)" % (ord(f[0]), coq_bytes_rle(f[1]))


def coq_frames(fs):
    return "[" + "; ".join(coq_frame(f) for f in fs) + "]"


def ck(b):
    """order-sensitive checksum without division (cheap under vm_compute): (sum of bytes, sum of prefix sums)"""
    s1 = s2 = 0
    for x in b:
        s1 += x + 1
        s2 += s1
    return s2 + s1


PREAMBLE = """From Coq Require Import ZArith List Bool. Import ListNotations.
From PV Require Import Gen.RelayConsts Relay.Model Relay.Witness. Open Scope Z_scope.
Definition ck (b : bytes) : Z := let '(s1, s2) := fold_left (fun a x => let s1 := fst a + x + 1 in (s1, snd a + s1)) b (0, 0) in s2 + s1.
Definition R (b n : Z) : bytes := repeat b (Z.to_nat n).
(* glue: the reply to exchange i becomes available when its request was forwarded; what an
   earlier exchange left unread is still in the socket *)
Fixpoint relay_seq (s : bel) (left : list frame) (reps : list (list frame)) : list (Z * list Z * Z * Z) :=
  match reps with
  | [] => []
  | r :: more =>
      match relay_now s (left ++ r) with
      | Done cs s' rest => (0, map blen cs, ck (concat cs), blen (concat cs)) :: relay_seq s' rest more
      | LBlocked cs => [(1, map blen cs, ck (concat cs), blen (concat cs))]
      | LFailed cs => [(2, map blen cs, ck (concat cs), blen (concat cs))]
      | OutOfFuel => [(3, [], 0, 0)]
      end
  end.
Fixpoint crun_m (st : cst) (ms : list (bool * frame)) : option (cst * list act) :=
  match ms with
  | [] => Some (st, [])
  | (m, f) :: r => match cstep client_copy_flush copy_done_loops m st f with
                   | None => None
                   | Some (st', a) => match crun_m st' r with None => None | Some (st'', b) => Some (st'', a ++ b) end
                   end
  end.
Definition actcode (a : act) : Z := match a with SendSrv b => blen b | RelayLoop => -1 | RecvOnce => -2 | SynthReady => -3 | Dropped _ => -4 | DroppedBuf _ => -5 end.
Definition cobs (r : option (cst * list act)) := match r with Some (st, acts) => (1, map actcode acts, ck (sent acts), blen (sent acts), Z.of_nat (length (ext st)), blen (cbuf st)) | None => (0, [], 0, 0, 0, 0) end.
Definition pobs (r : list frame * bytes) := (map (fun f => (fst f, blen (snd f), ck (snd f))) (fst r), (blen (snd r), ck (snd r)), bad_header (snd r)).
"""


# --------------------------------------------------------------------------- translator
def translate(run):
    os.makedirs(os.path.join(vlib.COQ, "Gen"), exist_ok=True)
    out = os.path.join(vlib.COQ, "Gen", "RelayConsts.v")
    tmp = out + ".new"
    rc, log = vlib.sh([sys.executable, os.path.join(vlib.ROOT, "translate", "relay_consts.py"),
                       os.path.join(vlib.REPO, "src", "server.rs"), os.path.join(vlib.REPO, "src", "client.rs"), tmp], timeout=60)
    if rc != 0:
        return False, log.strip()
    new = open(tmp).read()
    if not os.path.exists(out) or open(out).read() != new:
        os.replace(tmp, out)
    else:
        os.remove(tmp)
    return True, ""


def gen_consts():
    src = open(os.path.join(vlib.COQ, "Gen", "RelayConsts.v")).read()
    import re
    g = lambda name: int(re.search(r"Definition %s : Z := (\d+)\." % name, src).group(1))
    return g("recv_thr_D"), g("recv_thr_d"), g("client_copy_thr")


# --------------------------------------------------------------------------- (a) framing tie
def run_relayio(binp, cases):
    p = subprocess.run([binp], input=("\n".join(json.dumps(c) for c in cases) + "\n").encode(), stdout=subprocess.PIPE, stderr=subprocess.PIPE, timeout=300)
    return [json.loads(l) for l in p.stdout.decode().splitlines() if l.strip()]


def framing_cases(rng, n):
    cases = []

    def rand_frame(maxb):
        t = rng.choice("ZECSDGHdc12tTnsINAKRV") if rng.random() < 0.8 else chr(rng.randint(0, 255))
        ln = rng.choice([0, 0, 1, 2, 3, 5, 17, 100, rng.randint(0, maxb)])
        return (t, bytes(rng.getrandbits(8) for _ in range(min(ln, 24))) + bytes([rng.choice(PAD)]) * max(0, ln - 24))

    for i in range(n):
        fs = [rand_frame(600) for _ in range(rng.randint(0, 6))]
        b = encs(fs)
        kind = rng.random()
        if kind < 0.35:
            tail = b""
        elif kind < 0.6:      # incomplete last frame: cut anywhere, also inside the header
            extra = enc(rand_frame(80))
            tail = extra[:rng.randint(1, len(extra) - 1)]
        else:                 # refused length word
            ln = rng.choice([0, 1, 2, 3, -1, -2, -5, -2**31, -2**31 + 1, -1000000])
            tail = bytes([rng.randint(0, 255)]) + struct.pack(">i", ln) + bytes(rng.getrandbits(8) for _ in range(rng.randint(0, 6)))
        data = b + tail
        cuts = set()
        off = 0
        for f in fs:
            if rng.random() < 0.5:
                cuts.add(off + rng.randint(1, 4))      # inside the 5-byte header
            if rng.random() < 0.3:
                cuts.add(off + 5)
            off += 5 + len(f[1])
            if rng.random() < 0.3:
                cuts.add(off)
        for _ in range(rng.randint(0, 4)):
            if data:
                cuts.add(rng.randint(0, len(data)))
        cases.append({"hex": data.hex(), "cuts": sorted(cuts), "_data": data})
    # fixed boundary cases
    for data in [b"", b"Z", b"Z\0\0\0", b"Z\0\0\0\4", b"Z\0\0\0\5", b"Z\0\0\0\5I", b"Z\0\0\0\3I", b"Z\xff\xff\xff\xffI", b"Z\x80\0\0\0I",
                 b"Z\0\0\0\4" * 3, b"D\0\0\x20\x04" + b"w" * 8192 + b"Z\0\0\0\5I"]:
        cases.append({"hex": data.hex(), "cuts": [1, 2, 3, 4, 5, 6], "_data": data})
    return cases


def check_framing(run, relayio, quick, samples, distinct):
    rng = run.rng
    cases = framing_cases(rng, 160 if quick else 4000)
    real = run_relayio(relayio, [{"hex": c["hex"], "cuts": c["cuts"]} for c in cases])
    exprs = []
    for c in cases:
        d = c["_data"]
        cuts = [x for x in c["cuts"] if 0 < x < len(d)]
        segs = [d[a:b] for a, b in zip([0] + cuts, cuts + [len(d)])]
        exprs.append("(pobs (parse_avail %s), pobs (feed_all [%s]))" % (coq_bytes_rle(d), "; ".join(coq_bytes_rle(s) for s in segs)))
    # vlib.coq_eval reads a shard's output only after coqc exited: keep every shard's output far below the 64 KiB pipe buffer
    vals = vlib.coq_eval("c03a", PREAMBLE, exprs, shard=40)
    n = 0
    for c, r, v in zip(cases, real, vals):
        n += 1
        d = c["_data"]
        mf, mp, mbad, (sf, sp, sbad) = vlib.parse_coq(v)    # Coq prints ((a, b, c), d) as (a, b, c, d)
        rf = []
        for h in r["frames"]:
            fb = bytes.fromhex(h)
            rf.append((fb[0], len(fb) - 5, ck(fb[5:])))
        model_end = "eof" if mp[0] == 0 else ("refused" if mbad else "eof_in_frame")
        real_end = {"bad_length": "refused", "panic": "refused"}.get(r["end"], r["end"])
        pyf, pyrest = split_frames(d)
        distinct.add(("framing", tuple((f[0], f[1]) for f in mf), model_end, tuple(c["cuts"])))
        run.cov["traces_validated_against_impl"] += 1
        why = None
        if [tuple(x) for x in mf] != rf or model_end != real_end:
            why = "read_message and parse_avail disagree"
        elif (mf, mp, mbad) != (sf, sp, sbad):
            why = "segment-wise reader (feed_all) differs from parse_avail on the concatenation"
        elif ([tuple(x) for x in mf] != [(ord(t), len(b), ck(b)) for t, b in pyf] or tuple(mp) != (len(pyrest), ck(pyrest))) and model_end != "refused":
            why = "python framing oracle differs from the model"
        if why:
            # model-free monitor: does read_message itself mis-frame?  (python oracle on the same bytes)
            impl_wrong = rf != [(ord(t), len(b), ck(b)) for t, b in pyf][:len(rf)] or (real_end == "eof" and pyrest)
            run.violation("counterexample" if impl_wrong else "tie-broken", "%s on stream %s cuts %s: impl frames=%s end=%s, model frames=%s end=%s" % (why, c["hex"][:80], c["cuts"], rf[:6], r["end"], mf[:6], model_end),
                          {"correspondence": "Relay/Model.v parse_avail vs pgcat::messages::read_message", "input": {"kind": "framing", "hex": c["hex"], "cuts": c["cuts"]},
                           "impl": r, "model": v[:400]}, found_input=impl_wrong)
            return n
    samples.append({"kind": "framing", "hex": cases[3]["hex"][:120], "cuts": cases[3]["cuts"], "impl_end": real[3]["end"], "model": vals[3][:160]})
    return n


# --------------------------------------------------------------------------- (b) wire scenarios
class Gen:
    def __init__(self, rng, thrD, thrd, thrc):
        self.rng, self.thrD, self.thrd, self.thrc = rng, thrD, thrd, thrc

    def rows_to(self, total, first_overhead):
        """DataRows whose encodings add up to exactly total - first_overhead (each >= 7 bytes)"""
        rng, left, out = self.rng, total - first_overhead, []
        while left > 0:
            if left < 14 or rng.random() < 0.35:
                sz = left
            else:
                sz = rng.choice([7, 11, 12, 40, 200, 1000, 4000, left // 2, left - 7])
                sz = max(7, min(sz, left - 7))
            out.append(fD_total(sz, rng))
            left -= sz
        return out

    def boundary_rows(self):
        """rows placed so that the buffer length at a DataRow is thr-1 / thr / thr+1, several times"""
        rng, thr = self.rng, self.thrD
        fs = [fT(rng.randint(0, 3))]
        over = len(enc(fs[0]))
        for k in range(rng.choice([1, 1, 2, 3])):
            target = thr + rng.choice([-1, 0, 1, -1, 0, 1, 2, 7, -2])
            fs += self.rows_to(target, over)
            over = 0
            if target < thr:
                # the buffer was not returned: what follows is appended to it
                over = target
                if rng.random() < 0.5:
                    fs.append(fD_total(rng.choice([7, 8, 11, 30]), rng))
                    over = 0 if target + len(enc(fs[-1])) >= thr else target + len(enc(fs[-1]))
        for _ in range(rng.choice([0, 0, 1, 3])):
            fs.append(fD_total(rng.choice([7, 11, 50, 500]), rng))
        fs.append(fC("SELECT %d" % (len(fs) - 1)))
        return fs

    def small(self):
        rng = self.rng
        n = rng.choice([0, 0, 1, 2, 5])
        return [fT(rng.randint(0, 2))] + [fD_total(rng.choice([7, 11, 12, 60]), rng) for _ in range(n)] + [fC("SELECT %d" % n)]

    def big_row(self):
        rng = self.rng
        return [fT(1), fD_total(rng.choice([self.thrD + 1, 2 * self.thrD, 20000, 70000]), rng), fC("SELECT 1")]

    def copy_out(self):
        rng, thr = self.rng, self.thrd
        fs = [FH]
        over = 0
        for k in range(rng.choice([1, 2, 3])):
            target = thr + rng.choice([-1, 0, 1, 5])
            left = target - over
            while left > 0:
                sz = left if (left < 12 or rng.random() < 0.4) else max(5, min(rng.choice([5, 6, 100, 3000, left // 2]), left - 5))
                fs.append(fd_total(sz, rng))
                left -= sz
            over = target if target < thr else 0
        for _ in range(rng.choice([0, 1, 2])):
            fs.append(fd_total(rng.choice([5, 6, 80]), rng))
        fs += [Fc, fC("COPY %d" % (len(fs) - 1))]
        return fs

    def sprinkle(self, fs):
        """NoticeResponse / ParameterStatus anywhere in the stream"""
        rng, out = self.rng, []
        for f in fs:
            while rng.random() < 0.12:
                out.append(fN(rng) if rng.random() < 0.5 else fS(rng))
            out.append(f)
        return out

    def reply(self):
        """one complete reply to a simple Query, ending with ReadyForQuery"""
        rng = self.rng
        k = rng.random()
        if k < 0.40:
            fs = self.boundary_rows()
        elif k < 0.55:
            fs = self.small()
        elif k < 0.62:
            fs = self.big_row()
        elif k < 0.74:
            fs = self.copy_out()
        elif k < 0.80:
            fs = [("I", b"")]                                        # empty query
        elif k < 0.92:                                              # multi-statement
            fs = []
            for _ in range(rng.randint(2, 4)):
                fs += rng.choice([self.small, self.small, self.boundary_rows, self.copy_out, lambda: [fC("INSERT 0 1")], lambda: [("I", b"")]])()
        else:                                                       # error in mid-stream
            fs = self.small()[:-1] + self.rows_to(rng.choice([30, self.thrD - 40, self.thrD + 3]), 0)
            fs = fs[:rng.randint(1, len(fs))] + [fE(rng)]
        if rng.random() < 0.5:
            fs = self.sprinkle(fs)
        st = "E" if fs and fs[-1][0] == "E" and rng.random() < 0.3 else rng.choice(["I", "I", "I", "T"])
        return fs + [fZ(st)]

    def cuts(self, fs, maxcuts=7):
        """segmentation offsets: inside frame headers, at frame boundaries +-1, random"""
        rng, cand, off = self.rng, [], 0
        for f in fs:
            cand += [off + 1, off + 2, off + 3, off + 4, off + 5]
            off += 5 + len(f[1])
            cand += [off - 1, off]
        total = off
        pick = set()
        for _ in range(rng.randint(0, maxcuts)):
            pick.add(rng.choice(cand) if rng.random() < 0.75 else rng.randint(1, max(1, total - 1)))
        return sorted(x for x in pick if 0 < x < total)


def q_raw(g, reply, extra="", tail=b""):
    """a simple Query whose scripted answer is `reply` (+ unsolicited `tail` frames after it)"""
    data = encs(reply) + tail
    segs = g.cuts(reply) if g.rng.random() < 0.6 else []
    d = "raw=%s" % data.hex()
    if segs:
        d += ", segs=%s" % ":".join(map(str, segs))
    return {"t": "Q", "sql": "/*mock: %s%s*/ SELECT 1" % (d, extra)}


def client_cuts(g, msgs_bytes):
    fs, _ = split_frames(msgs_bytes)
    return g.cuts(fs, 5) if g.rng.random() < 0.5 else []


ORDER_ID = "F34-synthesised-replies-ahead-of-server-replies"
PENDING_ID = "F30-query-overtakes-open-batch"      # run only once known_findings.jsonl has a decision (known | fixed)


def make_scenarios(run, g, quick, listed=None):
    """-> list of (meta, steps).  meta: kind, exchanges [{send: [...msgs], mode: copy?, until, count, expect}], known"""
    rng = run.rng
    scns = []

    def exch(msgs, until="Z", count=1, copy=False, expect="ok", timeout=4000):
        return {"msgs": msgs, "until": until, "count": count, "copy": copy, "expect": expect, "timeout": timeout}

    def add(kind, exchanges, known=None):
        scns.append({"kind": kind, "ex": exchanges, "known": known})

    n_simple = 45 if quick else 1500
    for i in range(n_simple):                                      # simple protocol, 3-5 scripted replies each
        ex = []
        nex = rng.randint(3, 5)
        for k in range(nex):
            tail = b""
            if rng.random() < 0.12 and k + 1 < nex:                # unsolicited frames after ReadyForQuery (delivered with the next reply)
                tail = encs([fN(rng) if rng.random() < 0.6 else fS(rng) for _ in range(rng.randint(1, 2))])
            ex.append(exch([q_raw(g, g.reply(), tail=tail)]))
        add("simple", ex)
    n_ext = 25 if quick else 900
    for i in range(n_ext):                                         # extended protocol, also pipelined
        ex = []
        for _ in range(rng.randint(2, 3)):
            nb = rng.choice([1, 1, 2, 3])                          # batches pipelined in one write
            msgs = []
            for b in range(nb):
                body = g.reply()[:-1]                              # the mock sends Z at Sync
                if rng.random() < 0.25:                            # portal suspension
                    body = [f for f in body if f[0] in "DNS"] + [("s", b"")]
                segs = g.cuts(body) if rng.random() < 0.5 else []
                d = "raw=%s" % encs(body).hex() + (", segs=%s" % ":".join(map(str, segs)) if segs else "")
                msgs.append({"t": "P", "name": "", "sql": "/*mock: %s*/ SELECT 1" % d})
                if rng.random() < 0.4:
                    msgs.append({"t": "D", "kind": "S", "name": ""})
                msgs.append({"t": "B", "portal": "", "name": "", "params": []})
                if rng.random() < 0.4:
                    msgs.append({"t": "D", "kind": "P", "name": ""})
                msgs.append({"t": "E", "portal": "", "max": rng.choice([0, 0, 10])})
                if rng.random() < 0.3:
                    msgs.append({"t": "C", "kind": rng.choice(["S", "P"]), "name": ""})
                msgs.append({"t": "S"})
            ex.append(exch(msgs, count=nb))
        add("extended", ex)
    n_copy = 25 if quick else 900
    for i in range(n_copy):                                        # COPY IN (CopyDone / CopyFail), chunk sizes around the client threshold
        ex = []
        pre = []
        if rng.random() < 0.4:                                     # statements before the COPY in the same Query (F9 regression shape)
            for _ in range(rng.randint(1, 2)):
                pre += g.small() if rng.random() < 0.7 else g.boundary_rows()
        fail = rng.random() < 0.3
        post = []
        if rng.random() < 0.45:                                    # statements after the COPY in the same Query (F21a/b regression shapes)
            post = rng.choice([g.small, g.boundary_rows, g.copy_out, g.big_row])()
        creply = ([fE(rng)] if fail else [fC("COPY 1")] + post) + [fZ(rng.choice("IIT") if not fail else "I")]
        extra = ", copy_in, copy_reply_raw=%s" % encs(creply).hex()
        ex.append(exch([q_raw(g, pre + [FG], extra=extra)], until="G"))
        thr = g.thrc
        data = []
        over = 0
        for k in range(rng.choice([0, 1, 2, 3])):
            target = thr + rng.choice([-1, 0, 1, 2, 9])
            left = target - over
            while left > 0:
                sz = left if (left < 12 or rng.random() < 0.4) else max(5, min(rng.choice([5, 7, 300, 5000, left // 2]), left - 5))
                data.append({"t": "d", "data": chr(rng.choice(PAD)) * (sz - 5)})
                left -= sz
            over = target if target <= thr else 0
        for _ in range(rng.choice([0, 1, 3])):
            data.append({"t": "d", "data": chr(rng.choice(PAD)) * rng.choice([0, 1, 30])})
        if rng.random() < 0.5 and data:                            # CopyData in one write, the end in another
            cutat = rng.randint(1, len(data))
            ex.append(exch(data[:cutat], copy=True, until="", count=0, expect="silent", timeout=60))
            data = data[cutat:]
        data.append({"t": "f", "msg": "client gives up"} if fail else {"t": "c"})
        ex.append(exch(data, copy=True))
        ex.append(exch([q_raw(g, g.small() + [fZ("I")])]))
        add("copy_in", ex)
    # natural mock replies (no script): multi-statement, errors, notices, ParameterStatus, COPY both ways
    nat = ["SELECT 1 /*mock: rows=3, size=10*/; SELECT 2 /*mock: rows=0*/", "", ";", "SELECT 1 /*mock: rows=2*/; SELECT 2 /*mock: error*/; SELECT 3",
           "SELECT 1 /*mock: notice, rows=1, ps=TimeZone:UTC*/", "BEGIN; SELECT 1 /*mock: rows=%d, size=%d*/; COMMIT" % (7, 1200),
           "COPY t TO STDOUT /*mock: rows=40, size=400*/", "SELECT 1 /*mock: rows=9, size=%d*/" % (g.thrD // 9), "INSERT INTO t VALUES (1); UPDATE t SET a = 1; DELETE FROM t"]
    for rep in range(2 if quick else 30):
        ex = [exch([{"t": "Q", "sql": s}]) for s in rng.sample(nat, len(nat))]
        ex.insert(rng.randint(0, len(ex)), exch([{"t": "Q", "sql": "COPY t FROM STDIN"}], until="G"))
        j = [i for i, e in enumerate(ex) if e["until"] == "G"][0]
        ex.insert(j + 1, exch([{"t": "d", "data": "1\t2\n"}, {"t": "d", "data": "w" * 9000}, {"t": "c"}], copy=True))
        add("natural", ex)
    # ErrorResponse / NoticeResponse whose field values are not valid UTF-8: as the only reply, at the start, in mid-stream
    # after rows; outside and inside a transaction; then further requests of the same and of another client (pool_size 1)
    for i in range(10 if quick else 300):
        ex = []
        in_txn = rng.random() < 0.4
        if in_txn:
            ex.append(exch([{"t": "Q", "sql": "BEGIN"}]))
        for rep_ in range(rng.randint(1, 2)):
            err = rng.random() < 0.6
            bad = fE(rng, True) if err else fN(rng, True)
            pos = rng.choice(["only", "start", "mid"])
            rows = g.small()[:-1] if rng.random() < 0.6 else g.boundary_rows()[:-1]
            if err:
                fs = [bad] if pos in ("only", "start") else rows + [bad]
                if pos == "start" and rng.random() < 0.5:
                    fs = [fN(rng, True), bad]
            else:
                fs = [bad, fC("DO")] if pos == "only" else ([bad] + rows + [fC("SELECT 1")] if pos == "start" else rows[:1 + len(rows) // 2] + [bad] + rows[1 + len(rows) // 2:] + [fC("SELECT 1")])
            ex.append(exch([q_raw(g, fs + [fZ(("E" if err else "T") if in_txn else "I")])]))
            ex.append(exch([q_raw(g, g.small() + [fZ("T" if in_txn and not err else ("E" if in_txn else "I"))])]))
        if in_txn:
            ex.append(exch([{"t": "Q", "sql": "ROLLBACK"}]))
        other = exch([q_raw(g, g.small() + [fZ("I")])])
        other["c"] = "c2"
        ex.append(other)
        ex.append(exch([q_raw(g, g.small() + [fZ("I")])]))
        add("nonutf8", ex)
    # Worlds in which pgcat's OWN statements on a server connection have non-trivial replies or timing: the health check `;`
    # answered sooner / later than healthcheck_timeout (healthcheck_delay = 0: every checkout checks), the prewarmer's queries
    # on every new connection (replies spanning several recv buffers, with notices, failing), the parameter sync at checkout
    # after another client's ParameterStatus change, the check-in cleanup (RESET ALL after SET, ROLLBACK after a client left
    # inside a transaction), slow.  Their replies must never reach a client; the client-visible exchanges around them are
    # judged by the same rules.  Statement cache off and on (simple queries: no renaming involved).
    for i in range(16 if quick else 240):
        k = rng.choice([0, 0, 8])
        hc_to = 400
        general = {"healthcheck_delay": 0, "healthcheck_timeout": hc_to, "connect_timeout": 3000} if rng.random() < 0.7 else {}
        pw = None
        if rng.random() < 0.6:
            qs = rng.sample(["SELECT 1 /*mock: rows=%d, size=%d*/" % (rng.choice([25, 40, 90]), rng.choice([400, 900])), "SELECT 2 /*mock: notice, rows=2*/",
                             "SELECT 3 /*mock: error*/", "SELECT 4 /*mock: rows=1, size=%d*/" % (thrD_of(g) + rng.choice([-30, 0, 40])), "COPY t TO STDOUT /*mock: rows=30, size=400*/"], rng.randint(1, 3))
            pw = "[plugins.prewarmer]\nenabled = true\nqueries = [%s]\n" % ", ".join(json.dumps(q) for q in qs)
        ex = []

        def plain(c="c"):
            e = exch([q_raw(g, rng.choice([g.small, g.small, g.boundary_rows])() + [fZ("I")])])
            e["c"] = c
            if general:
                # whether a checkout runs the health check depends on the connection having been idle for >= 1 ms, so an armed
                # slow answer may hit a later checkout: any request may be refused by the pooler itself (E Z, nothing relayed)
                e["expect"] = "ok_or_local"
            return e
        ex.append(plain())
        for step in range(rng.randint(3, 6)):
            w = rng.random()
            e = plain(rng.choice(["c", "c", "c2"]))
            if w < 0.35 and general:                              # the next checkout's health check is answered late
                late = rng.random() < 0.6
                e["pre"] = [{"op": "sleep", "ms": 5}, {"op": "backend", "b": "b0", "slow_exact": {"sql": ";", "ms": (hc_to + 500) if late else 60, "count": 1}}]
                ex.append(e)
                if late:
                    ex.append({"sleep": 650})                      # the late `I Z` has been written by now
            elif w < 0.55:                                        # ParameterStatus change seen by one client => SET at the other's checkout
                e2 = exch([q_raw(g, [("S", cstr("TimeZone") + cstr(rng.choice(["UTC", "Europe/Paris"]))), fN(rng)] + g.small() + [fZ("I")])])
                e2["c"] = e["c"]
                ex.append(e2)
                e["c"] = "c2" if e2["c"] == "c" else "c"
                ex.append(e)
            elif w < 0.75:                                        # SET => RESET ALL at check-in, slow
                e2 = exch([{"t": "Q", "sql": "SET work_mem TO '1MB'"}])
                e2["c"] = e["c"]
                if rng.random() < 0.5:
                    e2["pre"] = [{"op": "backend", "b": "b0", "slow_exact": {"sql": "RESET ALL", "ms": rng.choice([30, 150]), "count": 1}}]
                ex.append(e2)
                ex.append(e)
            else:
                ex.append(e)
            ex.append(plain(rng.choice(["c", "c2"])))
        # a client leaves inside a transaction: ROLLBACK at cleanup (slow), then the other client goes on
        if rng.random() < 0.5:
            b = exch([{"t": "Q", "sql": "BEGIN"}])
            b["c"] = "c3"
            ex.append(b)
            nxt = plain("c")
            nxt["pre"] = [{"op": "backend", "b": "b0", "slow_exact": {"sql": "ROLLBACK", "ms": rng.choice([20, 120]), "count": 1}}, {"op": "close", "c": "c3"}]
            ex.append(nxt)
            ex.append(plain("c2"))
        if general:
            for e in ex:
                if "msgs" in e:
                    e["expect"] = "ok_or_local"
        add("ownstmt-%d" % k, ex)
        scns[-1]["toml"] = W.make_toml(general=general, pools={"db": {"opts": {"prepared_statements_cache_size": k, "query_parser_enabled": bool(pw)}, "plugins": pw,
                                                                          "users": [{"username": "u", "password": "pw", "pool_size": 1}],
                                                                          "shards": [{"database": "db0", "servers": [["b0", "primary"]]}]}})
    # regression cases of repaired defects (must complete) and known deviations (must reproduce as listed)
    add("regress-F9", [exch([{"t": "Q", "sql": "SELECT 1; COPY t FROM STDIN"}], until="G"),
                       exch([{"t": "d", "data": "1\n"}, {"t": "c"}], copy=True), exch([{"t": "Q", "sql": "SELECT 2"}])])
    big = encs([fC("COPY 1"), fT(1), fD_total(9011, rng), fD_total(14, rng), fC("SELECT 2"), fZ("I")])
    add("regress-F21a", [exch([{"t": "Q", "sql": "COPY t FROM STDIN /*mock: copy_reply_raw=%s*/" % big.hex()}], until="G"),
                         exch([{"t": "d", "data": "1\n"}, {"t": "c"}], copy=True), exch([{"t": "Q", "sql": "SELECT 2"}])])
    co = encs([fC("COPY 1"), FH, ("d", b"1\n"), Fc, fC("COPY 1"), fZ("I")])
    add("regress-F21b", [exch([{"t": "Q", "sql": "COPY t FROM STDIN /*mock: copy_reply_raw=%s*/" % co.hex()}], until="G"),
                         exch([{"t": "d", "data": "1\n"}, {"t": "c"}], copy=True), exch([{"t": "Q", "sql": "SELECT 2"}])])
    cg = encs([fC("COPY 1"), FG])
    cz = encs([fC("COPY 2"), fZ("I")])
    for label, pre in (("copy-copy", []), ("copy-copy-in-txn", [exch([{"t": "Q", "sql": "BEGIN"}])])):
        add(label, pre + [exch([{"t": "Q", "sql": "COPY a FROM STDIN /*mock: copy_reply_raw=%s, copy_reply_raw2=%s*/; COPY b FROM STDIN" % (cg.hex(), cz.hex())}], until="G"),
                          exch([{"t": "d", "data": "1\n"}, {"t": "c"}], copy=True, until="G"),
                          exch([{"t": "d", "data": "2\n"}, {"t": "c"}], copy=True),
                          exch([{"t": "Q", "sql": "COMMIT" if pre else "SELECT 2"}])],
            known=None)                                            # F29, repaired in 628c2ec: must complete
    st = (listed or {}).get(PENDING_ID)
    if st:
        add("query-inside-batch", [exch([{"t": "Q", "sql": "BEGIN"}]),
                                   exch([{"t": "P", "name": "", "sql": "SELECT 1"}, {"t": "Q", "sql": "SELECT 2"}, {"t": "S"}], count=2),
                                   exch([{"t": "Q", "sql": "COMMIT"}])], known=PENDING_ID if st == "known" else None)
    add("known-F20", [exch([{"t": "Q", "sql": "SELECT 1"}]), exch([{"t": "S"}], expect="local")], known="F20-lone-sync-answered-locally")
    add("known-F19", [exch([{"t": "P", "name": "", "sql": "SELECT 1"}, {"t": "H"}], until="1", expect="silent", timeout=500),
                      exch([{"t": "S"}])], known="F19-flush-dropped")
    only_c = encs([fC("COPY 1")])
    add("known-F21c", [exch([{"t": "P", "name": "", "sql": "COPY t FROM STDIN /*mock: copy_reply_raw=%s*/" % only_c.hex()}, {"t": "B", "portal": "", "name": "", "params": []},
                             {"t": "E", "portal": "", "max": 0}, {"t": "S"}], until="G"),
                       exch([{"t": "d", "data": "1\n"}, {"t": "c"}, {"t": "S"}], copy=True, expect="blocked", timeout=700)], known="F21c-extended-copy-needs-sync")
    return scns


def thrD_of(g):
    return g.thrD


def clients_of(s):
    return sorted({e.get("c", "c") for e in s["ex"] if "msgs" in e})


def build_steps(g, s):
    steps = [{"op": "connect", "c": c, "params": {"user": "u", "database": "db"}, "password": "pw"} for c in clients_of(s)]
    for e in list(s["ex"]):
        if "sleep" in e:
            steps.append({"op": "sleep", "ms": e["sleep"]})
            continue
        steps += e.get("pre", [])
        steps.append({"op": "send", "c": e.get("c", "c"), "msgs": e["msgs"]})
        steps.append({"op": "recv", "c": e.get("c", "c"), "until": e["until"], "count": e["count"], "timeout_ms": e["timeout"]})
    s["ex"] = [e for e in s["ex"] if "msgs" in e]
    for c in clients_of(s):
        steps.append({"op": "recv", "c": c, "until": "", "count": 0, "timeout_ms": 120, "label": "drain"})
    return steps


def client_encode(m):
    """python twin of harness client.rs encode (only for choosing split offsets / model input)"""
    t = m.get("t")
    if t == "Q":
        return enc(("Q", m["sql"].encode() + b"\0"))
    if t == "P":
        ty = m.get("types", [])
        return enc(("P", cstr(m.get("name", "")) + m["sql"].encode() + b"\0" + struct.pack(">h", len(ty)) + b"".join(struct.pack(">i", x) for x in ty)))
    if t == "B":
        b = cstr(m.get("portal", "")) + cstr(m.get("name", ""))
        fm = m.get("fmts", [])
        b += struct.pack(">h", len(fm)) + b"".join(struct.pack(">h", x) for x in fm)
        ps = m.get("params", [])
        b += struct.pack(">h", len(ps))
        for x in ps:
            v = None if x is None else bytes.fromhex(x["hex"]) if isinstance(x, dict) else str(x).encode()
            b += struct.pack(">i", -1) if v is None else struct.pack(">i", len(v)) + v
        rf = m.get("rfmts", [])
        b += struct.pack(">h", len(rf)) + b"".join(struct.pack(">h", x) for x in rf)
        return enc(("B", b))
    if t in ("D", "C"):
        return enc((t, m.get("kind", "S").encode() + cstr(m.get("name", ""))))
    if t == "E":
        return enc(("E", cstr(m.get("portal", "")) + struct.pack(">i", m.get("max", 0))))
    if t in ("S", "H", "c"):
        return enc((t, b""))
    if t == "d":
        return enc(("d", m.get("data", "").encode()))
    if t == "f":
        return enc(("f", cstr(m.get("msg", ""))))
    raise ValueError(t)


def analyse(run, g, s, res, known_ids):
    """model-free monitors on one scenario result -> (problem | None, observations for the model comparison)"""
    if res.get("harness_error") or res.get("start_error"):
        return ("harness: %s" % (res.get("harness_error") or res.get("start_error")), None)
    ev = res["events"]
    cl = clients_of(s)
    sent = [e for e in ev if e.get("who") in cl and e.get("ev") == "sent"]
    recv = [e for e in ev if e.get("who") in cl and e.get("ev") == "recv"]
    if len(sent) != len(s["ex"]) or len(recv) != len(s["ex"]) + len(cl):
        return ("harness: %d sends / %d recvs for %d exchanges" % (len(sent), len(recv), len(s["ex"])), None)
    # backend side, in global order; pgcat's own cleanup statements (none expected here) are set aside
    client_sql = set()
    for e in s["ex"]:
        for m in e["msgs"]:
            if m.get("t") == "Q":
                client_sql.add(m["sql"])
    b_in, b_out, own = [], [], set()
    cur_own = {}
    for e in ev:
        if e.get("ev") == "msg":
            sql = (e["detail"].get("sql") or "").strip()
            # pgcat's own statements (health check, prewarmer, parameter sync, cleanup): simple queries no client sent
            is_own = (e["tag"] == "Q" and e["detail"].get("sql") not in client_sql) or e["tag"] == "X"      # X: pgcat closing a server connection
            cur_own[e["conn"]] = is_own
            if not is_own:
                b_in.append((e["seq"], bytes.fromhex(e["detail"]["raw"])))
        elif e.get("ev") == "out":
            if not cur_own.get(e["conn"], False):
                b_out.append((e["seq"], bytes.fromhex(e["hex"])))
    obs = {"per": [], "client_bytes": b"".join(bytes.fromhex(x["hex"]) for x in sent), "backend_in": b"".join(b for _, b in b_in),
           "sent": [bytes.fromhex(x["hex"]) for x in sent]}
    got_total = b""
    problem = None
    n_local = 0
    refused = set()                                               # requests the pooler refused itself (no server to be had)
    for i, e in enumerate(s["ex"]):
        # the `sent` event is logged after the write returned (the backend may already have answered): an
        # exchange's replies are the backend writes between the end of the previous recv and the end of this one
        lo = recv[i - 1]["seq"] if i > 0 else 0
        hi = recv[i]["seq"]
        out_i = b"".join(b for q, b in b_out if lo <= q < hi)
        raw_i = bytes.fromhex(recv[i].get("raw") or "")
        out_sofar = b"".join(b for q, b in b_out if q < hi)
        expect = e["expect"]
        if expect == "ok_or_local":
            # a checkout whose health check may time out: either the request is relayed, or the pooler answers it with its
            # own ErrorResponse + ReadyForQuery and nothing reaches the server
            fs_i = [f[0] for f in split_frames(raw_i)[0]]
            expect = "local" if (fs_i == ["E", "Z"] and not out_i) else "ok"
            if expect == "local":
                refused.add(i)
        local_bytes = raw_i if expect == "local" else b""
        if expect != "local":
            got_total += raw_i
        obs["per"].append({"reply": out_i, "got": raw_i, "outcome": recv[i]["outcome"]})
        want_outcome = {"ok": "ok", "local": "ok", "silent": "timeout", "blocked": "timeout"}[expect]
        if problem:
            continue
        if expect == "local":
            n_local += 1
            continue                                                # bytes not from the backend: judged below via backend_in
        if not out_sofar.startswith(got_total):
            problem = "exchange %d: the client received bytes the backend did not send in that order (first difference at byte %d)" % (i, next((k for k in range(min(len(out_sofar), len(got_total))) if out_sofar[k] != got_total[k]), min(len(out_sofar), len(got_total))))
        elif recv[i]["outcome"] != want_outcome:
            problem = "exchange %d: client recv ended %s (expected %s): received %d of the %d bytes the backend had sent" % (i, recv[i]["outcome"], want_outcome, len(got_total), len(out_sofar))
        elif e["expect"] == "ok" and len(out_sofar) > len(got_total):
            # every reply belongs to its own request: what the backend has written by now and the clients have not
            # received may only be frames it sent unsolicited after a ReadyForQuery
            rest_fs, junk = split_frames(out_sofar[len(got_total):])
            if junk or any(f[0] not in "NSA" for f in rest_fs):
                problem = "exchange %d: the request was answered (ReadyForQuery received) while %d bytes the backend wrote for it or for earlier requests were still undelivered: replies are shifted" % (i, len(out_sofar) - len(got_total))
    drain = b"".join(bytes.fromhex(r.get("raw") or "") for r in recv[len(s["ex"]):])
    all_out = b"".join(b for _, b in b_out)
    local = [i for i, e in enumerate(s["ex"]) if e["expect"] == "local"]
    if not problem and not local and got_total + drain != all_out and not any(e["expect"] == "blocked" for e in s["ex"]):
        # frames the backend sent unsolicited after the last ReadyForQuery stay unread (they belong to no request)
        rest_fs, junk = split_frames(all_out[len(got_total + drain):]) if all_out.startswith(got_total + drain) else ([], b"x")
        if junk or any(f[0] not in "NSA" for f in rest_fs):
            problem = "at the end the client had received %d bytes, the backend had sent %d (lost, duplicated or altered bytes)" % (len(got_total + drain), len(all_out))
    if refused:
        obs["client_bytes"] = b"".join(b for i, b in enumerate(obs["sent"]) if i not in refused)
    if not problem and obs["backend_in"] != obs["client_bytes"]:
        a, b = obs["backend_in"], obs["client_bytes"]
        k = next((k for k in range(min(len(a), len(b))) if a[k] != b[k]), min(len(a), len(b)))
        problem = "the backend received %d bytes, the client sent %d; first difference at byte %d" % (len(a), len(b), k)
    obs["drain"] = drain
    return (problem, obs)


def relay_exchanges(s):
    """(exchange index, first?) for every relay loop pgcat runs: one per exchange in which it reads from the
    server, `count` of them when `count` Sync-terminated batches were pipelined in one write"""
    out = []
    for i, e in enumerate(s["ex"]):
        if e["expect"] in ("ok", "blocked"):
            out += [(i, k == 0) for k in range(max(1, e["count"]))]
    return out


def model_exprs(s, obs):
    reps = "[" + "; ".join(coq_frames(split_frames(obs["per"][i]["reply"])[0]) if first else "[]" for i, first in relay_exchanges(s)) + "]"
    ms = []
    for e, b in zip(s["ex"], obs["sent"]):
        for f in split_frames(b)[0]:
            ms.append("(%s, %s)" % ("true" if e["copy"] else "false", coq_frame(f)))
    return "(relay_seq bel0 [] %s, cobs (crun_m cst0 [%s]))" % (reps, "; ".join(ms))


def toml():
    return W.make_toml(pools={"db": {"users": [{"username": "u", "password": "pw", "pool_size": 1}],
                                     "shards": [{"database": "db0", "servers": [["b0", "primary"]]}]}})


def run_wire(wire, g, scns):
    t = toml()
    full = []
    for s in scns:
        steps = build_steps(g, s)
        # client -> pgcat segmentation
        for st in steps:
            if st["op"] == "send":
                b = b"".join(client_encode(m) for m in st["msgs"])
                c = client_cuts(g, b)
                if c:
                    st["splits"] = c
        s["steps"] = steps
        full.append({"backends": [{"name": "b0"}], "toml": s.get("toml") or t, "hex": True, "log_out": True, "steps": steps})
    return W.run_scenarios(wire, full, timeout=120)


def check_wire(run, wire, quick, samples, distinct, known_ids):
    rng = run.rng
    thrD, thrd, thrc = gen_consts()
    g = Gen(rng, thrD, thrd, thrc)
    listed = {e["id"]: e.get("status") for e in vlib.known_findings("C03")}
    scns = make_scenarios(run, g, quick, listed)
    if PENDING_ID not in listed:
        run.cov["pending_decision"] = [PENDING_ID + ": scenario not run (no entry in known_findings.jsonl yet); theorem c03_query_inside_batch_refuted states it"]
    results = run_wire(wire, g, scns)
    run.log("wire: %d scenarios run" % len(scns))
    exprs, idx, n_streams, hist = [], [], 0, {}
    reproduced = set()
    for si, (s, res) in enumerate(zip(scns, results)):
        problem, obs = analyse(run, g, s, res, known_ids)
        s["obs"], s["problem"] = obs, problem
        hist[s["kind"]] = hist.get(s["kind"], 0) + 1
        if obs is None:
            run.broken.append("wire scenario %s: %s" % (s["kind"], problem))
            continue
        n_streams += len(s["ex"])
        for p in obs["per"]:
            fs, _ = split_frames(p["reply"])
            distinct.add(("reply", "".join(f[0] for f in fs)[:400], tuple(len(f[1]) for f in fs)[:400]))
        if s["known"]:
            if problem:
                reproduced.add(s["known"])
            else:
                run.violation("tie-broken", "known deviation %s is listed but the implementation no longer shows it (scenario %s): update known_findings.jsonl / the model" % (s["known"], s["kind"]),
                              {"correspondence": "known_findings.jsonl vs wire run", "input": {"kind": "wire", "scenario": strip(s)}}, found_input=False)
        elif problem:
            run.violation("counterexample", "%s scenario: %s" % (s["kind"], problem),
                          {"input": {"kind": "wire", "scenario": strip(s)}, "monitor": problem,
                           "exchanges": [{"backend_sent": len(p["reply"]), "client_got": len(p["got"]), "outcome": p["outcome"]} for p in obs["per"]]})
            return n_streams
        if s["kind"].startswith("ownstmt"):
            continue                                              # judged by the monitors only (the model has no pooler-own statements)
        exprs.append(model_exprs(s, obs))
        idx.append(si)
    # the monitors must see through harness-side mutants of real observations (non-UTF-8 scenarios: two clients)
    import copy
    caught = tried = 0
    for s, res in [(s, r) for s, r in zip(scns, results) if s["kind"] == "nonutf8" and s.get("obs")][:4]:
        muts = list(CC.shifted(res))
        r2 = copy.deepcopy(res)
        rc = [e for e in r2["events"] if e.get("ev") == "recv" and e.get("raw")]
        rc[len(rc) // 2]["raw"] = rc[len(rc) // 2]["raw"][:-2] + ("00" if rc[len(rc) // 2]["raw"][-2:] != "00" else "01")
        muts.append(("one byte of a reply changed", r2))
        r3 = copy.deepcopy(res)
        ms = [k for k, e in enumerate(r3["events"]) if e.get("ev") == "msg"]
        del r3["events"][ms[-1]]
        muts.append(("a request lost on the way to the server", r3))
        for label, r in muts:
            tried += 1
            if analyse(run, g, s, r, known_ids)[0]:
                caught += 1
            else:
                run.broken.append("monitor self-test: %s went unnoticed (caching-off leg)" % label)
    run.cov["monitor_selftest"] = "%d/%d harness-side mutants flagged" % (caught, tried)
    for k in sorted(reproduced):
        if k in known_ids:
            run.known_finding(KNOWN_TEXT[k], key=k)
        else:
            s = [x for x in scns if x["known"] == k][0]
            run.violation("counterexample", "%s reproduces and is not listed as known: %s" % (k, s["problem"]), {"input": {"kind": "wire", "scenario": strip(s)}, "monitor": s["problem"]})
    # the model on the same exchanges
    run.log("wire: monitors done, evaluating the model on %d scenarios" % len(exprs))
    vals = vlib.coq_eval("c03b", PREAMBLE, exprs, shard=min(60, max(4, len(exprs) // 16 + 1)))
    run.log("wire: model evaluated")
    for si, v in zip(idx, vals):
        s = scns[si]
        obs = s["obs"]
        seq, cob = vlib.parse_coq(v)
        run.cov["traces_validated_against_impl"] += len(s["ex"])
        bad = None
        per_model = {}
        for j, (i, first) in enumerate(relay_exchanges(s)):
            if j >= len(seq):
                if not seq or seq[-1][0] == 0:
                    bad = "model produced %d relay loops, scenario has more" % len(seq)
                break
            per_model.setdefault(i, []).append(seq[j])
        for i, parts in per_model.items():
            if bad:
                break
            p = obs["per"][i]
            code = max(x[0] for x in parts)
            mlen = sum(x[3] for x in parts)
            real_done = p["outcome"] == "ok"
            if (code == 0) != real_done:
                bad = "exchange %d: model says %s, implementation %s" % (i, {0: "Done", 1: "Blocked", 2: "Failed", 3: "OutOfFuel"}[code], p["outcome"])
            elif mlen != len(p["got"]):
                bad = "exchange %d: model relays %d bytes, implementation delivered %d" % (i, mlen, len(p["got"]))
            else:
                at = 0
                for x in parts:                                     # chunk boundaries are irrelevant: compare the concatenation
                    piece = p["got"][at:at + x[3]]
                    at += x[3]
                    if ck(piece) != x[2]:
                        bad = "exchange %d: model and implementation relay different bytes" % i
        for i, e in enumerate(s["ex"]):
            if e["expect"] == "silent" and obs["per"][i]["got"] and not bad:
                bad = "exchange %d: nothing should be relayed yet, implementation delivered %d bytes" % (i, len(obs["per"][i]["got"]))
        if not bad:
            ok, acts, sck, slen, next_, cb = cob
            if not ok:
                bad = "client model ends the task, implementation did not"
            elif (slen, sck) != (len(obs["backend_in"]), ck(obs["backend_in"])):
                bad = "client model sends %d bytes to the server, the backend received %d" % (slen, len(obs["backend_in"]))
        if bad:
            run.violation("tie-broken", "model and implementation disagree on a %s scenario: %s" % (s["kind"], bad),
                          {"correspondence": "Relay/Model.v relay/cstep vs pgcat (wire)", "input": {"kind": "wire", "scenario": strip(s)}, "model": v[:600]},
                          found_input=bool(s["problem"]) and not s["known"])
            return n_streams
    samples.append({"kind": "wire", "scenario": scns[0]["kind"], "first_exchange_reply_tags": "".join(f[0] for f in split_frames(scns[0]["obs"]["per"][0]["reply"])[0])[:80],
                    "backend_sent": len(scns[0]["obs"]["per"][0]["reply"]), "client_got": len(scns[0]["obs"]["per"][0]["got"]), "model": vals[0][:200]})
    run.cov["input_distribution"] = dict(hist, exchanges=n_streams)
    return n_streams


def cached_reply(g):
    """what the backend answers to one Execute in the caching-on leg: a single statement's result (no ReadyForQuery)"""
    rng = g.rng
    k = rng.random()
    if k < 0.35:
        fs = g.boundary_rows()
    elif k < 0.70:
        fs = g.small()
    elif k < 0.78:
        fs = g.big_row()
    elif k < 0.88:
        fs = g.copy_out()
    elif k < 0.94:
        fs = [("I", b"")]
    else:
        fs = [f for f in g.small() if f[0] == "D"] + [("s", b"")]      # portal suspended
    if rng.random() < 0.10:                                            # the Execute fails: at once or after rows
        fs = [f for f in fs if f[0] in "TDNS"][:rng.randint(0, 4)] + [fE(rng)]
    return g.sprinkle(fs) if rng.random() < 0.3 else fs


def check_wire_cached(run, wire, quick, samples, distinct):
    """statement caching on: identity modulo the permitted differences (props/c03cache.py)"""
    thrD, thrd, thrc = gen_consts()
    g = Gen(run.rng, thrD, thrd, thrc)
    scns = CC.make_scenarios(run, g, quick, lambda: cached_reply(g), lambda err: (fE(run.rng, True) if err else fN(run.rng, True)))
    full = [CC.build(g, s, client_encode) for s in scns]
    results = W.run_scenarios(wire, full, timeout=120)
    run.log("wire (caching on): %d scenarios run" % len(scns))
    tot = {"batches": 0, "answered_parse": 0, "answered_close": 0, "oob": 0, "renamed": 0, "all_answered": 0, "reordered": 0}
    n, exprs, want = 0, [], []
    for s, res in zip(scns, results):
        problem, st = CC.analyse(s, res)
        if st is None:
            run.broken.append("wire scenario %s: %s" % (s["kind"], problem))
            continue
        for k in tot:
            tot[k] += st[k]
        n += st["batches"]
        for fs in st["inband"]:
            distinct.add(("cached-reply", "".join(f[0] for f in fs)[:400], tuple(len(f[1]) for f in fs)[:400]))
        if problem:
            run.violation("counterexample", "statement caching on (cache size %d): %s" % (s["cache"], problem),
                          {"input": {"kind": "wire-cached", "scenario": {"kind": s["kind"], "cache": s["cache"], "ex": s["ex"], "steps": s["steps"]}}, "monitor": problem})
            return n
        reps = [fs for fs in st["inband"] if fs]
        exprs.append("relay_seq bel0 [] [%s]" % "; ".join(coq_frames(fs) for fs in reps))
        want.append([len(encs(fs)) for fs in reps])
    # the monitor must see through harness-side mutants of a real observation
    caught, tried = 0, 0
    for s, res in list(zip(scns, results))[:6]:
        for label, r in CC.mutants(res):
            tried += 1
            if CC.analyse(s, r)[0]:
                caught += 1
            else:
                run.broken.append("monitor self-test: %s went unnoticed (caching-on leg)" % label)
    run.cov["cached_leg"] = dict(tot, scenarios=len(scns), monitor_selftest="%d/%d harness-side mutants flagged" % (caught, tried))
    # order of the synthesised frames: judged only once known_findings.jsonl has a decision
    st31 = {e["id"]: e.get("status") for e in vlib.known_findings("C03")}.get(ORDER_ID)
    if st31 == "known" and tot["reordered"]:
        run.known_finding(KNOWN_TEXT[ORDER_ID], key=ORDER_ID)
    elif st31 == "known":
        run.violation("tie-broken", "known deviation %s is listed but no batch showed it" % ORDER_ID, {"correspondence": "known_findings.jsonl vs wire run (caching on)"}, found_input=False)
    elif st31 == "fixed" and tot["reordered"]:
        bad = next(s for s, r in zip(scns, results) if CC.analyse(s, r)[1]["reordered"])
        run.violation("counterexample", "statement caching on: synthesised ParseComplete/CloseComplete are not where PostgreSQL sends them (%d batches)" % tot["reordered"],
                      {"input": {"kind": "wire-cached", "scenario": {"kind": bad["kind"], "cache": bad["cache"], "ex": bad["ex"], "steps": bad["steps"]}}, "monitor": "reply order"})
    elif st31 is None and tot["reordered"]:
        run.cov.setdefault("pending_decision", []).append("%s: %d of %d batches got their synthesised '1'/'3' ahead of the server's replies (counted, not judged: no entry in known_findings.jsonl yet)" % (ORDER_ID, tot["reordered"], tot["batches"]))
    vals = vlib.coq_eval("c03c", PREAMBLE, exprs, shard=min(60, max(4, len(exprs) // 16 + 1)))
    for s, v, w in zip(scns, vals, want):
        seq = vlib.parse_coq(v)
        run.cov["traces_validated_against_impl"] += len(w)
        if [x[0] for x in seq] != [0] * len(w) or [x[3] for x in seq] != w:
            run.violation("tie-broken", "caching-on leg: the relay model does not reproduce the in-band replies of a %s scenario: %s vs %s" % (s["kind"], [x[3] for x in seq][:8], w[:8]),
                          {"correspondence": "Relay/Model.v relay vs pgcat (wire, caching on)", "input": {"kind": "wire-cached", "scenario": {"kind": s["kind"], "cache": s["cache"], "ex": s["ex"], "steps": s["steps"]}}, "model": v[:400]}, found_input=False)
            return n
    if scns:
        samples.append({"kind": "wire-cached", "cache": scns[0]["cache"], "first_batch": "".join(m["t"] for m in scns[0]["ex"][0]["msgs"]), "totals": tot})
    return n


def strip(s):
    return {"kind": s["kind"], "known": s["known"], "steps": s["steps"], "toml": s.get("toml"),
            "ex": [{k: v for k, v in e.items() if not k.startswith("_")} for e in s["ex"]]}


def check(run):
    quick = run.tier == "quick"
    run.assumptions += [
        "Coq 8.16.1 kernel + vm_compute (no native_compute); no axioms (Print Assumptions: closed under the global context)",
        "translate/relay_consts.py extracts the thresholds, the per-arm effects of Server::recv and the loop shapes faithfully (validated each run: c03_arm_table_is_model + the wire correspondence)",
        "tokio read_u8/read_i32/read_exact deliver the byte stream whatever the TCP segmentation (exercised: segmented AsyncRead in relayio, split writes on both sides of pgcat)",
        "mock backend emits exactly the scripted bytes (raw= / copy_reply_raw=) and logs exactly what it wrote/read; it is not a real PostgreSQL",
        "TLS (rustls) is not covered; no custom SET/SHOW commands (C13); the Coq client-side model is for statement caching off — with caching on the wire monitor of props/c03cache.py judges the identity modulo renaming (that renaming changes only name and length word is C08's theorem c08_*_rename_only_name_and_len), batches naming more pooler statements than the cache holds are C08's known class F11e and are not generated",
    ]
    run.cov["trusted_base"] = ["coqc 8.16.1 kernel", "vm_compute", "translate/relay_consts.py", "harness/src/bin/{wire,relayio}.rs + mockpg.rs + client.rs",
                               "props/c03.py monitors and glue (relay_seq / crun_m in the coq_eval preamble)", "Print Assumptions: Closed under the global context (all theorems)"]
    tr_ok, tr_msg = translate(run)
    proof_ok, log = (False, tr_msg)
    if tr_ok:
        proof_ok, log = vlib.prove(run, COQ_FILES, "Relay/Props.v")
    run.log("translate ok=%s proof ok=%s" % (tr_ok, proof_ok))
    ok, blog, bins = vlib.cargo_build(["wire", "relayio"])
    if not ok:
        run.violation("tie-broken", "harness does not build against /repo", {"correspondence": "wire/relayio harness build", "log": blog[-3000:]}, found_input=False)
        return
    known_ids = {e["id"] for e in vlib.known_findings("C03") if e.get("status") == "known"}
    samples, distinct = [], set()
    evals = 0
    model_ok = tr_ok and proof_ok
    if model_ok:
        evals += check_framing(run, bins["relayio"], quick, samples, distinct)
        run.log("framing tie done (%d)" % evals)
        if not run.violations:
            evals += check_wire(run, bins["wire"], quick, samples, distinct, known_ids)
            run.log("wire tie done (%d)" % evals)
        if not run.violations:
            evals += check_wire_cached(run, bins["wire"], quick, samples, distinct)
            run.log("wire tie, statement caching on, done (%d)" % evals)
    else:
        # proof / translator broken: monitor search on the implementation alone
        w = monitor_search(run, bins["wire"], known_ids)
        name = "translator shape (translate/relay_consts.py)" if not tr_ok else "Relay/Props.v"
        if w:
            run.violation("counterexample", "proof obligation %s no longer checks and the implementation breaks the property: %s" % (name, w["monitor"]), dict(w, theorem=name, coq_log=log[-2500:]))
        elif not run.broken:
            run.violation("proof-broken", "proof obligation %s no longer checks; no failing stream found in the search" % name, {"theorem": name, "coq_log": log[-2500:]}, found_input=False)
    run.cov["evaluations"] = evals
    run.cov["distinct_nontrivial"] = len(distinct)
    run.cov["rule"] = ("framing: random frame sequences + cut/short/refused (len 0..3, negative) tails, segment cuts inside the 5-byte header, real read_message vs parse_avail/feed_all; "
                       "wire: scripted reply streams with DataRow/CopyData sizes placed so the buffer length is thr-1/thr/thr+1 (thr from the source) once to three times, empty and multi-statement results, "
                       "Notice/ParameterStatus interleavings and unsolicited frames after ReadyForQuery, ErrorResponse in mid-stream, COPY OUT, COPY IN with CopyDone/CopyFail and chunks around the client threshold, portal suspension, "
                       "simple / extended / pipelined requests, TCP cuts on client->pgcat and backend->pgcat writes; statement caching on (cache size 1 and 8): named/unnamed Parse, Bind with 0..4 parameters incl. NULL / empty / binary and result formats, Describe S/P, Execute, Close S/P, repeated statements (hits, misses, evictions), pooler-answered batches followed by ordinary ones, pipelined; distinct = distinct (tag sequence, body lengths) reply streams + distinct framing cases")
    run.cov["samples"] = samples[:6]
    if not quick and model_ok and not run.violations:
        # release build of pgcat (wrapping instead of panicking arithmetic in read_message's length handling)
        ok, blog, rb = vlib.cargo_build(["relayio"], release=True, timeout=2400)
        if ok:
            n = check_framing(run, rb["relayio"], True, samples, distinct)
            run.cov["evaluations"] += n
            run.cov["release_build_framing_cases"] = n
        else:
            run.broken.append("release build of the harness failed: " + blog[-400:])
    if not quick and proof_ok:
        vlib.coqchk(run, ["PV.Relay.Props"])


def monitor_search(run, wire, known_ids):
    thr = (8196, 8196, 8196)
    try:
        thr = gen_consts()
    except Exception:
        pass
    g = Gen(run.rng, *thr)
    scns = [s for s in make_scenarios(run, g, True)]
    results = run_wire(wire, g, scns)
    for s, res in zip(scns, results):
        problem, obs = analyse(run, g, s, res, known_ids)
        if obs is not None and problem and not (s["known"] and s["known"] in known_ids):
            return {"input": {"kind": "wire", "scenario": strip(s)}, "monitor": problem}
    return None


def replay(run, path):
    r = json.load(open(path))
    inp = r.get("input", {})
    print(json.dumps({k: v for k, v in r.items() if k != "input"}, indent=1)[:3000])
    if inp.get("kind") == "framing":
        ok, blog, bins = vlib.cargo_build(["relayio"])
        out = run_relayio(bins["relayio"], [{"hex": inp["hex"], "cuts": inp["cuts"]}])[0]
        fs, rest = split_frames(bytes.fromhex(inp["hex"]))
        good = [bytes.fromhex(h) for h in out["frames"]] == [enc(f) for f in fs][:len(out["frames"])] and len(out["frames"]) == len(fs)
        print("replay: read_message returned %d frames, end=%s; python framing: %d frames, %d bytes left -> %s" % (len(out["frames"]), out["end"], len(fs), len(rest), "agree" if good else "DISAGREE"))
        return 0 if good else 1
    if inp.get("kind") == "wire-cached":
        ok, blog, bins = vlib.cargo_build(["wire"])
        s = inp["scenario"]
        res = W.run_scenario(bins["wire"], {"backends": [{"name": "b0"}], "toml": CC.toml(s["cache"]), "hex": True, "log_out": True, "steps": s["steps"]}, timeout=120)
        problem, st = CC.analyse(s, res, strict_order=(r.get("monitor") == "reply order"))
        print("replay: monitor says: %s" % (problem or "identity modulo renamed statements and synthesised ParseComplete/CloseComplete"))
        return 1 if problem else 0
    if inp.get("kind") == "wire":
        ok, blog, bins = vlib.cargo_build(["wire"])
        s = inp["scenario"]
        res = W.run_scenario(bins["wire"], {"backends": [{"name": "b0"}], "toml": s.get("toml") or toml(), "hex": True, "log_out": True, "steps": s["steps"]}, timeout=120)
        g = Gen(run.rng, 8196, 8196, 8196)
        problem, obs = analyse(run, g, s, res, set())
        print("replay: monitor says: %s" % (problem or "bytes relayed complete, in order, unmodified"))
        return 1 if problem else 0
    return 0
