"""C19 — plugin verdicts are enforced before anything reaches a server.

P : coq/Plugin/{Model,Spec,Proofs,Props}.v
      names      c19_name_complete / c19_name_sound (any UTF-8 spelling, any length), c19_clip_is_truncate
      message    c19_message_blocked / c19_deny_sound
      machine    c19_enforced (unconditional), c19_rejected_names_forgotten, c19_batch_dropped,
                 c19_q_answered, c19_sync_answers_*, c19_no_stale_verdict
      intercept  c19_intercept_exact / c19_intercept_only_matching
      disabled   c19_disabled_noop / c19_plugins_none_allow
T2: library level.  Real sqlparser + QueryRouter::execute_plugins (harness bins `router`, op
    "route", and `plugins`, which also reports what the plugin is shown) against
      L1  the Coq model evaluated on the relations/renderings the real code was shown (vm_compute),
      L2  the generator's own labels (which relations the statement mentions): the assumption that
          sqlparser's visitor shows every mentioned relation, shape by shape,
      L3  a model-free monitor: PostgreSQL's identifier resolution rule in Python.
    Intercept: real reply bytes vs the Coq encoder, and vs an independent Python reader of the
    reply compared with the configured rows.
    Wire level: the enforcement state machine vs the real Client::handle (harness bin `wire`: pgcat
    in-process, mock backend, scripted client): boundary + random message sequences, what the server
    received and what the client was answered, message by message (check_wire).
"""
import json, os, re, struct, sys
import vlib
from props import routerlib as RL

COQ_FILES = ["Plugin/Model.v", "Plugin/Spec.v", "Plugin/Proofs.v", "Plugin/Props.v"]
PRE = ("From PV Require Import Plugin.Model Plugin.Spec.\nFrom Coq Require Import ZArith NArith List Bool. Import ListNotations.\n"
       "Definition pv_eqb (a b : pverdict) : bool := match a, b with PAllow, PAllow => true "
       "| PDeny x, PDeny y => bytes_eqb x y | PIntercept x, PIntercept y => bytes_eqb x y | _, _ => false end.\n"
       "Definition pv_kind (a : pverdict) : nat := match a with PAllow => 0 | PDeny _ => 1 | PIntercept _ => 2 end.")
# NOTE: vlib.coq_eval does not drain the coqc pipes while polling: keep the printed output of one shard well below
# the 64 KiB pipe buffer (small shards, and let Coq compare long byte strings instead of printing them).

# Defects confirmed on the current tree (reported; printed as KNOWN-FINDING, never silently skipped).
# Repaired since and now VIOLATIONS if they come back: non-ASCII folding and 63-byte truncation (3943b22), the replay of a
# rejected Parse through the prepared-statement map (0acefb2), the intercept schema panic (b98e532), the stale Intercept (a7d476c),
# a session judged by the settings of its previous checkout after a RELOAD (c3cef0c).
KNOWN = {
    "only": "C19-only-keyword: `SELECT * FROM ONLY secret` / `DELETE FROM ONLY secret` / `UPDATE ONLY secret ..` pass table_access "
            "(sqlparser reads ONLY as the table name and the listed table as its alias; PostgreSQL reads the listed table)",
    "table_cmd": "C19-table-command: `SELECT * FROM other UNION TABLE secret` / `INSERT INTO other TABLE secret` / `CREATE TABLE x AS TABLE secret` pass "
                 "table_access (SetExpr::Table is not reported by visit_relations)",
    "ddl_ref": "C19-ddl-references: `CREATE TABLE x (LIKE secret)`, `.. REFERENCES secret (a)`, `CREATE TRIGGER .. ON secret`, `COMMENT ON TABLE secret`, "
               "`GRANT .. ON secret` pass table_access (names not reported by visit_relations)",
    "maxlen": "C19-parser-max-length: with query_parser_max_length set, a message longer than the limit is never parsed, so no plugin runs and it is forwarded: "
              "'SELECT * FROM secret' padded with blanks beyond the limit passes table_access",
}


# ----------------------------------------------------------------------------- PostgreSQL rule
def pg_resolve(text: bytes, quoted: bool) -> bytes:
    """scan.l / scansup.c, UTF8 server encoding: quoted verbatim, else ASCII A-Z folded;
    then truncated to 63 bytes at a character boundary."""
    s = text if quoted else bytes((c + 32) if 65 <= c <= 90 else c for c in text)
    if len(s) > 63:
        cut = 63
        while cut > 0 and (s[cut] & 0xC0) == 0x80:
            cut -= 1
        s = s[:cut]
    return s


SIMPLE = re.compile(rb"^[a-z_][a-z0-9_]*$")
IDENT_OK = re.compile(rb"^[A-Za-z_][A-Za-z0-9_]*$")


def render_ident(text: bytes, quoted: bool) -> str:
    t = text.decode("utf-8")
    return '"' + t + '"' if quoted else t


def spellings(rng, base: bytes):
    """identifier spellings derived from a relation name: (text, quoted)"""
    out = [(base, True)]
    if IDENT_OK.match(base) and not SIMPLE.match(base):
        out += [(base, False), (base.lower(), False), (base.upper(), False), (base.lower(), True)]
    if SIMPLE.match(base):
        out += [(base, False), (base.upper(), False), (base.upper(), True), (base.capitalize(), True), (base.capitalize(), False)]
        mixed = bytes((c - 32) if (97 <= c <= 122 and rng.random() < 0.5) else c for c in base)
        out.append((mixed, False))
    elif all(c >= 128 or chr(c).isalnum() or c == 95 for c in base) and not chr(base[0]).isdigit():
        # non-ASCII letters can be written unquoted
        out += [(base, False), (base.decode().upper().encode(), False), (base.decode().lower().encode(), False)]
    else:
        out += [(base.upper(), True), (base.lower(), True)]
    return out


QUALS = [[], [], [], [(b"public", False)], [(b"PUBLIC", False)], [(b"Sch", True)], [(b"pg_catalog", False)],
         [(b"db", False), (b"public", False)], [(b"Db", True), (b"x.y", True)]]

# statement shapes: (group, template, gap) ; {T} = relation under test, {O} = an unlisted relation
SHAPES = [
    ("from", "SELECT * FROM {T}", None), ("from", "SELECT a, b FROM {T} AS s WHERE s.a = 1", None), ("from", "SELECT * FROM {O}, {T}", None),
    ("from", "SELECT * FROM {T} FOR UPDATE", None), ("from", "SELECT * INTO x FROM {T}", None),
    ("join", "SELECT * FROM {O} JOIN {T} ON true", None), ("join", "SELECT * FROM {O} o LEFT JOIN {T} t USING (id)", None),
    ("join", "SELECT * FROM {O} NATURAL JOIN {T}", None), ("join", "SELECT * FROM {O} CROSS JOIN {T}", None),
    ("join", "SELECT * FROM ({O} JOIN {T} ON true)", None), ("join", "SELECT * FROM {T} a JOIN {T} b ON a.id = b.id", None),
    ("subquery", "SELECT * FROM {O} WHERE id IN (SELECT id FROM {T})", None), ("subquery", "SELECT (SELECT max(id) FROM {T})", None),
    ("subquery", "SELECT * FROM (SELECT * FROM {T}) x", None), ("subquery", "SELECT 1 WHERE EXISTS (SELECT 1 FROM {T})", None),
    ("subquery", "SELECT 1 ORDER BY (SELECT a FROM {T} LIMIT 1)", None), ("subquery", "SELECT 1 LIMIT (SELECT count(*) FROM {T})", None),
    ("subquery", "SELECT CASE WHEN EXISTS (SELECT 1 FROM {T}) THEN 1 END", None), ("subquery", "SELECT ARRAY(SELECT a FROM {T})", None),
    ("subquery", "SELECT * FROM {O} HAVING EXISTS (SELECT 1 FROM {T})", None), ("subquery", "VALUES ((SELECT 1 FROM {T}))", None),
    ("cte", "WITH c AS (SELECT * FROM {T}) SELECT * FROM c", None), ("cte", "WITH a AS (SELECT 1), c AS (SELECT * FROM {O} JOIN {T} ON true) SELECT * FROM a, c", None),
    ("cte", "WITH RECURSIVE c AS (SELECT 1 UNION ALL SELECT id FROM {T}) SELECT * FROM c", None),
    ("dml_target", "INSERT INTO {T} VALUES (1)", None), ("dml_target", "INSERT INTO {T} AS s (a) VALUES (1) RETURNING a", None),
    ("dml_target", "UPDATE {T} SET a = 1 WHERE id = 2", None), ("dml_target", "DELETE FROM {T} WHERE id = 1", None),
    ("dml_sub", "UPDATE {O} SET a = (SELECT a FROM {T} LIMIT 1)", None), ("dml_sub", "INSERT INTO {O} VALUES ((SELECT a FROM {T} LIMIT 1))", None),
    ("dml_sub", "INSERT INTO {O} VALUES (1) ON CONFLICT DO UPDATE SET a = (SELECT a FROM {T} LIMIT 1)", None),
    ("dml_sub", "INSERT INTO {O} VALUES (1) RETURNING (SELECT a FROM {T} LIMIT 1)", None),
    ("using", "DELETE FROM {O} USING {T} WHERE {O}.id = 1", None), ("using", "UPDATE {O} SET a = 1 FROM {T} WHERE true", None),
    ("copy", "COPY {T} TO STDOUT", None), ("copy", "COPY {T} (a, b) TO STDOUT", None), ("copy", "COPY {T} TO '/tmp/x' WITH (FORMAT csv)", None),
    ("copy", "COPY (SELECT * FROM {T}) TO STDOUT", None), ("copy", "COPY {T} FROM STDIN", None),
    ("drop", "DROP TABLE {T}", None), ("drop", "DROP TABLE IF EXISTS {O}, {T} CASCADE", None),
    ("truncate", "TRUNCATE {T}", None), ("truncate", "TRUNCATE TABLE {O}, {T}", None), ("truncate", "TRUNCATE ONLY {T}", None),
    ("merge", "MERGE INTO {T} s USING {O} o ON s.id = o.id WHEN MATCHED THEN DELETE", None),
    ("merge", "MERGE INTO {O} s USING {T} o ON s.id = o.id WHEN MATCHED THEN DELETE", None),
    ("insert_select", "INSERT INTO {O} SELECT * FROM {T}", None), ("insert_select", "INSERT INTO {O} (a) SELECT a FROM {O} JOIN {T} ON true", None),
    ("explain", "EXPLAIN SELECT * FROM {T}", None), ("explain", "EXPLAIN ANALYZE DELETE FROM {T}", None),
    ("ctas", "CREATE TABLE x AS SELECT * FROM {T}", None), ("ctas", "CREATE VIEW v AS SELECT * FROM {T}", None),
    ("ctas", "CREATE MATERIALIZED VIEW m AS SELECT * FROM {T}", None),
    ("setop", "SELECT * FROM {O} UNION SELECT * FROM {T}", None), ("setop", "SELECT * FROM {T} EXCEPT ALL SELECT * FROM {O}", None),
    ("setop", "(SELECT * FROM {O}) INTERSECT (SELECT * FROM {T})", None),
    ("lateral", "SELECT * FROM {O} o, LATERAL (SELECT * FROM {T} s WHERE s.id = o.id) x", None),
    ("lateral", "SELECT * FROM {O} o LEFT JOIN LATERAL (SELECT * FROM {T}) x ON true", None),
    ("tablefunc", "SELECT * FROM generate_series(1, (SELECT count(*) FROM {T}))", None), ("tablefunc", "SELECT * FROM UNNEST(ARRAY(SELECT a FROM {T}))", None),
    ("ddl", "ALTER TABLE {T} ADD COLUMN z int", None), ("ddl", "ALTER TABLE ONLY {T} RENAME TO x", None), ("ddl", "CREATE INDEX ON {T} (a)", None),
    ("other", "PREPARE p AS SELECT * FROM {T}", None), ("other", "DECLARE c CURSOR FOR SELECT * FROM {T}", None),
    ("other", "CALL f((SELECT a FROM {T}))", None),
    # confirmed gaps (reported): the statement mentions {T}, PostgreSQL reads/alters it, the plugin is not shown it
    ("from_only", "SELECT * FROM ONLY {T}", "only"), ("from_only", "DELETE FROM ONLY {T}", "only"), ("from_only", "UPDATE ONLY {T} SET a = 1", "only"),
    ("from_only", "SELECT * FROM {O} JOIN ONLY {T} ON true", "only"), ("from_only", "INSERT INTO {O} SELECT * FROM ONLY {T}", "only"),
    ("table_cmd", "SELECT * FROM {O} UNION TABLE {T}", "table_cmd"), ("table_cmd", "INSERT INTO {O} TABLE {T}", "table_cmd"),
    ("table_cmd", "CREATE TABLE x AS TABLE {T}", "table_cmd"),
    ("ddl_ref", "CREATE TABLE x (LIKE {T})", "ddl_ref"), ("ddl_ref", "CREATE TABLE x (a int REFERENCES {T} (a))", "ddl_ref"),
    ("ddl_ref", "ALTER TABLE {O} ADD FOREIGN KEY (a) REFERENCES {T} (a)", "ddl_ref"),
    ("ddl_ref", "CREATE TRIGGER t AFTER INSERT ON {T} FOR EACH ROW EXECUTE FUNCTION f()", "ddl_ref"),
    ("ddl_ref", "COMMENT ON TABLE {T} IS 'x'", "ddl_ref"), ("ddl_ref", "GRANT SELECT ON {T} TO PUBLIC", "ddl_ref"),
]
REQUIRED_GROUPS = ["from", "join", "subquery", "cte", "dml_target", "using", "copy", "drop", "truncate", "merge", "insert_select",
                   "explain", "ctas", "setop", "lateral", "tablefunc"]
FILLERS = ["SELECT 1", "BEGIN", "COMMIT", "SELECT * FROM other_tbl", "SET statement_timeout = 0", "SELECT 'secret'"]

LISTED_POOL = [b"secret", b"pg_user", b"Mixed", b"Accounts", b"a.b", b"UPPER", b"tbl_1", b"has space", b"t" + b"x" * 62, b"u" + b"y" * 61]
UNLISTED_POOL = [b"other", b"secrets", b"secre", b"users", b"mixed", b"upper", b"b", b"public"]
NONASCII_POOL = ["secrÉt".encode(), "données".encode(), "Über".encode(), "straße".encode(), ("é" * 31 + "x").encode(), ("w" * 60 + "é").encode()]


def note(st, cls, detail, prio=0):
    """remember the best illustration of a reported defect class; one KNOWN-FINDING line per class is printed at the end"""
    cur = st["kf"].get(cls)
    if cur is None or prio > cur[0]:
        st["kf"][cls] = (prio, detail)


def coq_ident(i):
    return "(mkIdent %s %s)" % (vlib.coq_bytes(i[0]), "true" if i[1] else "false")


def coq_name(nm):
    return "[" + "; ".join(coq_ident(i) for i in nm) + "]"


def coq_names(l):
    return "[" + "; ".join(coq_name(n) for n in l) + "]"


def coq_blist(l):
    return "[" + "; ".join(vlib.coq_bytes(b) for b in l) + "]"


def cnorm(x):
    """vlib.parse_coq leaves bare identifiers inside constructor arguments as ('#', name): fold them"""
    if isinstance(x, tuple) and len(x) == 2 and x[0] == "#":
        return {"true": True, "false": False}.get(x[1], x[1])
    if isinstance(x, tuple):
        return tuple(cnorm(y) for y in x)
    if isinstance(x, list):
        return [cnorm(y) for y in x]
    return x


def pcoq(v):
    return cnorm(vlib.parse_coq(v))


def obytes(v):
    """parsed Coq list of N -> bytes"""
    return bytes(v)


def names_from_json(l):
    return [[(bytes.fromhex(i["v"]), bool(i["q"])) for i in nm] for nm in l]


def gen_table_cases(rng, n, nonascii=False):
    cases = []
    for k in range(n):
        listed = rng.sample(LISTED_POOL, rng.randint(1, 4))
        if nonascii:
            listed = listed[:2] + rng.sample(NONASCII_POOL, 2)
        unlisted = [b for b in UNLISTED_POOL if b not in listed]
        enabled = rng.random() < 0.93
        group, tmpl, gap = SHAPES[k % len(SHAPES)] if k < 4 * len(SHAPES) else rng.choice(SHAPES)
        # relation under test: mostly derived from a listed name
        pool = listed if rng.random() < 0.75 else unlisted + [b for b in LISTED_POOL if b not in listed]
        if nonascii and rng.random() < 0.8:
            pool = [b for b in listed if any(c >= 128 for c in b)] or pool
        base = rng.choice(pool)
        sp = spellings(rng, base)
        if len(base) >= 63 and rng.random() < 0.5:
            sp.append((base + b"yz", False)); sp.append((base + b"Q", True))
        if len(base) in (62, 63) and rng.random() < 0.5:      # a 2-byte character across / right after the 63-byte limit
            sp.append((base + "éz".encode(), False)); sp.append((base + "É".encode(), True)); sp.append((base.upper() + "Éé".encode(), False))
        ident = rng.choice(sp)
        qual = rng.choice(QUALS)
        T = list(qual) + [ident]
        obase = rng.choice(unlisted)
        O = [rng.choice(spellings(rng, obase)[:3])] if rng.random() < 0.8 else [(b"public", False), (obase, False)]
        rT = ".".join(render_ident(*i) for i in T)
        rO = ".".join(render_ident(*i) for i in O)
        sql = tmpl.replace("{T}", rT).replace("{O}", rO)
        labels = []
        for m in re.finditer(r"\{([TO])\}", tmpl):
            labels.append(T if m.group(1) == "T" else O)
        # position in a multi-statement message
        pos = "single"
        pre, post = [], []
        r = rng.random()
        if r < 0.35:
            pre = [rng.choice(FILLERS) for _ in range(rng.randint(0, 2))]
            post = [rng.choice(FILLERS) for _ in range(rng.randint(0, 2))]
            if pre or post:
                pos = "first" if not pre else ("last" if not post else "middle")
        msg = "; ".join(pre + [sql] + post) + (";" if rng.random() < 0.3 else "")
        proto = "P" if rng.random() < 0.4 else "Q"
        plugins = {"table_access": {"enabled": enabled, "tables": [b.decode() for b in listed]}, "intercept": None, "query_logger": None, "prewarmer": None}
        if rng.random() < 0.05:
            plugins = None
        cases.append({"sql": msg, "proto": proto, "plugins": plugins, "listed": listed, "enabled": enabled and plugins is not None,
                      "labels": labels, "group": group, "gap": gap, "pos": pos, "stmt": sql})
    return cases


def known_class(case, resp_labels):
    """which reported defect class explains an expected-deny / real-allow case"""
    return case["gap"] or None


def check_tables(run, bins, cases, tag, st):
    """L1/L2/L3 for table_access.  Returns number of evaluations."""
    rcases = [{"settings": {"parser": True, "plugins": c["plugins"]}, "steps": [{"op": "route", "proto": c["proto"], "sql": c["sql"]}]} for c in cases]
    pcases = [{"settings": {"parser": True, "plugins": c["plugins"]}, "steps": [{"proto": c["proto"], "sql": c["sql"]}]} for c in cases]
    rres = RL.run_router(bins["router"], rcases)
    pres = RL.run_router(bins["plugins"], pcases)
    exprs, idx = [], []
    for k, (c, r, p) in enumerate(zip(cases, rres, pres)):
        ro, po = r["out"][0], p["out"][0]
        c["parse"] = po.get("parse")
        if "panic" in ro or "panic" in po:
            run.violation("counterexample", "parsing/plugin evaluation panics on %r" % c["sql"], {"input": {"sql": c["sql"], "proto": c["proto"], "plugins": c["plugins"]}, "impl": "panic"})
            return 0
        if po.get("parse") != "ok":
            st["rejected"] += 1
            st["rejected_by_group"][c["group"]] = st["rejected_by_group"].get(c["group"], 0) + 1
            continue
        real = ro["plugin"][0]
        if real != po["plugin"][0]:
            run.violation("tie-broken", "harness bins router and plugins disagree on %r" % c["sql"], {"correspondence": "router vs plugins bin", "input": {"sql": c["sql"]}}, found_input=False)
            return 0
        c["real"] = real
        c["real_msg"] = ro["plugin"][1] if real == "deny" else None
        c["explicit"] = [n for s in po["stmts"] for n in names_from_json(s["explicit"])]
        c["visited"] = [n for s in po["stmts"] for n in names_from_json(s["visited"])]
        en = "true" if c["enabled"] else "false"
        exprs.append("(ta_verdict %s %s %s %s, map (matches %s) %s)" % (en, coq_blist(c["listed"]), coq_names(c["explicit"]), coq_names(c["visited"]),
                                                                        coq_blist(c["listed"]), coq_names(c["labels"])))
        idx.append(k)
    vals = vlib.coq_eval("c19_" + tag, PRE, exprs, shard=100)
    evals = 0
    for k, v in zip(idx, vals):
        c = cases[k]
        mv, mlab = vlib.parse_coq(v)
        model = None if mv is None else obytes(mv[1])
        evals += 1
        run.cov["traces_validated_against_impl"] += 1
        st["distinct"].add((c["stmt"], c["proto"], c["pos"], tuple(c["listed"]), c["enabled"]))
        st["by_group"][c["group"]] = st["by_group"].get(c["group"], 0) + 1
        st["by_pos"][c["pos"] + "/" + c["proto"]] = st["by_pos"].get(c["pos"] + "/" + c["proto"], 0) + 1
        inp = {"sql": c["sql"], "proto": c["proto"], "plugins": c["plugins"]}
        # L1: model on what the real code was shown == real verdict, including the table named in the error
        real_t = None
        if c["real"] == "deny":
            m = re.match(r'^permission for table "(.*)" denied$', c["real_msg"], re.S)
            real_t = m.group(1).encode() if m else b"?"
        # the property's own predicate on the implementation's answer (PostgreSQL's rule on the generator's labels): when it
        # fails the input is a counterexample and is reported as such further down, whatever the model says
        resp0 = [nm for nm in c["labels"] if pg_resolve(*nm[-1]) in c["listed"]]
        prop_fail = (c["enabled"] and bool(resp0) and c["real"] != "deny" and not known_class(c, resp0)) or \
                    (not (c["enabled"] and bool(resp0)) and c["real"] == "deny")
        if not prop_fail and ((model is None) != (c["real"] != "deny") or (model is not None and model != real_t)):
            run.violation("tie-broken", "table_access model and implementation disagree on %r (the answer still satisfies the property): model %r, impl %r %r" % (c["sql"], model, c["real"], real_t),
                          {"correspondence": "Plugin/Model.v ta_verdict vs TableAccess::run", "input": inp, "model": str(model), "impl": [c["real"], c["real_msg"]],
                           "shown": {"explicit": str(c["explicit"]), "visited": str(c["visited"])}}, found_input=False)
            return evals
        # L3: PostgreSQL's rule on the generator's labels
        resp = [nm for nm in c["labels"] if pg_resolve(*nm[-1]) in c["listed"]]
        expect_deny = c["enabled"] and bool(resp)
        # L2: every mentioned relation is shown to the plugin
        shown = c["explicit"] + c["visited"]
        missing = [nm for nm in c["labels"] if nm not in shown]
        if missing and not c["gap"] and not (not expect_deny and c["real"] == "deny"):
            run.violation("tie-broken" if not (expect_deny and c["real"] != "deny") else "counterexample",
                          "sqlparser does not show the plugin relation %s of %r" % (missing[0], c["sql"]),
                          {"correspondence": "visit_relations reports every mentioned relation", "input": inp, "missing": str(missing)},
                          found_input=(expect_deny and c["real"] != "deny"))
            return evals
        if c["gap"] and not missing:
            st["gaps_closed"].add(c["gap"])
        # Coq [matches] on the labels vs the PostgreSQL rule (c19_name_complete / _sound on concrete spellings)
        for nm, mm in zip(c["labels"], mlab):
            pg = pg_resolve(*nm[-1]) in c["listed"]
            st["spellings"].add((nm[-1], len(nm), pg))
            if mm != pg:
                run.violation("proof-broken", "Coq matches and the PostgreSQL rule disagree on the identifier %r" % (nm,),
                              {"theorem": "c19_name_complete/c19_name_sound", "input": {"name": str(nm), "listed": str(c["listed"])}}, found_input=False)
                return evals
        if expect_deny and c["real"] != "deny":
            cls = known_class(c, resp)
            if cls:
                st["known"][cls] = st["known"].get(cls, 0) + 1
                st["known_samples"].setdefault(cls, c["sql"])
                note(st, cls, " [e.g. %r]" % st["known_samples"][cls])
            else:
                run.violation("counterexample", "table_access allows %r although %s resolves to the listed table" % (c["sql"], resp[0]),
                              {"input": inp, "impl": c["real"], "expected": "deny", "relation": str(resp[0]), "listed": [b.decode("utf8", "replace") for b in c["listed"]]})
                return evals
        elif not expect_deny and c["real"] == "deny":
            run.violation("counterexample", "table_access denies %r although no mentioned relation resolves to a listed table" % c["sql"],
                          {"input": inp, "impl": [c["real"], c["real_msg"]], "expected": "allow"})
            return evals
        if expect_deny:
            st["denied"] += 1
    return evals


def check_maxlen(run, bins, st):
    """query_parser_max_length: the same denied statement below and above the limit"""
    pl = {"table_access": {"enabled": True, "tables": ["secret"]}, "intercept": None, "query_logger": None, "prewarmer": None}
    cases, meta = [], []
    for limit in (40, 64, 200):
        for sql in ("SELECT * FROM secret", "DELETE FROM secret WHERE id = 1", "COPY secret TO STDOUT"):
            for pad in (0, limit, 3 * limit):
                for proto in ("Q", "P"):
                    text = sql + " " * pad
                    cases.append({"settings": {"parser": True, "parser_max_length": limit, "plugins": pl}, "steps": [{"op": "route", "proto": proto, "sql": text}]})
                    meta.append((limit, text, proto))
    n = 0
    for (limit, text, proto), r in zip(meta, RL.run_router(bins["router"], cases)):
        o = r["out"][0]
        n += 1
        st["distinct"].add(("maxlen", limit, text, proto))
        if o.get("parse") == "ok" and o["plugin"][0] == "deny":
            continue
        if o.get("parse") == "err" and len(text) + 5 > limit:
            st["known"]["maxlen"] = st["known"].get("maxlen", 0) + 1
            note(st, "maxlen", " [e.g. limit %d, %d-byte message]" % (limit, len(text) + 5))
            continue
        run.violation("counterexample", "table_access does not deny %r (query_parser_max_length=%d): %s" % (text, limit, o),
                      {"input": {"sql": text, "proto": proto, "parser_max_length": limit, "plugins": pl}, "impl": o.get("plugin"), "expected": "deny"})
        break
    return n


# ----------------------------------------------------------------------------- intercept
CANON = ["select datname from pg_database", "select 1", "select current_database() as a, current_schemas(false) as b", "select current_database(), current_schema(), current_user",
         "select version()", "select * from t where a = 'x'", "select a, b from public.t order by a limit 5", "show transaction_read_only"]
TYPES = ["text", "int4", "bool", "oid", "anyarray", "numeric", "weird", "", "TEXT"]
CELLS = ["", "x", "42", "${USER}", "${DATABASE}", "a${DATABASE}b${USER}c", "${USER}${USER}", "{public}", "${", "$ {USER}", "long " * 40, "t", "été"]


def variant(rng, q):
    """spacing / case variant of a canonical query (string literals keep their spacing)"""
    parts = re.split(r"('[^']*')", q)
    out = []
    for p in parts:
        if p.startswith("'"):
            out.append(p if rng.random() < 0.5 else p.upper())
            continue
        toks = re.split(r"(\s+|,|\(|\))", p)
        s = ""
        for t in toks:
            if not t:
                continue
            if t.isspace():
                s += rng.choice([" ", "  ", "\n", "\t ", " \n "])
            elif t in ",()":
                s += rng.choice(["", " "]) + t + rng.choice(["", " "]) if t == "," else t
            else:
                c = rng.random()
                s += t.upper() if c < 0.35 else (t if c < 0.7 else "".join(ch.upper() if rng.random() < 0.5 else ch for ch in t))
        out.append(s)
    v = "".join(out)
    return rng.choice(["", " ", "\n"]) + v + rng.choice(["", "", " ", ";", " ;"])


def gen_rule(rng, q):
    ncol = rng.choice([0, 1, 2, 2, 3, 4])
    schema = [[rng.choice(["a", "b", "current_database", "col name", "über", "x" * 70]), rng.choice(TYPES)] for _ in range(ncol)]
    if rng.random() < 0.1:
        schema = [r + ["extra"] for r in schema]
    nrow = rng.choice([0, 1, 1, 2, 3])
    result = [[rng.choice(CELLS) for _ in range(ncol if rng.random() < 0.85 else rng.randint(0, 5))] for _ in range(nrow)]
    rq = q if rng.random() < 0.6 else (q.upper() if rng.random() < 0.5 else q.replace(" ", "  ", 1))
    return {"query": rq, "schema": schema, "result": result}


def gen_intercept_cases(rng, n):
    cases = []
    for k in range(n):
        nr = rng.randint(1, 3)
        qs = rng.sample(CANON, nr)
        rules = {}
        for j, q in enumerate(qs):
            rules[str(j) if rng.random() < 0.7 else "k%d" % (9 - j)] = gen_rule(rng, q)
        if rng.random() < 0.15:   # two rules for the same query: both answer
            rules["zz"] = gen_rule(rng, qs[0])
        panic_rule = False
        if rng.random() < 0.06:
            key = rng.choice(sorted(rules))
            if rules[key]["schema"]:
                rules[key]["schema"][-1] = rules[key]["schema"][-1][:rng.choice([0, 1, 1])]
                panic_rule = True
        stm = []
        for _ in range(rng.choice([1, 1, 1, 2, 3])):
            r = rng.random()
            if r < 0.6:
                stm.append(variant(rng, rng.choice(qs)).rstrip("; \n"))
            elif r < 0.8:
                stm.append(rng.choice(["SELECT 2", "select  1 + 1", "SELECT * FROM secret", "BEGIN", "select 1 as x", "SELECT current_database()"]))
            else:
                stm.append(variant(rng, rng.choice(CANON)).rstrip("; \n"))
        sql = "; ".join(stm) + rng.choice(["", ";"])
        if rng.random() < 0.03:
            sql = rng.choice(["", ";", "  "])
        enabled = rng.random() < 0.9
        # listed tables overlap with the tables the intercepted queries read (intercept is consulted first); unsorted lists
        ta = {"enabled": rng.random() < 0.9, "tables": rng.sample(["zeta", "secret", "t", "pg_database", "pg_user", "alpha"], rng.randint(1, 5))} if rng.random() < 0.6 else None
        plugins = {"intercept": {"enabled": enabled, "queries": rules}, "table_access": ta, "query_logger": None, "prewarmer": None}
        user = rng.choice(["postgres", "u", "", "${DATABASE}", "us er"])
        db = rng.choice(["db", "d", "", "${USER}"])
        cases.append({"sql": sql, "proto": rng.choice(["Q", "Q", "P"]), "plugins": plugins, "user": user, "db": db, "panic_rule": panic_rule})
    return cases


def coq_rule(r):
    return "(mkRule %s [%s] [%s])" % (vlib.coq_bytes(r["query"].encode()),
                                      "; ".join("[" + "; ".join(vlib.coq_bytes(x.encode()) for x in row) + "]" for row in r["schema"]),
                                      "; ".join("[" + "; ".join(vlib.coq_bytes(x.encode()) for x in row) + "]" for row in r["result"]))


def coq_pcfg(pl):
    ic, ta = pl.get("intercept"), pl.get("table_access")
    rules = [ic["queries"][k] for k in sorted(ic["queries"])] if ic else []     # BTreeMap<String,_> order = byte order of keys
    return "(Some (mkPcfg %s %s [%s] %s %s %s))" % ("true" if ic else "false", "true" if ic and ic["enabled"] else "false", "; ".join(coq_rule(r) for r in rules),
                                                   "true" if ta else "false", "true" if ta and ta["enabled"] else "false",
                                                   coq_blist([t.encode() for t in ta["tables"]]) if ta else "[]")


def read_backend(b):
    """independent reader of a backend byte stream -> list of messages"""
    out, i = [], 0
    while i < len(b):
        tag = b[i:i + 1]; (ln,) = struct.unpack(">i", b[i + 1:i + 5]); body = b[i + 5:i + 1 + ln]; i += 1 + ln
        if len(body) != ln - 4:
            return None
        if tag == b"T":
            (n,) = struct.unpack(">h", body[:2]); j = 2; cols = []
            for _ in range(n):
                e = body.index(b"\0", j); name = body[j:e]; j = e + 1
                toid, att, oid, sz, mod, fmt = struct.unpack(">ihihih", body[j:j + 18]); j += 18
                cols.append((name, toid, att, oid, sz, mod, fmt))
            if j != len(body):
                return None
            out.append(("T", cols))
        elif tag == b"D":
            (n,) = struct.unpack(">h", body[:2]); j = 2; cells = []
            for _ in range(n):
                (l,) = struct.unpack(">i", body[j:j + 4]); j += 4
                if l == -1:
                    cells.append(None)
                else:
                    cells.append(body[j:j + l]); j += l
            if j != len(body):
                return None
            out.append(("D", cells))
        elif tag == b"C":
            out.append(("C", body[:-1]))
        elif tag == b"Z":
            out.append(("Z", body))
        else:
            return None
    return out


OIDS = {"text": (25, -1), "int4": (23, 4), "bool": (16, 1), "oid": (26, 4), "anyarray": (2277, -1)}


def expected_reply(case, norms):
    """what the configuration says: for every statement, for every rule (key order) whose lower-cased
    query equals the lower-cased rendering: T, D*, C SELECT; finally Z I.  None if nothing matches."""
    ic = case["plugins"]["intercept"]
    if not ic["enabled"]:
        return None
    out = []
    for nf in norms:
        for k in sorted(ic["queries"]):
            r = ic["queries"][k]
            if bytes(c + 32 if 65 <= c <= 90 else c for c in r["query"].encode()) != bytes(c + 32 if 65 <= c <= 90 else c for c in nf):
                continue
            # a schema entry without a type / name: empty defaults, type Any (b98e532)
            out.append(("T", [((row[0] if row else "").encode(), 0, 0) + OIDS.get(row[1] if len(row) > 1 else "", (2276, -1)) + (-1, 0) for row in r["schema"]]))
            for row in r["result"]:
                cells = []
                for c in row:
                    c = c.replace("${USER}", case["user"]).replace("${DATABASE}", case["db"])
                    cells.append(None if c == "" else c.encode())
                out.append(("D", cells))
            out.append(("C", b"SELECT"))
    if not out:
        return None
    return out + [("Z", b"I")]


def property_of_message(c, stmts):
    """what the property says about one message, independent of the Coq model: matches an intercept rule (enabled) => exactly
    the configured rows; else names a listed table (table_access enabled; PostgreSQL's rule on the relations of the parsed
    statement) => deny; else (and with plugins absent/disabled) => allow.  Returns (kind, rows-or-None)."""
    pl = c["plugins"] or {}
    ic, ta = pl.get("intercept"), pl.get("table_access")
    if ic and ic["enabled"]:
        exp = expected_reply(c, [bytes.fromhex(z["norm"]) for z in stmts])
        if exp is not None:
            return "intercept", exp
    if ta and ta["enabled"]:
        listed = {t.encode() for t in ta["tables"]}
        for z in stmts:
            for nm in names_from_json(z["explicit"]) + names_from_json(z["visited"]):
                if nm and pg_resolve(*nm[-1]) in listed:
                    return "deny", None
    return "allow", None


def property_failure(c, stmts, real):
    """None if the implementation's answer satisfies the property, else a sentence"""
    kind, exp = property_of_message(c, stmts)
    if kind == "intercept":
        got = read_backend(bytes.fromhex(real[1])) if real[0] == "intercept" else None
        if got != exp:
            return "matches an intercept rule but is answered with %s instead of exactly the configured rows" % ("other rows" if real[0] == "intercept" else real[0])
    elif kind == "deny" and real[0] != "deny":
        return "names a listed table but is answered with %s instead of the permission error" % real[0]
    elif kind == "allow" and real[0] != "allow":
        return "matches no intercept rule and names no listed table but is answered with %s" % real[0]
    return None


def check_intercept(run, bins, cases, st):
    pcases = [{"settings": {"parser": True, "plugins": c["plugins"], "user": c["user"], "db": c["db"]}, "steps": [{"proto": c["proto"], "sql": c["sql"]}]} for c in cases]
    pres = RL.run_router(bins["plugins"], pcases)
    exprs, idx = [], []
    for k, (c, p) in enumerate(zip(cases, pres)):
        po = p["out"][0]
        if po.get("parse") != "ok":
            st["rejected"] += 1
            continue
        c["real"] = po["plugin"]
        c["stmts"] = po["stmts"]
        c["norms"] = [bytes.fromhex(s["norm"]) for s in po["stmts"]]
        stm = "; ".join("mkStmt %s %s %s" % (vlib.coq_bytes(bytes.fromhex(s["norm"])), coq_names(names_from_json(s["explicit"])), coq_names(names_from_json(s["visited"])))
                        for s in po["stmts"])
        real = c["real"]
        if real[0] == "panic":
            run.violation("counterexample", "execute_plugins panics on %r" % c["sql"],
                          {"input": {"sql": c["sql"], "proto": c["proto"], "plugins": c["plugins"], "user": c["user"], "db": c["db"]}, "impl": "panic", "expected": "no panic"})
            return 0
        rv = {"allow": "PAllow"}.get(real[0]) or ("(%s %s)" % ("PDeny" if real[0] == "deny" else "PIntercept", vlib.coq_bytes(bytes.fromhex(real[1]))))
        c["expr"] = "execute_plugins %s %s %s [%s]" % (coq_pcfg(c["plugins"]), vlib.coq_bytes(c["user"].encode()), vlib.coq_bytes(c["db"].encode()), stm)
        exprs.append("let m := %s in (pv_eqb m %s, pv_kind m)" % (c["expr"], rv))
        idx.append(k)
    vals = vlib.coq_eval("c19_icpt", PRE, exprs, shard=60)
    evals = 0
    for k, v in zip(idx, vals):
        c = cases[k]
        same, kind = vlib.parse_coq(v)
        evals += 1
        run.cov["traces_validated_against_impl"] += 1
        inp = {"sql": c["sql"], "proto": c["proto"], "plugins": c["plugins"], "user": c["user"], "db": c["db"]}
        real = c["real"]
        if real[0] == "deny":
            real = ["deny", real[1]]
        model = [["allow", "deny", "intercept"][kind]]
        st["icpt_kinds"][model[0]] = st["icpt_kinds"].get(model[0], 0) + 1
        st["distinct"].add(("icpt", c["sql"], json.dumps(c["plugins"], sort_keys=True), c["user"], c["db"]))
        pf = property_failure(c, c["stmts"], c["real"]) if c["real"][0] != "panic" else None
        if pf:      # a concrete failing input of the property: report it as such, whatever the model says
            run.violation("counterexample", "%r %s" % (c["sql"], pf),
                          {"input": inp, "impl": real, "expected": property_of_message(c, c["stmts"])[0], "model": model[0]})
            return evals
        if not same:
            try:    # print the model's value for the replay file (one value: small output)
                model = [model[0], vlib.coq_eval("c19_icpt1", PRE, [c["expr"]])[0][:20000]]
            except Exception as ex:
                model = [model[0], "?"]
            run.violation("tie-broken", "execute_plugins model and implementation disagree on %r (the answer still satisfies the property): model %s, impl %s" % (c["sql"], model[0], real[0]),
                          {"correspondence": "Plugin/Model.v execute_plugins vs QueryRouter::execute_plugins", "input": inp, "model": model, "impl": real}, found_input=False)
            return evals
        # monitor: the reply, read independently, is what the configuration says
        exp = expected_reply(c, c["norms"])
        if exp is None:
            if real[0] == "intercept":
                run.violation("counterexample", "a message matching no intercept rule is intercepted: %r" % c["sql"], {"input": inp, "impl": real})
                return evals
            continue
        got = read_backend(bytes.fromhex(real[1])) if real[0] == "intercept" else None
        if got != exp:
            # unreadable replies are possible by configuration (column name with NUL...) - none is generated
            run.violation("counterexample", "intercept reply for %r is not the configured rows" % c["sql"],
                          {"input": inp, "impl": real, "read": str(got), "expected": str(exp)})
            return evals
        st["icpt_matched"] += 1
    return evals


# ----------------------------------------------------------------------------- enforcement sequences
def gen_sequence(rng, maxlen=9):
    """abstract message sequence for coq/Plugin/Model.v (and, rendered by wire_script, for the wire harness)"""
    cfg = {"parser_on": rng.random() < 0.85, "plugins_on": rng.random() < 0.85, "ps_on": rng.random() < 0.35, "txn_mode": rng.random() < 0.8}
    if cfg["ps_on"]:
        cfg["txn_mode"] = True      # prepared_statements_enabled = transaction mode && cache size > 0 (client.rs startup)
    ops, nid = [], 0
    names_defined = set()

    def verdict(i):
        r = rng.random()
        return ("Allow",) if r < 0.55 else (("Deny", i) if r < 0.85 else ("Intercept", i))
    for _ in range(rng.randint(1, maxlen)):
        nid += 1
        r = rng.random()
        if r < 0.20:
            ops.append(("MQ", nid, rng.random() < 0.9, verdict(nid), rng.random() < 0.93, rng.random() < 0.4))
        elif r < 0.45:
            name = rng.choice([0, 0, 1, 2]); names_defined.add(name)
            ops.append(("MP", nid, name, rng.choice([7, 8, 9, 10 + nid]), rng.random() < 0.9, verdict(nid)))
        elif r < 0.58:
            cand = sorted(names_defined) or [0]
            ops.append(("MB", nid, rng.choice(cand) if rng.random() < 0.9 else 3))
        elif r < 0.65:
            ops.append(("MD", nid, rng.random() < 0.6, rng.choice(sorted(names_defined) or [0])))
        elif r < 0.73:
            ops.append(("ME", nid))
        elif r < 0.80:
            ops.append(("MC", nid, rng.random() < 0.7, rng.choice([0, 1, 2])))
        elif r < 0.97:
            ops.append(("MS", nid, rng.random() < 0.93, rng.random() < 0.3))
        else:
            ops.append(("MH", nid, rng.random() < 0.9))
        if rng.random() < 0.12:         # a custom command: SET SERVER ROLE changes the session's parser override
            nid += 1
            ops.append(cmd_role(nid, rng.choice(sorted(ROLES))) if rng.random() < 0.75 else cmd_other(nid, rng.choice(OTHER_CMDS)))
    return cfg, ops


ROLES = {"RPrimary": "primary", "RReplica": "replica", "RAny": "any", "RAuto": "auto", "RDefault": "default"}
OTHER_CMDS = ["SET PRIMARY READS TO 'on'", "SET PRIMARY READS TO off", "SET SHARD TO '0'", "SET SHARDING KEY TO '1'", "SHOW SERVER ROLE", "SHOW SHARD",
              "SHOW PRIMARY READS"]
MSG_CODE = {"MQ": "Q", "MP": "P", "MB": "B", "MD": "D", "ME": "E", "MC": "C", "MS": "S", "MH": "H", "MCmd": "Q"}


def cmd_role(nid, role, tx=False):
    """SET SERVER ROLE TO '<role>'; the one-server pool of the scenarios has no replica"""
    return ("MCmd", nid, ("CRole", role, role != "RReplica"), True, tx)


def cmd_other(nid, text, tx=False):
    return ("MCmd", nid, ("COther", text), True, tx)


def cmd_text(rng, m):
    """the wire text of a custom command (CUSTOM_SQL_REGEXES: case-insensitive, single blanks, optional ; and outer blanks)"""
    c = m[2]
    t = ("SET SERVER ROLE TO '%s'" % ROLES[c[1]]) if c[0] == "CRole" else c[1]
    r = rng.random() if rng else 1.0
    if r < 0.3:
        t = t.lower()
    elif r < 0.5:
        t = "".join(ch.upper() if i % 2 else ch.lower() for i, ch in enumerate(t))
    if rng and rng.random() < 0.3:
        t = " " + t + rng.choice([";", " ;", "  "])
    return t


def b2c(b):
    return "true" if b else "false"


def coq_verdict(v):
    return "Allow" if v[0] == "Allow" else "(%s %d)" % v


def coq_msg(m):
    k = m[0]
    if k == "MQ":
        return "MQ %d %s %s %s %s" % (m[1], b2c(m[2]), coq_verdict(m[3]), b2c(m[4]), b2c(m[5]))
    if k == "MP":
        return "MP %d %d %d %s %s" % (m[1], m[2], m[3], b2c(m[4]), coq_verdict(m[5]))
    if k == "MB":
        return "MB %d %d" % (m[1], m[2])
    if k in ("MD", "MC"):
        return "%s %d %s %d" % (k, m[1], b2c(m[2]), m[3])
    if k == "ME":
        return "ME %d" % m[1]
    if k == "MS":
        return "MS %d %s %s" % (m[1], b2c(m[2]), b2c(m[3]))
    if k == "MCmd":
        c = m[2]
        cmd = "(CRole %s %s)" % (c[1], b2c(c[2])) if isinstance(c, tuple) and c[0] == "CRole" else "COther"
        return "MCmd %d %s %s %s" % (m[1], cmd, b2c(m[3]), b2c(m[4]))
    return "MH %d %s" % (m[1], b2c(m[2]))


def coq_cfg(c):
    return "(mkCfg %s %s %s %s)" % (b2c(c["parser_on"]), b2c(c["plugins_on"]), b2c(c["ps_on"]), b2c(c["txn_mode"]))


def ev_json(e):
    """parsed Coq event -> JSON-able dict (the format the wire harness' observations are mapped to)"""
    if e == "EvCheckout":
        return {"ev": "checkout"}
    if e == "EvRelease":
        return {"ev": "release"}
    if e == "EvEnd":
        return {"ev": "end"}
    if e == "EvCmd":
        return {"ev": "command"}
    if e[0] == "EvIntercept":
        return {"ev": "intercept", "t": e[1]}
    if e[0] == "EvErr":
        k = e[1]
        return {"ev": "error", "kind": "pool"} if k == "EPool" else ({"ev": "error", "kind": "unknown_stmt"} if k == "EUnknownStmt" else {"ev": "error", "kind": "plugin", "t": k[1]})
    items = []
    for it in e[1]:
        m = it[1]
        items.append({"k": "client" if it[0] == "FMsg" else "pgcat_parse", "code": MSG_CODE[m[0]], "id": m[1]})
    return {"ev": "forward", "items": items}


SQL_OF = {"Allow": "SELECT %d", "Deny": "SELECT %d FROM secret", "Intercept": "select %d as intercepted"}


def wire_script(cfg, ops):
    """Rendering of an abstract sequence for the wire harness: pool settings and one wire message per op.
    Allowed text 'SELECT <id>', denied 'SELECT <id> FROM secret' (table_access lists secret), intercepted
    'select <id> as intercepted' (one intercept rule per such id is put into the config), unparsable text
    'SELEC <id>'.  pool_ok=false needs the backend to be unreachable at that point; tx_after=true is obtained
    by sending 'BEGIN; <text>' / a preceding BEGIN (left to the harness: field "tx_after")."""
    rules = {}
    msgs = []
    for m in ops:
        k = m[0]
        if k in ("MQ", "MP"):
            parsed, v = (m[2], m[3]) if k == "MQ" else (m[4], m[5])
            text = (SQL_OF[v[0]] % m[1]) if parsed else "SELEC %d" % m[1]
            if parsed and v[0] == "Intercept":
                rules[str(m[1])] = {"query": text, "schema": [["id", "int4"]], "result": [[str(m[1])]]}
            d = {"code": k[1], "id": m[1], "sql": text}
            if k == "MQ":
                d.update({"pool_ok": m[4], "tx_after": m[5]})
            else:
                d.update({"name": "" if m[2] == 0 else "s%d" % m[2]})
            msgs.append(d)
        elif k == "MB":
            msgs.append({"code": "B", "id": m[1], "stmt": "" if m[2] == 0 else "s%d" % m[2]})
        elif k in ("MD", "MC"):
            msgs.append({"code": k[1], "id": m[1], "target": "S" if m[2] else "P", "name": "" if m[3] == 0 else "s%d" % m[3]})
        elif k == "ME":
            msgs.append({"code": "E", "id": m[1]})
        elif k == "MS":
            msgs.append({"code": "S", "id": m[1], "pool_ok": m[2], "tx_after": m[3]})
        elif k == "MCmd":
            msgs.append({"code": "Q", "id": m[1], "sql": cmd_text(None, m), "custom_command": True})
        else:
            msgs.append({"code": "H", "id": m[1], "pool_ok": m[2]})
    pool = {"query_parser_enabled": cfg["parser_on"], "prepared_statements_cache_size": 500 if cfg["ps_on"] else 0,
            "pool_mode": "transaction" if cfg["txn_mode"] else "session",
            "plugins": ({"table_access": {"enabled": True, "tables": ["secret"]}, "intercept": {"enabled": True, "queries": rules}} if cfg["plugins_on"] else None)}
    return {"pool": pool, "messages": msgs}


A, T, F = ("Allow",), True, False
STD = {"parser_on": T, "plugins_on": T, "ps_on": F, "txn_mode": T}
PSC = dict(STD, ps_on=T)
# boundary sequences, always first: the repaired overwrite, every position of a rejected Parse in a batch, Q inside a
# transaction, pending verdict consumed by a Q, the repaired prepared-statement replay and stale-Intercept sequences
FIXED = [
    (STD, [("MP", 1, 0, 7, T, ("Deny", 1)), ("MP", 2, 0, 8, T, A), ("MB", 3, 0), ("ME", 4), ("MS", 5, T, F)]),
    (STD, [("MP", 1, 0, 8, T, A), ("MB", 2, 0), ("ME", 3), ("MP", 4, 0, 7, T, ("Deny", 4)), ("MB", 5, 0), ("ME", 6), ("MS", 7, T, F)]),
    (STD, [("MP", 1, 0, 7, T, ("Intercept", 1)), ("MB", 2, 0), ("ME", 3), ("MS", 4, T, F)]),
    (STD, [("MP", 1, 0, 7, T, ("Intercept", 1)), ("MP", 2, 0, 8, T, ("Deny", 2)), ("MB", 3, 0), ("ME", 4), ("MS", 5, T, F)]),
    (STD, [("MQ", 1, T, A, T, T), ("MQ", 2, T, ("Deny", 2), T, T), ("MP", 3, 0, 7, T, ("Deny", 3)), ("MB", 4, 0), ("ME", 5), ("MS", 6, T, T), ("MQ", 7, T, A, T, F)]),
    (STD, [("MP", 1, 0, 7, T, ("Deny", 1)), ("MB", 2, 0), ("ME", 3), ("MQ", 4, T, A, T, F), ("MS", 5, T, F)]),
    (STD, [("MQ", 1, T, A, T, T), ("MP", 2, 0, 7, T, ("Deny", 2)), ("MB", 3, 0), ("MQ", 4, T, A, T, F), ("MS", 5, T, F)]),
    (STD, [("MQ", 1, T, ("Intercept", 1), T, F), ("MQ", 2, T, ("Deny", 2), T, F), ("MQ", 3, F, ("Deny", 3), T, F)]),
    (dict(STD, plugins_on=F), [("MQ", 1, T, ("Deny", 1), T, F), ("MP", 2, 0, 7, T, ("Intercept", 2)), ("MB", 3, 0), ("ME", 4), ("MS", 5, T, F)]),
    (dict(STD, parser_on=F), [("MQ", 1, T, ("Deny", 1), T, F), ("MP", 2, 0, 7, T, ("Deny", 2)), ("MB", 3, 0), ("ME", 4), ("MS", 5, T, F)]),
    (PSC, [("MP", 1, 1, 7, T, ("Deny", 1)), ("MS", 2, T, F), ("MB", 3, 1), ("ME", 4), ("MS", 5, T, F)]),
    (PSC, [("MP", 1, 0, 7, T, ("Deny", 1)), ("MS", 2, T, F), ("MB", 3, 0), ("ME", 4), ("MS", 5, T, F)]),
    (PSC, [("MP", 1, 1, 7, T, ("Deny", 1)), ("MS", 2, T, F), ("MD", 3, T, 1), ("MS", 4, T, F)]),
    (STD, [("MP", 1, 0, 7, T, ("Intercept", 1)), ("MS", 2, F, F), ("MP", 3, 0, 8, T, A), ("MB", 4, 0), ("ME", 5), ("MS", 6, T, F)]),
    # prepared-statement caching: cache hit (ParseComplete synthesised), named Close (CloseComplete synthesised, name forgotten),
    # Bind after Close inside one batch (task ends), Describe of a cached statement on a fresh server
    (PSC, [("MP", 1, 1, 7, T, A), ("MS", 2, T, F), ("MP", 3, 2, 7, T, A), ("MB", 4, 2), ("ME", 5), ("MS", 6, T, F)]),
    (PSC, [("MP", 1, 1, 7, T, A), ("MS", 2, T, F), ("MC", 3, T, 1), ("MS", 4, T, F), ("MB", 5, 1)]),
    (PSC, [("MP", 1, 1, 7, T, A), ("MB", 2, 1), ("MC", 3, T, 1), ("MB", 4, 1), ("ME", 5), ("MS", 6, T, F)]),
    (PSC, [("MP", 1, 1, 7, T, A), ("MC", 2, T, 1), ("MC", 3, F, 1), ("MC", 4, T, 0), ("MS", 5, T, F)]),
    (PSC, [("MP", 1, 1, 7, T, A), ("MD", 2, T, 1), ("MD", 3, F, 0), ("MS", 4, T, F)]),
    # 80b6794 / f56a2eb / 0acefb2: Close forgets the name when it arrives, a Bind keeps the statement its name meant when it
    # arrived, a name re-used by a rejected Parse is forgotten with the batch
    (PSC, [("MP", 1, 1, 7, T, A), ("MS", 2, T, F), ("MC", 3, T, 1), ("MP", 4, 1, 8, T, A), ("MB", 5, 1), ("ME", 6), ("MS", 7, T, F)]),
    (PSC, [("MP", 1, 1, 7, T, A), ("MS", 2, T, F), ("MB", 3, 1), ("MC", 4, T, 1), ("MP", 5, 1, 8, T, A), ("ME", 6), ("MS", 7, T, F)]),
    (PSC, [("MP", 1, 1, 7, T, A), ("MC", 2, T, 1), ("MB", 3, 1)]),
    (PSC, [("MP", 1, 1, 7, T, A), ("MS", 2, T, F), ("MP", 3, 1, 8, T, ("Deny", 3)), ("MS", 4, T, F), ("MB", 5, 1)]),
    (PSC, [("MP", 1, 1, 7, T, ("Intercept", 1)), ("MB", 2, 1), ("ME", 3), ("MS", 4, T, F), ("MD", 5, T, 1)]),
    (PSC, [("MP", 1, 1, 7, T, ("Deny", 1)), ("MP", 2, 2, 8, T, A), ("MS", 3, T, F), ("MB", 4, 2)]),
    (dict(STD, txn_mode=F), [("MQ", 1, T, A, T, F), ("MP", 2, 1, 7, T, ("Deny", 2)), ("MS", 3, T, F), ("MQ", 4, T, ("Intercept", 4), T, F), ("MH", 5, T), ("MQ", 6, T, A, T, F)]),
]


def sequences_with_expected(rng, n, tag="seq"):
    """dicts {cfg, ops, wire, expected_events}: the boundary sequences FIXED, then n random ones; expected events
    computed by the Coq model (vm_compute)."""
    seqs = [(dict(c), list(o)) for c, o in FIXED] + [gen_sequence(rng) for _ in range(n)]
    exprs = ["trace %s [%s]" % (coq_cfg(c), "; ".join(coq_msg(m) for m in ops)) for c, ops in seqs]
    vals = vlib.coq_eval("c19_" + tag, PRE, exprs, shard=40)
    out = []
    for (c, ops), v in zip(seqs, vals):
        evs = pcoq(v)
        out.append({"cfg": c, "ops": [list(m[:3]) + [list(x) if isinstance(x, tuple) else x for x in m[3:]] for m in ops], "_ops": ops,
                    "wire": wire_script(c, ops), "expected_events": [ev_json(e) for e in evs]})
    return out


def bad_op(cfg, m):
    if m[0] == "MQ":
        p, v = m[2], m[3]
    elif m[0] == "MP":
        p, v = m[4], m[5]
    else:
        return False
    return cfg["parser_on"] and cfg["plugins_on"] and p and v[0] != "Allow"


def check_sequences(run, n, st):
    """the model's own traces against the property, stated on the trace alone (Python monitor).  This does not
    involve client.rs; it keeps the generator, the JSON format and the theorem's reading in step until the wire
    harness consumes sequences_with_expected()."""
    seqs = sequences_with_expected(run.rng, n)
    for s in seqs:
        cfg, ops = s["cfg"], s["_ops"]
        byid = {m[1]: m for m in ops}
        st["seq"] += 1
        for e in s["expected_events"]:
            st["seq_events"][e["ev"]] = st["seq_events"].get(e["ev"], 0) + 1
            if e["ev"] != "forward":
                continue
            for it in e["items"]:
                if bad_op(cfg, byid[it["id"]]):
                    run.violation("proof-broken", "the Coq model forwards a rejected message: %s" % json.dumps(s["ops"]),
                                  {"theorem": "c19_enforced", "input": {"cfg": cfg, "ops": s["ops"]}, "model": s["expected_events"]}, found_input=False)
                    return len(seqs)
    st["seq_sample"] = {k: seqs[0][k] for k in ("cfg", "ops", "wire", "expected_events")} if seqs else None
    return len(seqs)


# ----------------------------------------------------------------------------- wire: the machine vs the real client.rs
WPRE = PRE + """
Definition cur_tx (s : state) : bool := if held s then stx s else false.
(* texts that cannot steer the mock backend's transaction state get the current state as tx_after *)
(* [keep]: ids of Syncs whose batch is BEGIN / COMMIT sent over the extended protocol: they keep their tx_after *)
Definition norm_msg (keep : list nat) (s : state) (m : msg) : msg :=
  match m with
  | MS i p _ => if existsb (Nat.eqb i) keep then m else MS i p (cur_tx s)
  | MQ i parsed v p tx => if parsed && is_allow v then m else MQ i parsed v p (cur_tx s)
  | MCmd i cmd p tx => MCmd i cmd p (cur_tx s)
  | _ => m
  end.
Fixpoint wrun (keep : list nat) (c : cfg) (s : state) (ops : list msg) : list (msg * bool * bool * list event) :=
  match ops with
  | [] => []
  | m :: r => let m' := norm_msg keep s m in let '(s', ev) := step c s m' in (m', held s, cur_tx s, ev) :: wrun keep c s' r
  end."""


def ext_txn(nid, begin, name=0):
    """BEGIN / COMMIT over the extended protocol: Parse, Bind, Execute, Sync with ids nid..nid+3.
    Returns (ops, text override for the Parse's key, id of the Sync that keeps its tx_after)."""
    ops = [("MP", nid, name, nid, True, ("Allow",)), ("MB", nid + 1, name), ("ME", nid + 2), ("MS", nid + 3, True, begin)]
    return ops, {nid: ("BEGIN /*c19:%d*/" if begin else "COMMIT /*c19:%d*/") % nid}, nid + 3


def followers(nid, in_txn, order, name=0):
    """one more extended batch and one more simple query (both allowed) on the same connection"""
    batch = [("MP", nid, name, nid, True, ("Allow",)), ("MB", nid + 1, name), ("ME", nid + 2), ("MS", nid + 3, True, in_txn)]
    q = [("MQ", nid + 4, True, ("Allow",), True, in_txn)]
    return (batch + q) if order == 0 else (q + batch)


def command_sequences():
    """every SET SERVER ROLE value, SET PRIMARY READS and SET SHARD at every position relative to a denied / intercepted
    statement (simple and extended; before it, inside the batch, after it), outside a transaction (the command is executed
    by pgcat and changes the session's parser override), inside one (the text is an ordinary query there) and with the pool's
    parser off and inherited plugins ('auto' switches the session's parser - and with it the plugins - on); followers, then
    SET SERVER ROLE TO 'default' and followers again."""
    out = []
    cmds = [("role", r) for r in sorted(ROLES)] + [("other", "SET PRIMARY READS TO 'on'"), ("other", "SET SHARD TO '0'")]
    for ctx in ("outer", "txn_q", "parser_off"):
        for kind, arg in cmds:
            for vk in ("Deny", "Intercept"):
                for form, positions in (("Q", ("before", "after")), ("batch", ("before", "inside", "after"))):
                    for pos in positions:
                        cfg = {"parser_on": ctx != "parser_off", "plugins_on": True, "ps_on": False, "txn_mode": True}
                        ops, nid, in_txn = [], 1, False
                        if ctx == "txn_q":
                            ops.append(("MQ", nid, True, ("Allow",), True, True)); nid += 1; in_txn = True

                        def command():
                            return cmd_role(nid, arg, in_txn) if kind == "role" else cmd_other(nid, arg, in_txn)
                        if pos == "before":
                            ops.append(command()); nid += 1
                        if form == "Q":
                            ops.append(("MQ", nid, True, (vk, nid), True, in_txn)); nid += 1
                        else:
                            v = (vk, nid)
                            ops += [("MP", nid, 0, nid, True, v), ("MB", nid + 1, 0), ("ME", nid + 2)]; nid += 3
                            if pos == "inside":
                                ops.append(command()); nid += 1
                            ops.append(("MS", nid, True, in_txn)); nid += 1
                        if pos == "after":
                            ops.append(command()); nid += 1
                        # the same rejected statement again, now behind the command, then allowed followers
                        ops.append(("MQ", nid, True, (vk, nid), True, in_txn)); nid += 1
                        ops += followers(nid, in_txn, 0); nid += 5
                        ops.append(cmd_role(nid, "RDefault", in_txn)); nid += 1
                        ops.append(("MQ", nid, True, (vk, nid), True, in_txn)); nid += 1
                        ops += followers(nid, in_txn, 1); nid += 5
                        if in_txn:
                            ops.append(("MQ", nid, True, ("Allow",), True, False)); nid += 1
                        out.append((cfg, ops, {}))
    return out


def product_sequences():
    """every verdict kind x {outer loop, transaction loop entered by a simple BEGIN, by an extended BEGIN, session mode}
    x {simple Q, extended batch} x caching off/on, each FOLLOWED (both orders) by an allowed extended batch and an allowed
    simple query on the same connection, then the transaction is closed.  What a dropped batch leaves behind can only
    show up in the followers."""
    out = []
    for ps in (False, True):
        for ctx in ("outer", "txn_q", "txn_ext", "session"):
            if ps and ctx == "session":
                continue            # caching needs transaction mode
            for vk in ("Allow", "Deny", "Intercept"):
                for form in ("Q", "batch"):
                    for order in (0, 1):
                        cfg = {"parser_on": True, "plugins_on": True, "ps_on": ps, "txn_mode": ctx != "session"}
                        ops, texts, keep, nid = [], {}, [], 1
                        in_txn = False
                        if ctx == "txn_q":
                            ops.append(("MQ", nid, True, ("Allow",), True, True)); nid += 1; in_txn = True
                        elif ctx == "txn_ext":
                            o, t, k = ext_txn(nid, True); ops += o; texts.update(t); keep.append(k); nid += 4; in_txn = True
                        elif ctx == "session":
                            ops.append(("MQ", nid, True, ("Allow",), True, False)); nid += 1
                        v = ("Allow",) if vk == "Allow" else (vk, nid)
                        name = 1 if ps else 0
                        if form == "Q":
                            ops.append(("MQ", nid, True, v, True, in_txn)); nid += 1
                        else:
                            ops += [("MP", nid, name, nid, True, v), ("MB", nid + 1, name), ("ME", nid + 2), ("MS", nid + 3, True, in_txn)]; nid += 4
                        ops += followers(nid, in_txn, order, name); nid += 5
                        # a second rejected batch right behind the first, then followers again
                        if vk != "Allow" and form == "batch":
                            ops += [("MP", nid, name, nid, True, (vk, nid)), ("MS", nid + 1, True, in_txn)]; nid += 2
                            ops += followers(nid, in_txn, 1 - order, name); nid += 5
                        if in_txn:
                            if ctx == "txn_ext":
                                o, t, k = ext_txn(nid, False); ops += o; texts.update(t); keep.append(k); nid += 4
                            else:
                                ops.append(("MQ", nid, True, ("Allow",), True, False)); nid += 1
                        out.append((cfg, ops, {"texts": texts, "keep": keep}))
    return out


def gen_wire_sequence(rng, maxlen=9):
    """like gen_sequence, but realisable on the wire: a repeated statement text (same key) carries the verdict of its
    first occurrence; checkouts fail rarely (each costs a connect_timeout)."""
    cfg, ops = gen_sequence(rng, maxlen)
    out, parses = [], []
    for m in ops:
        if m[0] == "MP":
            if parses and rng.random() < 0.3:
                o = rng.choice(parses)
                m = ("MP", m[1], m[2], o[3], o[4], o[5])
            else:
                m = ("MP", m[1], m[2], m[1], m[4], m[5])
                parses.append(m)
        elif m[0] == "MQ":
            m = ("MQ", m[1], m[2], m[3], m[4] or rng.random() < 0.5, m[5])
        elif m[0] == "MS":
            m = ("MS", m[1], m[2] or rng.random() < 0.5, m[3])
        elif m[0] == "MH":
            m = ("MH", m[1], True)
        out.append(m)
    if cfg["ps_on"]:
        # (the mock backend answers a custom command's text with a syntax error; see below: no commands where they could
        #  reach the server inside a transaction)
        keep, maybe_txn = [], False
        for m in out:
            if m[0] == "MQ" and m[2] and m[3] == ("Allow",):
                maybe_txn = m[5]
            if m[0] == "MCmd" and maybe_txn:
                continue
            keep.append(m)
        out = keep
    if cfg["ps_on"]:
        # With caching on, an ErrorResponse from the server makes Server::recv drop the statement it is registering from
        # its cache (C08's subject, not modelled here): keep the server error-free - no Execute / Describe-portal without
        # a Bind since the last Sync / Query.
        keep, bound = [], False
        for m in out:
            if m[0] in ("MS", "MQ", "MCmd"):
                bound = False
            elif m[0] == "MB":
                bound = True
            elif (m[0] == "ME" or (m[0] == "MD" and not m[2])) and not bound:
                continue
            keep.append(m)
        out = keep or [("MS", 1, True, False)]
    # transaction control over the extended protocol right after a Sync (the batch is then exactly P B E S), and always
    # one more allowed batch and one more allowed query at the end: leftovers of a dropped batch show up there
    nid = max(m[1] for m in out) + 1
    texts, keepids, res, tx = {}, [], [], False
    for m in out:
        res.append(m)
        if m[0] == "MS" and rng.random() < 0.25:
            begin = rng.random() < 0.6
            o, t, k = ext_txn(nid, begin); res += o; texts.update(t); keepids.append(k); nid += 4
    if cfg["ps_on"]:        # extended BEGIN batches may leave a transaction open: no command behind them
        seen_begin = False
        res2 = []
        for m in res:
            seen_begin = seen_begin or (m[0] == "MS" and m[1] in keepids and m[3])
            if m[0] == "MCmd" and seen_begin:
                continue
            res2.append(m)
        res = res2
    for m in res:
        if m[0] == "MCmd":
            texts[("cmd", m[1])] = cmd_text(rng, m)
    res += followers(nid, rng.random() < 0.3, rng.randint(0, 1))
    return cfg, res, {"texts": texts, "keep": keepids}


def wire_text(kind_id, parsed, v, want_tx=None, cur_tx=False):
    if not parsed:
        return "SELECT %d FROM ONLY public.%s%d" % (kind_id, "secret" if v[0] == "Deny" else "t", kind_id)     # sqlparser rejects it
    if v[0] == "Deny":
        return "SELECT %d FROM secret%d" % (v[1], v[1])
    if v[0] == "Intercept":
        # every other intercepted text names a table that the same section lists (intercept is consulted first)
        return ("select %d as intercepted" % v[1]) if v[1] % 2 else ("select %d as intercepted from secret%d" % (v[1], v[1]))
    if want_tx is None or want_tx == cur_tx:
        # allowed statements come in two kinds: plain, and on a table that only the DECOY plugins section lists
        return ("SELECT %d" if kind_id % 2 else "SELECT %d FROM gonly%d") % ((kind_id,) if kind_id % 2 else (kind_id, kind_id))
    return ("BEGIN /*c19:%d*/" if want_tx else "COMMIT /*c19:%d*/") % kind_id


GON = 1000        # tags of verdicts earned from the decoy section


def base_texts(ops, overrides):
    """the text every Q (by id) / P (by statement key) carries when it does not have to steer the transaction state"""
    t = {}
    for m in ops:
        if m[0] == "MQ":
            t[("Q", m[1])] = wire_text(m[1], m[2], m[3])
        elif m[0] == "MP":
            t[("P", m[3])] = (overrides or {}).get(m[3]) or wire_text(m[3], m[4], m[5])
        elif m[0] == "MCmd":
            t[("Q", m[1])] = (overrides or {}).get(("cmd", m[1])) or cmd_text(None, m)
    return t


def plugin_sections(mode, ops):
    """(global, pool db, pool db2) plugin sections for a configuration mode.  REAL lists what the sequence's intended verdicts
    need (secret<id>, 'select <id> as intercepted'); DECOY lists other tables and intercepts the plain allowed texts."""
    ids = sorted({m[1] for m in ops} | {m[3] for m in ops if m[0] == "MP"})
    icpt = sorted({v[1] for m in ops for v in [m[3] if m[0] == "MQ" else (m[5] if m[0] == "MP" else ("Allow",))] if v[0] == "Intercept"})
    # (lists are deliberately not sorted)
    real = {"ta": (True, ["secret%d" % i for i in reversed(ids)]),
            "ic": (True, {str(t): (wire_text(t, True, ("Intercept", t)), t) for t in icpt}) if icpt else None}
    decoy = {"ta": (True, ["gonly%d" % i for i in ids[1::2] + ids[0::2]]), "ic": (True, {"g%d" % k: ("SELECT %d" % k, GON + k) for k in ids if k % 2})}
    if not decoy["ic"][1]:
        decoy["ic"] = None
    off = lambda sec: {"ta": (False, sec["ta"][1]), "ic": (False, sec["ic"][1]) if sec["ic"] else None}
    return {"none": (None, None, None), "pool": (None, real, None), "global": (real, None, None), "both": (decoy, real, None),
            "both_pool_off": (real, off(real), None), "two_pools": (decoy, real, None), "two_pools_off": (decoy, real, off(decoy)),
            "global_off_pool_on": (off(real), real, None)}[mode]


def coq_section(sec):
    if sec is None:
        return "None"
    ta, ic = sec["ta"], sec["ic"]
    rules = "; ".join("mkRule %s [[%s; %s]] [[%s]]" % (vlib.coq_bytes(q.encode()), vlib.coq_bytes(b"id"), vlib.coq_bytes(b"int4"), vlib.coq_bytes(str(val).encode()))
                      for _, (q, val) in sorted(ic[1].items())) if ic else ""
    return "(Some (mkPcfg %s %s [%s] %s %s %s))" % (b2c(bool(ic)), b2c(bool(ic and ic[0])), rules, b2c(bool(ta)), b2c(bool(ta and ta[0])),
                                                  coq_blist([t.encode() for t in ta[1]]) if ta else "[]")


def toml_section(sec):
    if sec is None:
        return None
    out = "[plugins]\n"
    if sec["ta"]:
        out += "[plugins.table_access]\nenabled = %s\ntables = [%s]\n" % (b2c(sec["ta"][0]), ", ".join('"%s"' % t for t in sec["ta"][1]))
    if sec["ic"]:
        out += "[plugins.intercept]\nenabled = %s\n" % b2c(sec["ic"][0])
        for k, (q, val) in sorted(sec["ic"][1].items()):
            out += '[plugins.intercept.queries.%s]\nquery = "%s"\nschema = [["id", "int4"]]\nresult = [["%d"]]\n' % (k, q, val)
    return out


def eff_of(summary):
    """parsed Coq [plugins_summary]: None | (table_access on, tables, intercept on, rule queries)"""
    if summary is None:
        return None
    ta_on, tables, ic_on, queries = summary[1]
    return (ta_on, {bytes(t) for t in tables}, ic_on, {bytes(bytes(q).lower()) for q in queries})


def oracle(text, eff):
    """verdict of one of OUR texts under the effective section (intercept first, then table_access, as execute_plugins)"""
    if eff is None:
        return ("Allow",)
    ta_on, tables, ic_on, queries = eff
    if ic_on and text.lower().encode() in queries:
        k = int(re.search(r"\d+", text).group())
        return ("Intercept", k if " as intercepted" in text else GON + k)
    m = re.search(r"FROM (secret|gonly)(\d+)$", text)
    if ta_on and m and (m.group(1) + m.group(2)).encode() in tables:
        return ("Deny", int(m.group(2)) + (GON if m.group(1) == "gonly" else 0))
    return ("Allow",)


def msg_tuple(pm):
    """parsed Coq msg -> python tuple like the generator's"""
    def vd(x):
        return ("Allow",) if x == "Allow" else (x[0], x[1])
    k = pm[0]
    if k == "MQ":
        return ("MQ", pm[1], pm[2], vd(pm[3]), pm[4], pm[5])
    if k == "MP":
        return ("MP", pm[1], pm[2], pm[3], pm[4], vd(pm[5]))
    return tuple(pm)


def build_wire_scenario(cfg, rows, prep):
    """rows: [(msg, held_before, cur_tx_before, events)] from the Coq model; prep: the sequence's texts, plugin sections and
    effective sections (prepare_wire).  Returns (scenario, expectations)."""
    from props import wirelib as W
    base, (gsec, psec, psec2) = prep["base"], prep["sections"]
    text_of = {}
    for m, held, cur, evs in rows:
        if m[0] == "MQ":
            t = base[("Q", m[1])]
            if m[2] and m[3] == ("Allow",) and m[5] != cur:        # an allowed query may steer the transaction state
                t = wire_text(m[1], True, ("Allow",), m[5], cur)
            text_of[("Q", m[1])] = t
        elif m[0] == "MP":
            text_of[("P", m[1])] = base[("P", m[3])]               # keyed by statement identity
        elif m[0] == "MCmd":
            text_of[("Q", m[1])] = base[("Q", m[1])]
    two = prep["mode"].startswith("two_pools")
    pools = {"db": {"opts": {"query_parser_enabled": cfg["parser_on"], "prepared_statements_cache_size": 500 if cfg["ps_on"] else 0,
                             "pool_mode": "transaction" if cfg["txn_mode"] else "session"},
                    "plugins": toml_section(psec), "users": [{"username": "u", "password": "pw", "pool_size": 1}],
                    "shards": [{"database": "db0", "servers": [["b0", "primary"]]}]}}
    if two:
        pools["db2"] = {"opts": {"query_parser_enabled": True}, "plugins": toml_section(psec2), "users": [{"username": "u", "password": "pw", "pool_size": 1}],
                        "shards": [{"database": "db1", "servers": [["b0", "primary"]]}]}
    toml = W.make_toml(general={"connect_timeout": 300}, plugins=toml_section(gsec), pools=pools)
    steps = [{"op": "connect", "c": "a", "params": {"user": "u", "database": "db"}, "password": "pw", "timeout_ms": 1500}]
    nhold = 0
    exp_backend, exp_client, ours, reply_ops = [], [], set(text_of.values()), []
    nm = lambda n: "" if n == 0 else "s%d" % n
    ended = False
    for m, held, cur, evs in rows:
        k = m[0]
        if k in ("MQ", "MCmd"):
            wm = {"t": "Q", "sql": text_of[("Q", m[1])]}
        elif k == "MP":
            wm = {"t": "P", "name": nm(m[2]), "sql": text_of[("P", m[1])], "types": []}
        elif k == "MB":
            wm = {"t": "B", "portal": "", "name": nm(m[2]), "fmts": [], "params": [], "rfmts": []}
        elif k in ("MD", "MC"):
            wm = {"t": k[1], "kind": "S" if m[2] else "P", "name": nm(m[3])}
        elif k == "ME":
            wm = {"t": "E", "portal": "", "max": 0}
        elif k == "MS":
            wm = {"t": "S"}
        else:
            wm = {"t": "H"}
        block = (k in ("MQ", "MS", "MH", "MCmd")) and not held and not pool_ok(m)
        if block:       # exhaust the pool: a fresh client takes the only server into a transaction (and leaves afterwards:
                        # in session mode it would keep the server for good)
            nhold += 1
            h = "h%d" % nhold
            steps += [{"op": "connect", "c": h, "params": {"user": "u", "database": "db"}, "password": "pw", "timeout_ms": 1500},
                      {"op": "send", "c": h, "msgs": [{"t": "Q", "sql": "BEGIN /*c19:holder*/"}]}, {"op": "recv", "c": h, "until": "Z", "timeout_ms": 1500, "label": "hold"}]
        steps.append({"op": "send", "c": "a", "msgs": [wm]})
        group = None
        for e in evs:
            j = ev_json(e)
            if j["ev"] == "error":
                group = ("plugin_error", j["t"]) if j["kind"] == "plugin" else (j["kind"] + "_error",)
            elif j["ev"] == "intercept":
                group = ("intercept", j["t"])
            elif j["ev"] == "command":
                group = ("other",)          # CommandComplete / a row from pgcat itself, nothing forwarded
            elif j["ev"] == "end":
                ended = True
            elif j["ev"] == "forward":
                for it in e[1]:
                    fm = it[1]
                    code = MSG_CODE[fm[0]]
                    if it[0] == "FParse":
                        exp_backend += [("P", text_of[("P", fm[1])]), ("S",)]
                    elif code in ("Q", "P"):
                        exp_backend.append((code, text_of[(code, fm[1])]))
                    else:
                        exp_backend.append((code,))
                    if it[0] == "FMsg" and code in ("Q", "S"):
                        group = group or ("other",)
        if k == "MS" and group is None and not ended:
            group = ("other",)          # nothing left to send: ParseComplete/CloseComplete/ReadyForQuery synthesised
        has_reply = bool(group and not (ended and group == ("other",)))
        reply_ops.append(has_reply)
        if has_reply:
            exp_client.append(group)
            steps.append({"op": "recv", "c": "a", "until": "Z", "timeout_ms": 2500})
        if block:
            steps += [{"op": "send", "c": h, "msgs": [{"t": "Q", "sql": "COMMIT /*c19:holder*/"}]}, {"op": "recv", "c": h, "until": "Z", "timeout_ms": 1500, "label": "unhold"},
                      {"op": "send", "c": h, "msgs": [{"t": "X"}]}, {"op": "close", "c": h}, {"op": "sleep", "ms": 40}]
        if ended:
            break
    if not ended:
        steps.append({"op": "recv", "c": "a", "until": "Z", "timeout_ms": 150, "label": "drain"})
    exp_b = []
    if two:
        # a client of the OTHER pool: the same texts under that pool's effective section
        k0 = min(m[1] for m, _, _, _ in rows)
        steps.append({"op": "connect", "c": "b", "params": {"user": "u", "database": "db2"}, "password": "pw", "timeout_ms": 1500})
        for t in prep["texts2"]:
            v = prep["verdict2"][t]
            ours.add(t)
            steps += [{"op": "send", "c": "b", "msgs": [{"t": "Q", "sql": t}]}, {"op": "recv", "c": "b", "until": "Z", "timeout_ms": 2500}]
            if v[0] == "Allow":
                exp_backend.append(("Q", t)); exp_b.append(("other",))
            else:
                exp_b.append(("plugin_error" if v[0] == "Deny" else "intercept", v[1]))
    return ({"backends": [{"name": "b0"}], "toml": toml, "steps": steps},
            {"backend": exp_backend, "client": exp_client, "client_b": exp_b, "texts": ours, "ended": ended, "reply_ops": reply_ops,
             "rejected_texts": {t for t in ours if prep["verdict"].get(t, ("Allow",)) != ("Allow",)}})


def pool_ok(m):
    return m[4] if m[0] == "MQ" else (m[3] if m[0] == "MCmd" else (m[2] if m[0] in ("MS", "MH") else True))


def observe_wire(res, texts, client="a"):
    """(backend messages of the client's texts in order, client reply groups in order, holder ok)"""
    back, frames, hold_ok = [], [], True
    for e in res.get("events", []):
        if e.get("ev") == "msg" and e.get("who") == "b0":
            t, d = e["tag"], e.get("detail", {})
            if t in ("Q", "P"):
                if d.get("sql") in texts:
                    back.append((t, d["sql"]))
            elif t in ("B", "E", "D", "C", "S", "H"):
                back.append((t,))
        elif e.get("ev") == "recv" and e.get("who") == client:
            frames.extend(e["frames"])
        elif e.get("ev") == "recv" and str(e.get("who", "")).startswith("h") and e.get("outcome") != "ok":
            hold_ok = False
    groups, cur = [], []
    for f in frames:
        cur.append(f)
        if f.get("t") == "Z":
            groups.append(cur); cur = []
    out = []
    for g in groups:
        cls = ("other",)
        for f in g:
            if f.get("t") == "E" and f.get("fields", {}).get("C") == "58000":
                msg = f["fields"].get("M", "")
                m = re.match(r'^permission for table "(secret|gonly)(\d+)" denied$', msg)
                if m:
                    cls = ("plugin_error", int(m.group(2)) + (GON if m.group(1) == "gonly" else 0))
                elif msg.startswith("could not get connection from the pool"):
                    cls = ("pool_error",)
                elif re.match(r'^prepared statement ".*" does not exist$', msg):
                    cls = ("unknown_stmt_error",)
        ts = [f.get("t") for f in g]
        if ts == ["T", "D", "C", "Z"] and g[0].get("names") == ["id"] and g[2].get("tag") == "SELECT":
            cls = ("intercept", int(g[1]["cols"][0]))
        out.append(cls)
    return back, out, hold_ok, cur


MODES_ON = ["pool", "global", "both", "two_pools", "global_off_pool_on", "two_pools_off", "both_pool_off"]
MODES_OFF = ["none", "both_pool_off"]


def second_pool_texts(ops):
    k0 = min(m[1] for m in ops)
    return ["SELECT %d FROM gonly%d" % (k0, k0), "SELECT %d FROM secret%d" % (k0, k0), "SELECT %d" % (k0 | 1), "select %d as intercepted" % (k0 | 1),
            "select %d as intercepted from secret%d" % (k0 & ~1 or 2, k0 & ~1 or 2)]


def tag_of(text, kind):
    """abstract verdict for one of OUR texts given the kind the Coq execute_plugins computed"""
    if kind == 0:
        return ("Allow",)
    k = int(re.search(r"\d+", text).group())
    if kind == 2:
        return ("Intercept", k if " as intercepted" in text else GON + k)
    m = re.search(r"FROM (secret|gonly)(\d+)$", text, re.I)
    return ("Deny", int(m.group(2)) + (GON if m.group(1).lower() == "gonly" else 0)) if m else ("Deny", k)


def prepare_wire(seqs, plugins_bin):
    """configuration dimension: which plugins sections exist (global / pool / both / second pool), and - by the Coq
    definition [effective_plugins] - which one is in force for each pool; the verdict of every text is then the Coq
    [execute_plugins] on what the real sqlparser shows of that text (rendering, relations)."""
    preps = []
    for i, (c, ops, x) in enumerate(seqs):
        if x.get("mode"):
            mode = x["mode"]
        elif not c["parser_on"]:
            mode = "global" if c["plugins_on"] else "none"     # a pool-level section is refused when the pool's parser is off
        else:
            mode = MODES_ON[i % len(MODES_ON)] if c["plugins_on"] else MODES_OFF[i % len(MODES_OFF)]
        base = base_texts(ops, x.get("texts"))
        preps.append({"mode": mode, "sections": plugin_sections(mode, ops), "base": base,
                      "texts": sorted(set(base.values())), "texts2": second_pool_texts(ops) if mode.startswith("two_pools") else []})
    # what sqlparser shows of every distinct text (no plugins involved)
    alltexts = sorted({t for p in preps for t in p["texts"] + p["texts2"]})
    shown = {}
    res = RL.run_router(plugins_bin, [{"settings": {"parser": True, "plugins": None}, "steps": [{"proto": "Q", "sql": t}]} for t in alltexts])
    for t, r in zip(alltexts, res):
        o = r["out"][0]
        shown[t] = ("[" + "; ".join("mkStmt %s %s %s" % (vlib.coq_bytes(bytes.fromhex(z["norm"])), coq_names(names_from_json(z["explicit"])),
                                                        coq_names(names_from_json(z["visited"]))) for z in o["stmts"]) + "]") if o.get("parse") == "ok" else None
    U, D = vlib.coq_bytes(b"u"), vlib.coq_bytes(b"db0")

    def kinds(eff, texts):
        return "[" + "; ".join("pv_kind (execute_plugins %s %s %s %s)" % (eff, U, D, shown[t]) if shown[t] else "0" for t in texts) + "]"
    exprs = ["let e := effective_plugins %s %s in let e2 := effective_plugins %s %s in (plugins_summary e, plugins_summary e2, %s, %s)" %
             (coq_section(p["sections"][0]), coq_section(p["sections"][1]), coq_section(p["sections"][0]), coq_section(p["sections"][2]),
              kinds("e", p["texts"]), kinds("e2", p["texts2"])) for p in preps]
    vals = vlib.coq_eval("c19_wcfg", PRE, exprs, shard=20)
    out = []
    for (c, ops, x), p, v in zip(seqs, preps, vals):
        e1, e2, k1, k2 = pcoq(v)
        p["eff"], p["eff2"] = eff_of(e1), eff_of(e2)
        p["verdict"] = {t: tag_of(t, k) for t, k in zip(p["texts"], k1)}
        p["verdict2"] = {t: tag_of(t, k) for t, k in zip(p["texts2"], k2)}
        # the generator's own reading of the sections (intercept first, then table_access) must agree with the model's
        p["oracle_mismatch"] = [(t, p["verdict"][t], oracle(t, p["eff"])) for t in p["texts"] if shown[t] and p["verdict"][t] != oracle(t, p["eff"])] + \
                               [(t, p["verdict2"][t], oracle(t, p["eff2"])) for t in p["texts2"] if shown[t] and p["verdict2"][t] != oracle(t, p["eff2"])]
        ops2 = []
        for m in ops:
            if m[0] == "MQ" and m[2]:
                m = ("MQ", m[1], m[2], p["verdict"][p["base"][("Q", m[1])]], m[4], m[5])
            elif m[0] == "MP" and m[4]:
                m = ("MP", m[1], m[2], m[3], m[4], p["verdict"][p["base"][("P", m[3])]])
            ops2.append(m)
        out.append((dict(c, plugins_on=p["eff"] is not None), ops2, x, p))
    return out


def py_effective(p, second=False):
    """the section in force for a pool, read off the configuration by the documented precedence (pool section replaces the
    global one, else inherited) - independent of the Coq model; in [oracle]'s format"""
    g, pool, pool2 = p["sections"]
    sec = (pool2 if second else pool)
    sec = sec if sec is not None else g
    if sec is None:
        return None
    ta, ic = sec["ta"], sec["ic"]
    return (bool(ta and ta[0]), {t.encode() for t in ta[1]} if ta else set(), bool(ic and ic[0]),
            {q.lower().encode() for q, _ in ic[1].values()} if ic else set())


def wire_property_failure(c, rows, ex, p, back, groups, groups_b):
    """The property's own statement on what was OBSERVED in one wire scenario, independent of the Coq model: a parsed statement
    that names a listed table / matches an intercept rule (by the section in force for the pool) never reaches the server; a
    rejected simple query is answered with the permission error / exactly the rule's rows; so is an extended batch at its
    Sync (first rejected Parse of the batch).  Returns None or a sentence."""
    if not c["parser_on"]:
        return None
    eff, eff2 = py_effective(p), py_effective(p, True)
    nb = sum(1 for g in ex["client_b"] if g == ("other",))
    for b in back[:len(back) - nb]:
        if len(b) == 2 and oracle(b[1], eff) != ("Allow",):
            return "the server received %s %r, which %s under the plugins section in force" % (
                b[0], b[1], "names a listed table" if oracle(b[1], eff)[0] == "Deny" else "matches an intercept rule")
    if ex["client_b"] and len(groups_b) == len(p["texts2"]):
        for t, g in zip(p["texts2"], groups_b):
            v = oracle(t, eff2)
            want = ("other",) if v == ("Allow",) else (("plugin_error" if v[0] == "Deny" else "intercept"), v[1])
            if (g == ("other",)) != (want == ("other",)) or (want != ("other",) and g != want):
                return "in the second pool %r is answered with %s, the section in force there says %s" % (t, g, want)
    gi, batch = 0, []
    for (m, held, cur, evs), has_reply in zip(rows, ex["reply_ops"]):
        g = None
        if has_reply:
            if gi >= len(groups):
                return None         # replies missing: not a statement about verdicts
            g = groups[gi]; gi += 1
        if m[0] == "MQ" and m[2]:
            v = oracle(p["base"][("Q", m[1])], eff)
            if v != ("Allow",):
                want = ("plugin_error" if v[0] == "Deny" else "intercept", v[1])
                if g != want:
                    return "the simple query %r %s but is answered with %s instead of %s" % (
                        p["base"][("Q", m[1])], "names a listed table" if v[0] == "Deny" else "matches an intercept rule", g, want)
            elif g and g[0] in ("plugin_error", "intercept") and batch:
                batch = []          # an allowed query consumed the pending verdict of the buffered batch
        elif m[0] == "MP":
            batch.append(oracle(p["base"][("P", m[3])], eff) if m[4] else ("Allow",))
        elif m[0] == "MS":
            first = next((v for v in batch if v != ("Allow",)), None)
            if first is not None:
                want = ("plugin_error" if first[0] == "Deny" else "intercept", first[1])
                if g != want:
                    return "the batch ending at Sync %d holds a Parse that %s but is answered with %s instead of %s" % (
                        m[1], "names a listed table" if first[0] == "Deny" else "matches an intercept rule", g, want)
            batch = []
        if any(e == "EvEnd" for e in evs):
            break
    return None


def check_wire(run, n, st):
    """the Coq machine and the real Client::handle on the same message sequences, over the wire"""
    ok, blog, bins = vlib.cargo_build(["wire", "plugins"])
    if not ok:
        run.violation("tie-broken", "wire harness does not build", {"correspondence": "wire harness build", "log": blog[-2000:]}, found_input=False)
        return 0
    from props import wirelib as W
    prod = product_sequences() + command_sequences()
    st["wire_product"] = len(prod)
    seqs = prepare_wire([(dict(c), list(o), {}) for c, o in FIXED] + prod + [gen_wire_sequence(run.rng) for _ in range(n)], bins["plugins"])
    exprs = ["wrun [%s] %s init [%s]" % ("; ".join(str(k) for k in x.get("keep", [])), coq_cfg(c), "; ".join(coq_msg(m) for m in ops)) for c, ops, x, p in seqs]
    vals = vlib.coq_eval("c19_wire", WPRE, exprs, shard=20)
    scns, exps, metas = [], [], []
    for (c, ops, x, p), v in zip(seqs, vals):
        rows = [(msg_tuple(r[0]), r[1], r[2], r[3]) for r in pcoq(v)]
        sc, ex = build_wire_scenario(c, rows, p)
        ex["mode"] = p["mode"]
        ex["prep"] = p
        st["wire_modes"][p["mode"]] = st["wire_modes"].get(p["mode"], 0) + 1
        scns.append(sc); exps.append(ex); metas.append((c, [r[0] for r in rows], rows))
    results = W.run_scenarios(bins["wire"], scns)
    for (c, ops, rows), sc, ex, res in zip(metas, scns, exps, results):
        st["wire"] += 1
        if "harness_error" in res or "start_error" in res:
            run.broken.append("wire harness: %s" % (res.get("harness_error") or res.get("start_error")))
            return len(scns)
        back, groups, hold_ok, rest = observe_wire(res, ex["texts"])
        run.cov["traces_validated_against_impl"] += 1
        st["distinct"].add(("wire", json.dumps(c, sort_keys=True), json.dumps(ops)))
        for g in ex["client"]:
            st["wire_groups"][g[0]] = st["wire_groups"].get(g[0], 0) + 1
        st["wire_forwarded"] += len(ex["backend"])
        # coverage: rejections (by loop) that are followed by a forwarded extended batch / a forwarded query
        def fwd_kinds(evs):
            ks = set()
            for e in evs:
                if e[0] == "EvFwd":
                    ks |= {it[1][0] for it in e[1] if it[0] == "FMsg"}
            return ks
        for i, (m, held, cur, evs) in enumerate(rows):
            if any(e[0] == "EvIntercept" or (e[0] == "EvErr" and isinstance(e[1], tuple) and e[1][0] == "EPlugin") for e in evs if isinstance(e, tuple)):
                later = set()
                for r2 in rows[i + 1:]:
                    later |= fwd_kinds([e for e in r2[3] if isinstance(e, tuple)])
                loop = ("txn" if cur else "held") if held else "outer"
                form = "Q" if m[0] == "MQ" else "batch"
                if "MS" in later and "MQ" in later:
                    key = "%s/%s" % (loop, form)
                    st["wire_followed"][key] = st["wire_followed"].get(key, 0) + 1
        groups_b = observe_wire(res, ex["texts"], client="b")[1] if ex["client_b"] else []
        if back == ex["backend"] and groups == ex["client"] and groups_b == ex["client_b"] and hold_ok and not rest:
            continue
        # a disagreement: is it the reported prepared-statement replay / stale intercept (the model predicts them too, so they
        # cannot show up here), or a rejected text at the server that the model does not predict?
        leaked = [b for b in back if len(b) == 2 and b[1] in ex["rejected_texts"] and b not in ex["backend"]]
        inp = {"cfg": c, "plugins_sections": ex["mode"], "ops": [list(o) for o in ops], "steps": sc["steps"], "toml": sc["toml"]}
        pf = wire_property_failure(c, rows, ex, ex["prep"], back, groups, groups_b)
        if leaked:
            run.violation("counterexample", "a statement the plugins rejected reached the server: %s" % (leaked[0],),
                          {"input": inp, "impl": {"backend": back, "client": groups}, "model": {"backend": ex["backend"], "client": ex["client"]}})
        elif pf:        # the implementation's behaviour on this scenario fails the property text itself
            run.violation("counterexample", "plugins sections %s, messages %s: %s" % (ex["mode"], json.dumps([m["msgs"] for m in sc["steps"] if m.get("op") == "send" and m.get("c") == "a"])[:600], pf),
                          {"input": inp, "impl": {"backend": back, "client": groups, "client_b": groups_b}, "model": {"backend": ex["backend"], "client": ex["client"], "client_b": ex["client_b"]}})
        else:
            run.violation("tie-broken", "Client::handle and the Coq machine disagree (plugins sections: %s; the observed behaviour still satisfies the property) on %s: server saw %s (model %s), client got %s (model %s)%s%s" %
                          (ex["mode"], json.dumps([list(o) for o in ops]), back, ex["backend"], groups, ex["client"],
                           "; client of the second pool got %s (model %s)" % (groups_b, ex["client_b"]) if ex["client_b"] else "",
                           "" if hold_ok else " [pool holder could not get the server]"),
                          {"correspondence": "Plugin/Model.v effective_plugins + step vs from_config + Client::handle (wire)", "input": inp,
                           "impl": {"backend": back, "client": groups, "client_b": groups_b, "rest": rest},
                           "model": {"backend": ex["backend"], "client": ex["client"], "client_b": ex["client_b"]}}, found_input=False)
        return len(scns)
    for (c, ops, x, p) in seqs:
        if p["oracle_mismatch"]:
            t, vm, vo = p["oracle_mismatch"][0]
            run.violation("tie-broken", "Coq execute_plugins judges %r as %s, the generator's reading of the sections (intercept first, then table_access) as %s" % (t, vm, vo),
                          {"correspondence": "Plugin/Model.v execute_plugins vs props/c19.py oracle", "input": {"text": t, "sections": p["mode"]}, "model": str(vm), "oracle": str(vo)},
                          found_input=False)
            return len(scns)
    # model and implementation agree on every scenario.  Now the property itself on what was OBSERVED: a rejected text at
    # the server / rows for a batch that earned none are defects.
    for (c, ops, rows), ex, res in zip(metas, exps, results):
        if not (c["plugins_on"] and c["parser_on"]):
            continue
        back, groups, _, _ = observe_wire(res, ex["texts"])
        for b in back[:len(back) - sum(1 for g in ex["client_b"] if g == ("other",))]:      # the second pool's allowed queries come last
            if len(b) == 2 and b[1] in ex["rejected_texts"]:
                run.violation("counterexample", "a statement the plugins rejected reached the server: %s" % (b,),
                              {"input": {"cfg": c, "ops": [list(o) for o in ops]}, "impl": {"backend": back}})
                return len(scns)
        # rows answered to a batch that holds no intercepted Parse (the batch = the messages buffered since the last Sync /
        # the last consumption of a pending verdict), or to a Query that is not itself intercepted
        gi, batch = 0, []
        for (m, held, cur, evs), has_reply in zip(rows, ex["reply_ops"]):
            g = None
            if has_reply:
                g = groups[gi] if gi < len(groups) else None
                gi += 1
            own = m[0] == "MQ" and m[2] and m[3][0] != "Allow"
            if g and g[0] == "intercept":
                if m[0] == "MQ":
                    earned = m[2] and m[3] == ("Intercept", g[1])
                else:
                    earned = any(x[0] == "MP" and x[4] and x[5] == ("Intercept", g[1]) for x in batch)
                if not earned:     # fixed by a7d476c (was: a failed checkout at Sync kept the Intercept verdict)
                    run.violation("counterexample", "a batch that matches no intercept rule is answered with the rows of rule %d: %s then %s" % (g[1], json.dumps([list(x) for x in batch]), list(m)),
                                  {"input": {"cfg": c, "ops": [list(o) for o in ops]}, "impl": {"client": groups}})
                    return len(scns)
            if m[0] == "MS" or (m[0] == "MQ" and g and g[0] in ("plugin_error", "intercept") and not own):
                batch = []
            elif m[0] in ("MP", "MB", "MD", "ME", "MC"):
                batch.append(m)
    return len(scns)


# ----------------------------------------------------------------------------- wire: a session that lives across a RELOAD
RL_CFGS = {"A": None,
           "B": '[plugins]\n[plugins.table_access]\nenabled = true\ntables = ["zz", "secret", "aa"]\n',
           "C": '[plugins]\n[plugins.table_access]\nenabled = true\ntables = ["other"]\n',
           "D": '[plugins]\n[plugins.table_access]\nenabled = true\ntables = ["secret"]\n[plugins.intercept]\nenabled = true\n'
                '[plugins.intercept.queries.0]\nquery = "select 1 as intercepted from secret"\nschema = [["id", "int4"]]\nresult = [["3"]]\n',
           "E": '[plugins]\n[plugins.table_access]\nenabled = false\ntables = ["secret"]\n'}
RL_TAG = {"secret": 1, "other": 2, "icpt": 3}


def rl_verdict(cfg, what):
    if what == "icpt":
        return ("Intercept", 3) if cfg == "D" else (("Deny", 1) if cfg == "B" else ("Allow",))
    if what == "secret":
        return ("Deny", 1) if cfg in ("B", "D") else ("Allow",)
    if what == "other":
        return ("Deny", 2) if cfg == "C" else ("Allow",)
    return ("Allow",)


def rl_text(i, what):
    return {"secret": "SELECT %d FROM secret", "other": "SELECT %d FROM other", "plain": "SELECT %d", "begin": "BEGIN /*c19:%d*/",
            "commit": "COMMIT /*c19:%d*/"}[what] % i if what != "icpt" else "select 1 as intercepted from secret"


def reload_programs(rng, quick):
    kinds = [("Q", "secret"), ("Q", "other"), ("B", "secret"), ("B", "other"), ("Q", "plain"), ("Q", "begin")]
    out = []
    for old, new in (("A", "B"), ("B", "A"), ("B", "C"), ("C", "B"), ("A", "D"), ("D", "A"), ("B", "E"), ("E", "B")):
        ks = kinds + ([("Q", "icpt"), ("B", "icpt")] if "D" in (old, new) else [])
        progs = [[k] for k in ks] + [[a, b] for a in ks for b in ks]
        progs += [[rng.choice(ks) for _ in range(rng.randint(3, 5))] for _ in range(10 if quick else 150)]
        for pr in progs:
            pr = list(pr)
            if any(k[1] == "begin" for k in pr):
                pr.append(("Q", "commit"))
            out.append((old, new, pr))
    return out


def reload_observe(res, texts):
    """per statement sent after the reload: ('fwd',) | ('deny', table tag) | ('icpt', 3) | ('lost',)"""
    seen = {e["detail"].get("sql") for e in res.get("events", []) if e.get("ev") == "msg" and e.get("tag") in ("Q", "P")}
    groups, cur = [], []
    for e in res.get("events", []):
        if e.get("ev") == "recv" and e.get("who") == "a":
            for f in e["frames"]:
                cur.append(f)
                if f.get("t") == "Z":
                    groups.append(cur); cur = []
    obs = []
    for t, g in zip(texts, groups[1:]):
        err = [f["fields"].get("M", "") for f in g if f.get("t") == "E" and f.get("fields", {}).get("C") == "58000"]
        m = re.match(r'^permission for table "(\w+)" denied$', err[0]) if err else None
        if m:
            obs.append(("deny", RL_TAG.get(m.group(1), 0)))
        elif [f.get("t") for f in g] == ["T", "D", "C", "Z"] and g[0].get("names") == ["id"] and g[1].get("cols") == ["3"]:
            obs.append(("icpt", 3))
        else:
            obs.append(("fwd",) if t in seen else ("lost",))
    return obs


def check_reload(run, st):
    """old session, RELOAD (plugin enabled / disabled / list changed / intercept rule added or removed), then statements from the
    old session (simple, extended, in a new transaction).  Model: coq/Plugin/Model.v section E (settings are refreshed when a
    message arrives, c3cef0c) = the property: every statement is judged by the NEW file.  The cases are the regression inputs
    of C19-reload-stale-settings: the old behaviour is a counterexample."""
    from props import wirelib as W
    ok, blog, bins = vlib.cargo_build(["wire"])
    progs = reload_programs(run.rng, run.tier == "quick")

    def toml(k):
        return W.make_toml(pools={"db": {"opts": {"query_parser_enabled": True}, "plugins": RL_CFGS[k], "users": [{"username": "u", "password": "pw", "pool_size": 1}],
                                         "shards": [{"database": "db0", "servers": [["b0", "primary"]]}]}})
    scns, exprs, metas = [], [], []
    for old, new, pr in progs:
        steps = [{"op": "connect", "c": "a", "params": {"user": "u", "database": "db"}, "password": "pw", "timeout_ms": 1500},
                 {"op": "send", "c": "a", "msgs": [{"t": "Q", "sql": "SELECT 0"}]}, {"op": "recv", "c": "a", "until": "Z", "timeout_ms": 2500},
                 {"op": "write_config", "toml": toml(new)}, {"op": "reload"}]
        rops, texts = [], []
        for i, (form, what) in enumerate(pr, 1):
            t = rl_text(i, what)
            texts.append(t)
            if form == "Q":
                steps.append({"op": "send", "c": "a", "msgs": [{"t": "Q", "sql": t}]})
            else:
                steps.append({"op": "send", "c": "a", "msgs": [{"t": "P", "name": "", "sql": t, "types": []}, {"t": "B", "portal": "", "name": "", "fmts": [], "params": [], "rfmts": []},
                                                                {"t": "E", "portal": "", "max": 0}, {"t": "S"}]})
            steps.append({"op": "recv", "c": "a", "until": "Z", "timeout_ms": 2500})
            rops.append("%s %s %s" % ("RQ" if form == "Q" else "RBatch", coq_verdict(rl_verdict(old, what)), coq_verdict(rl_verdict(new, what))))
        scns.append({"backends": [{"name": "b0"}], "toml": toml(old), "steps": steps})
        exprs.append("rrun true [RReload; %s]" % "; ".join(rops))
        metas.append((old, new, pr, texts))
    vals = vlib.coq_eval("c19_reload", PRE, exprs, shard=60)
    results = W.run_scenarios(bins["wire"], scns)
    n = 0
    for (old, new, pr, texts), v, res, sc in zip(metas, vals, results, scns):
        n += 1
        st["reload"] += 1
        if "harness_error" in res or "start_error" in res:
            run.broken.append("wire harness (reload family): %s" % (res.get("harness_error") or res.get("start_error")))
            return n
        model = [("fwd",) if o == "OFwd" else (("deny", o[1]) if o[0] == "ODeny" else ("icpt", o[1])) for o in pcoq(v)[1:]]
        want = [{"Allow": ("fwd",), "Deny": ("deny",), "Intercept": ("icpt",)}[rl_verdict(new, w)[0]] + tuple(rl_verdict(new, w)[1:]) for _, w in pr]
        obs = reload_observe(res, texts)
        for o in obs:
            st["reload_outcomes"][o[0]] = st["reload_outcomes"].get(o[0], 0) + 1
        run.cov["traces_validated_against_impl"] += 1
        st["distinct"].add(("reload", old, new, json.dumps(pr)))
        inp = {"old_plugins": RL_CFGS[old], "new_plugins": RL_CFGS[new], "statements_after_reload": texts, "forms": [f for f, _ in pr], "steps": sc["steps"], "toml": sc["toml"]}
        if model != want:
            run.violation("proof-broken", "the reload model does not follow the new file on %s -> %s %s: model %s, new file %s" % (old, new, texts, model, want),
                          {"theorem": "c19_reload_follows_new", "input": inp, "model": [list(o) for o in model]}, found_input=False)
            return n
        if obs != want:
            bad = [(t, o, w) for t, o, w in zip(texts, obs, want) if o != w] or [(texts[-1], ("lost",), want[-1])]
            t, o, w = ([x for x in bad if x[1] == ("fwd",)] or bad)[0]
            form = "Parse/Bind/Execute/Sync of" if pr[texts.index(t)][0] == "B" else "simple query"
            run.violation("counterexample", "after a RELOAD from %s to %s the old session's %s %r is %s although the new file says %s (all statements %s: observed %s)" %
                          ("no plugins" if old == "A" else "plugins " + old, "no plugins" if new == "A" else "plugins " + new, form, t,
                           {"fwd": "forwarded", "deny": "denied", "icpt": "intercepted", "lost": "unanswered"}[o[0]], w[0], texts, obs),
                          {"input": inp, "impl": [list(x) for x in obs], "expected": [list(x) for x in want]})
            return n
    return n


# ----------------------------------------------------------------------------- driver
def check(run):
    quick = run.tier == "quick"
    rng = run.rng
    run.assumptions += [
        "Coq 8.16.1 kernel + vm_compute; no axioms (Print Assumptions: closed under the global context for every theorem)",
        "coq/Plugin/Model.v is a hand transcription of table_access.rs, intercept.rs, messages.rs encoders, execute_plugins and the plugin-related control flow of Client::handle "
        "(validated per run at library level for everything except the Client::handle state machine, which needs the wire harness)",
        "coq/Plugin/Spec.v pg_resolve transcribes PostgreSQL's identifier rule for a UTF8 database (scan.l, scansup.c downcase_identifier/truncate_identifier); no PostgreSQL in the sandbox",
        "sqlparser 0.52 is environment: the theorems speak about the relations it reports; that it reports every mentioned relation is tested per statement shape (L2), not proved",
        "identifiers are UTF-8 (Rust Strings always are); PostgreSQL side = UTF8 server encoding (single-byte encodings fold high-bit letters with the C locale: not modelled)",
        "plugins are evaluated on the pooler's parse of the text; statements sqlparser rejects are forwarded unchecked (outside the property; counted)",
    ]
    run.cov["trusted_base"] = ["coqc 8.16.1 kernel", "vm_compute", "coq/Plugin/Model.v (hand transcription)", "coq/Plugin/Spec.v (PostgreSQL identifier rule, backend message reader)",
                               "harness/src/bin/router.rs", "harness/src/bin/plugins.rs", "props/c19.py (generator labels, PostgreSQL rule, reply reader)", "sqlparser 0.52 (environment)"]
    proof_ok, log = vlib.prove(run, COQ_FILES, "Plugin/Props.v")
    run.log("proof ok=%s" % proof_ok)
    ok, blog, bins = vlib.cargo_build(["router", "plugins"])
    run.log("harness built")
    if not ok:
        run.violation("tie-broken", "harness does not build against /repo (API used by the correspondence changed)",
                      {"correspondence": "router/plugins harness build", "log": blog[-3000:]}, found_input=False)
        return
    if not proof_ok:
        if not run.broken:
            w = search_witness(run, bins)
            if w:
                run.violation("counterexample", "Plugin/Props.v no longer checks and the implementation lets a listed table through: %s" % w["sql"], {"theorem": "Plugin/Props.v", "input": w, "coq_log": log[-2500:]})
            else:
                run.violation("proof-broken", "Plugin/Props.v no longer checks; no failing statement found in the search", {"theorem": "Plugin/Props.v", "coq_log": log[-2500:]}, found_input=False)
        return
    st = {"kf": {}, "rejected": 0, "rejected_by_group": {}, "by_group": {}, "by_pos": {}, "distinct": set(), "spellings": set(), "known": {}, "known_samples": {}, "denied": 0,
          "gaps_closed": set(), "icpt_kinds": {}, "icpt_matched": 0, "seq": 0, "seq_events": {}, "wire": 0, "wire_groups": {}, "wire_forwarded": 0, "wire_followed": {}, "wire_modes": {}, "reload": 0, "reload_outcomes": {}}
    evals = 0
    nt = 1000 if quick else 40000
    cases = gen_table_cases(rng, nt)
    evals += check_tables(run, bins, cases, "ta", st)
    run.log("table_access: %d cases, %d rejected by the parser, %d expected-deny" % (len(cases), st["rejected"], st["denied"]))
    if not run.violations:
        na = gen_table_cases(rng, 200 if quick else 5000, nonascii=True)
        evals += check_tables(run, bins, na, "na", st)
    if not run.violations:
        evals += check_maxlen(run, bins, st)
    if not run.violations:
        ic = gen_intercept_cases(rng, 350 if quick else 12000)
        evals += check_intercept(run, bins, ic, st)
        run.log("intercept: %d cases, kinds %s" % (len(ic), st["icpt_kinds"]))
    if not run.violations:
        evals += check_sequences(run, 300 if quick else 20000, st)
    if not run.violations:
        evals += check_wire(run, 120 if quick else 4000, st)
        run.log("wire: %d scenarios, reply groups %s, %d forwarded messages" % (st["wire"], st["wire_groups"], st["wire_forwarded"]))
    if not run.violations:
        evals += check_reload(run, st)
        run.log("reload family: %d scenarios, outcomes %s" % (st["reload"], st["reload_outcomes"]))
    missing_groups = [g for g in REQUIRED_GROUPS if st["by_group"].get(g, 0) == 0]
    if missing_groups and not run.violations:
        run.broken.append("statement groups never accepted by the parser: %s" % missing_groups)
    for cls in sorted(st["kf"]):
        run.known_finding(KNOWN[cls] + st["kf"][cls][1], key=cls)
    run.cov["evaluations"] = evals
    run.cov["distinct_nontrivial"] = len(st["distinct"])
    run.cov["rule"] = ("table_access: %d statement shapes in %d groups (FROM, JOIN, subquery, CTE, DML target/USING, COPY table+query, DROP, TRUNCATE, MERGE, INSERT..SELECT, EXPLAIN, CTAS/VIEW, "
                       "set operations, LATERAL, table functions, DDL, + the reported gap shapes ONLY / TABLE / DDL references) x identifier spellings (lower/UPPER/MiXed unquoted, quoted exact, "
                       "quoted other case, names with dots/spaces/upper case, 63/65-byte names, Latin-1 letters) x qualification (none, schema, catalog.schema, quoted) x listed/unlisted x "
                       "position (single/first/middle/last of a multi-statement message) x protocol (Q, P) x plugin enabled/disabled/absent; intercept: 1-4 rules over %d canonical queries, "
                       "0-4 columns, 0-3 rows, all type names, NULLs, ${USER}/${DATABASE}, case/spacing variants, multi-statement messages, duplicate rules, short schema entries; "
                       "distinct = distinct (statement, protocol, position, listed set, enabled) / (message, plugin config, user, db)" % (len(SHAPES), len(set(s[0] for s in SHAPES)), len(CANON)))
    run.cov["input_distribution"] = {"by_group": st["by_group"], "by_position_protocol": st["by_pos"], "parser_rejected": st["rejected"], "parser_rejected_by_group": st["rejected_by_group"],
                                     "distinct_spellings": len(st["spellings"]), "expected_deny": st["denied"], "intercept_verdicts": st["icpt_kinds"], "intercept_replies_read": st["icpt_matched"],
                                     "known_finding_hits": st["known"], "gap_shapes_now_reported": sorted(st["gaps_closed"]),
                                     "model_sequences": st["seq"], "model_sequence_events": st["seq_events"],
                                     "wire_scenarios": st["wire"], "wire_product_sequences": st.get("wire_product", 0), "reload_scenarios": st["reload"], "reload_outcomes": st["reload_outcomes"], "wire_plugins_section_modes": st.get("wire_modes", {}), "wire_rejections_followed_by_batch_and_query": st.get("wire_followed", {}), "wire_reply_groups": st["wire_groups"], "wire_forwarded_messages": st["wire_forwarded"]}
    run.cov["samples"] = [{"kind": "table_access", "sql": c["sql"], "proto": c["proto"], "listed": [b.decode("utf8", "replace") for b in c["listed"]], "real": c.get("real")} for c in cases[:4]] + \
                         [{"kind": "sequence", **(st.get("seq_sample") or {})}]
    if not quick and proof_ok:
        vlib.coqchk(run, ["PV.Plugin.Props"])


def search_witness(run, bins):
    """monitor search with no model: listed table through the required shapes and ASCII spellings"""
    cases = [c for c in gen_table_cases(run.rng, 3000) if not c["gap"]]
    pc = [{"settings": {"parser": True, "plugins": c["plugins"]}, "steps": [{"op": "route", "proto": c["proto"], "sql": c["sql"]}]} for c in cases]
    for c, r in zip(cases, RL.run_router(bins["router"], pc)):
        o = r["out"][0]
        if o.get("parse") != "ok":
            continue
        resp = [nm for nm in c["labels"] if pg_resolve(*nm[-1]) in c["listed"] and all(x < 128 for x in nm[-1][0]) and len(nm[-1][0]) <= 63]
        if c["enabled"] and resp and o["plugin"][0] != "deny":
            return {"sql": c["sql"], "proto": c["proto"], "plugins": c["plugins"]}
    return None


def replay(run, path):
    r = json.load(open(path))
    print(json.dumps(r, indent=1)[:4000])
    inp = r.get("input", {})
    if "statements_after_reload" in inp:      # the reload family: run it again, compare with what the new file says
        from props import wirelib as W
        ok, blog, bins = vlib.cargo_build(["wire"])
        res = W.run_scenario(bins["wire"], {"backends": [{"name": "b0"}], "toml": inp["toml"], "steps": inp["steps"]})
        obs = reload_observe(res, inp["statements_after_reload"])
        print("replay: observed %s\n        new file says %s" % (obs, r.get("expected")))
        return 0 if [list(o) for o in obs] == r.get("expected") else 1
    if "steps" in inp and "toml" in inp:      # a wire scenario: run it again and show both sides
        from props import wirelib as W
        ok, blog, bins = vlib.cargo_build(["wire"])
        res = W.run_scenario(bins["wire"], {"backends": [{"name": "b0"}], "toml": inp["toml"], "steps": inp["steps"]})
        texts = {m["sql"] for st_ in inp["steps"] if st_.get("op") == "send" for m in st_["msgs"] if "sql" in m}
        back, groups, hold_ok, rest = observe_wire(res, texts)
        print("replay: server saw %s\n        client got %s" % (back, groups))
        print("        model : server %s\n                client %s" % (r.get("model", {}).get("backend"), r.get("model", {}).get("client")))
        mb = [tuple(x) for x in r.get("model", {}).get("backend", [])]
        mc = [tuple(x) for x in r.get("model", {}).get("client", [])]
        return 0 if (back == mb and groups == mc) else 1
    if "sql" not in inp:
        return 0
    ok, blog, bins = vlib.cargo_build(["router", "plugins"])
    case = {"settings": {"parser": True, "plugins": inp.get("plugins"), "user": inp.get("user", "postgres"), "db": inp.get("db", "db"),
                         "parser_max_length": inp.get("parser_max_length")},
            "steps": [{"proto": inp.get("proto", "Q"), "sql": inp["sql"]}]}
    (res,) = RL.run_router(bins["plugins"], [case])
    o = res["out"][0]
    print("replay: parse=%s plugin=%s" % (o.get("parse"), o.get("plugin")))
    for s in o.get("stmts", []):
        print("  shown:", bytes.fromhex(s["norm"]).decode("utf8", "replace"), "explicit", names_from_json(s["explicit"]), "visited", names_from_json(s["visited"]))
    exp = r.get("expected")
    if exp in ("deny", "allow", "intercept"):
        return 0 if o.get("plugin", [None])[0] == exp else 1
    return 0
