"""C17 — shutdown is graceful.

P : coq/Shutdown/{Model,Proofs,Props}.v — the accept/shutdown loop of main.rs (admin_only, the
    drain channel as an explicit bounded FIFO, the exit channel of capacity one, try_send into both,
    the timer task; the SIGINT arm split at the broadcast) and the client-side protocol (gate captured
    at accept, answered before counted, +1 / -1, poll of the broadcast in the outer loop only, panic
    exits); theorems over every event sequence, incl. unguarded exit liveness; the pre-74943d0
    awaiting loop and shutdown_timeout = 0 are kept as mutants with their refutations.
T2: the same abstract scripts are (a) run in-process through the wire harness (transcribed accept
    loop + the real client_entrypoint; control messages, admin SHUTDOWN with real signals) and
    (b) against the REAL pgcat binary as a subprocess (python socket clients, standalone mock
    backends `mockd`, os.kill SIGINT / SIGTERM, admin SHUTDOWN), and compared with the model
    evaluated in coqc (script_trace): per client what it was told (admitted / refused / served /
    kicked with the administrator-command FATAL error), after every operation total_clients and
    whether the process is gone (in-process), exit cause / exit status / coarse exit time window.
    Races of the signal against login / BEGIN / COMMIT / connect are checked by membership in the
    model's linearisations.  Model-free monitors check the property's own statements on the
    implementation's traces.  Regressions on the binary: SIGINT under a CancelRequest flood must exit
    (a hang is a violation), shutdown_timeout = 0 must be rejected at config parse.
    Only open finding: E1 (a client answered but not yet counted when SIGINT is handled).

Script format (also the replay format), one list per operation:
   ["connect", name, "normal"|"admin", "txn"|"sess", password_ok]   ["accept_late", name]  ["auth_late", name]
   ["begin", name] ["stmt", name] ["commit", name] ["auto", name] ["admin_cmd", name]
   ["sig", "int"|"term"] ["shutdown", admin_name] ["close", name, "clean"|"drop"] ["panic", name]
   ["cancel"] ["wait_timer"]
   ["ext_batch", name]      Parse/Bind/Execute WITHOUT Sync (buffered by pgcat; outside a transaction the client stays
                            in the outer loop = model Idle, no model event; inside one it stays InTxn/SessionHeld)
   ["ext_sync", name]       the Sync of that batch (model: Stmt inside a transaction, else TxnStart;TxnEnd)
   ["ext_sync_dead", name]  the Sync sent by a client that has been told to go: no answer, and the batch must never
                            reach a server (no model event)
"""
import hashlib, json, os, signal, socket, struct, subprocess, sys, threading, time
from concurrent.futures import ThreadPoolExecutor
import vlib
from props import wirelib as W

COQ_FILES = ["Shutdown/Model.v", "Shutdown/Proofs.v", "Shutdown/Props.v"]
PREAMBLE = ("From PV Require Import Shutdown.Model.\nFrom Coq Require Import ZArith List Bool.\n"
            "Import ListNotations.\nOpen Scope Z_scope.")
ADMIN_MSG = "terminating connection due to administrator command"
T_TIMER = 1500          # shutdown_timeout of scenarios whose model exit is ByTimer
T_LONG = 6000           # shutdown_timeout of all other scenarios (an exit well before it is not the timer)
PGCAT_TARGET = os.path.join(vlib.CACHE, "target_pgcat")
PGCAT_BIN = os.path.join(PGCAT_TARGET, "debug", "pgcat")


# ----------------------------------------------------------------------------- script -> model
def compile_script(ops):
    """-> (list of Gallina sop strings, [(first, last+1) sop range of each op], {client name: model index})"""
    sops, ranges, idx, kinds = [], [], {}, {}
    intxn = set()
    nxt = 0
    ext_as_txn = bool(os.environ.get("C17_SELFTEST_EXT"))   # self-test: a WRONG mapping (buffered batch = transaction)
    for op in ops:
        a = len(sops)
        k = op[0]
        if k == "ext_batch":
            if ext_as_txn and op[1] not in intxn:
                sops.append("SEv (TxnStart %d)" % idx[op[1]]); intxn.add(op[1])
        elif k == "ext_sync":
            if op[1] in intxn:
                sops.append("SEv (Stmt %d)" % idx[op[1]])
            else:
                sops += ["SEv (TxnStart %d)" % idx[op[1]], "SEv (TxnEnd %d)" % idx[op[1]]]
        elif k == "ext_sync_dead":
            pass
        elif k == "connect":
            _, name, kind, mode, ok = op
            idx[name] = nxt; kinds[name] = kind; nxt += 1
            sops.append("SEv (Accept %s %s)" % ("Admin" if kind == "admin" else "Normal", "SessMode" if mode == "sess" else "TxnMode"))
            sops.append("SEv (AuthDone %d %s)" % (idx[name], "true" if ok else "false"))
        elif k == "connect_uncounted":
            # answered (ReadyForQuery) but the task has not sent its +1 yet (model: no Enter)
            idx[op[1]] = nxt; kinds[op[1]] = "normal"; nxt += 1
            sops.append("SEv (Accept Normal TxnMode)")
            sops.append("SLate (AuthDone %d true)" % idx[op[1]])
        elif k == "sig_uncounted":
            sops.append("SLate Sigint")
        elif k == "accept_late":
            idx[op[1]] = nxt; kinds[op[1]] = "normal"; nxt += 1
            sops.append("SEv (Accept Normal TxnMode)")
        elif k == "auth_late":
            sops.append("SEv (AuthDone %d true)" % idx[op[1]])
        elif k == "begin":
            sops += ["SEv (TxnStart %d)" % idx[op[1]], "SEv (Stmt %d)" % idx[op[1]]]; intxn.add(op[1])
        elif k in ("stmt", "admin_cmd"):
            sops.append("SEv (Stmt %d)" % idx[op[1]])
        elif k == "commit":
            sops.append("SEv (TxnEnd %d)" % idx[op[1]]); intxn.discard(op[1])
        elif k == "auto":
            sops += ["SEv (TxnStart %d)" % idx[op[1]], "SEv (TxnEnd %d)" % idx[op[1]]]
        elif k == "sig":
            sops.append("SEv Sigint" if op[1] == "int" else "SEv Sigterm")
        elif k == "shutdown":
            sops.append("SEv Sigint")
        elif k == "close":
            sops.append("SEv (Leave %d %s)" % (idx[op[1]], "Clean" if op[2] == "clean" else "Err"))
        elif k == "panic":
            sops.append("SEv (Leave %d Panic)" % idx[op[1]])
        elif k == "cancel":
            i = nxt; nxt += 1
            sops += ["SEv (Accept Canc TxnMode)", "SEv (AuthDone %d true)" % i, "SEv (Leave %d Clean)" % i]
        elif k == "wait_timer":
            sops.append("SWaitTimer")
        else:
            raise ValueError("unknown op %r" % (op,))
        ranges.append((a, len(sops)))
    return sops, ranges, idx


def model_expr(ops, tz=False, adv=False):
    """adv: the adversarial order after every SIGINT (clients react to the broadcast before the arm queues its 0,
    drain arm before exit arm) — the schedule class of the known exit-channel deadlock"""
    sops, _, _ = compile_script(ops)
    if adv:
        sops = [x.replace("SEv Sigint", "SAdv Sigint") for x in sops]
    return "script_trace (init %s 2048 false) [%s]" % ("true" if tz else "false", "; ".join(sops))


TOK = {"ORefused": "refused", "OAdmitted": "admitted", "OAuthFail": "authfail", "OKicked": "kicked", "OServed": "served"}


def parse_trace(val, ops):
    """-> per op: {"total", "exited" (None|cause), "wedged", "log": [(tok, idx)]} or None if the script was not executable"""
    tr = vlib.parse_coq(val)
    sops, ranges, idx = compile_script(ops)
    if len(tr) != len(sops):
        return None
    out = []

    def nm(x):
        return x[1] if isinstance(x, tuple) and len(x) == 2 and x[0] == "#" else x
    for (a, b) in ranges:
        if b == 0:          # no model event yet: the initial state
            out.append({"total": 0, "exited": None, "wedged": False, "log": []}); continue
        total, exited, wedged, log = tr[b - 1]
        ex = None if exited is None else nm(exited[1])
        lg = []
        for o in log:
            if isinstance(o, tuple) and o[0] in TOK:
                lg.append((TOK[o[0]], o[1]))
            elif isinstance(o, tuple) and o[0] == "OExit":
                lg.append(("exit", nm(o[1])))
        out.append({"total": total, "exited": ex, "wedged": wedged, "log": lg})
    return out


def model_client_tokens(trace, idx, upto=None):
    log = trace[(upto if upto is not None else len(trace)) - 1]["log"] if trace else []
    inv = {v: k for k, v in idx.items()}
    per = {n: [] for n in idx}
    for tok, i in log:
        if tok != "exit" and i in inv:
            per[inv[i]].append(tok)
    return per


def first_exit_op(trace):
    for k, t in enumerate(trace):
        if t["exited"] is not None:
            return k
    return None


# ----------------------------------------------------------------------------- scenario generation
def core_scripts():
    N, A = "normal", "admin"
    c = lambda n, kind=N, mode="txn", ok=True: ["connect", n, kind, mode, ok]
    S = []
    S.append(("empty+int", [["sig", "int"]]))
    S.append(("empty+term", [["sig", "term"]]))
    S.append(("empty+shutdown", [c("a", A), ["shutdown", "a"]]))
    S.append(("admin-only+int", [c("a", A), ["admin_cmd", "a"], ["sig", "int"]]))
    S.append(("idle+int", [c("c0"), ["sig", "int"]]))
    S.append(("idle-after-txn+int", [c("c0"), ["begin", "c0"], ["stmt", "c0"], ["commit", "c0"], ["auto", "c0"], ["sig", "int"]]))
    S.append(("intxn+int", [c("c0"), ["begin", "c0"], ["stmt", "c0"], ["sig", "int"], ["stmt", "c0"], ["stmt", "c0"], ["commit", "c0"]]))
    S.append(("intxn+term", [c("c0"), ["begin", "c0"], ["sig", "term"]]))
    S.append(("intxn+shutdown", [c("c0"), c("a", A), ["begin", "c0"], ["shutdown", "a"], ["stmt", "c0"], ["admin_cmd", "a"], ["commit", "c0"]]))
    S.append(("idle+shutdown", [c("c0"), c("a", A), ["shutdown", "a"]]))
    S.append(("sessheld+int+timer", [c("s0", N, "sess"), ["auto", "s0"], ["sig", "int"], ["stmt", "s0"], ["wait_timer"]]))
    S.append(("sessidle+int", [c("s0", N, "sess"), ["sig", "int"]]))
    S.append(("sessheld+int+close", [c("s0", N, "sess"), ["auto", "s0"], ["sig", "int"], ["stmt", "s0"], ["close", "s0", "clean"]]))
    S.append(("intxn+int+panic+timer", [c("c0"), ["begin", "c0"], ["sig", "int"], ["panic", "c0"], ["wait_timer"]]))
    S.append(("panic-before+int+timer", [c("c0"), ["begin", "c0"], ["panic", "c0"], ["sig", "int"], ["wait_timer"]]))
    S.append(("idle-panic-before+int+timer", [c("c0"), ["panic", "c0"], c("c1"), ["sig", "int"], ["wait_timer"]]))
    S.append(("intxn+int+drop", [c("c0"), ["begin", "c0"], ["stmt", "c0"], ["sig", "int"], ["close", "c0", "drop"]]))
    S.append(("arrivals-after-int", [c("c0"), ["begin", "c0"], ["sig", "int"], c("n1"), c("a1", A), ["admin_cmd", "a1"], c("n2", N, "sess"),
                                     c("n3", N, "txn", False), ["stmt", "c0"], ["commit", "c0"]]))
    S.append(("late-auth-kept-alive", [c("c0"), ["begin", "c0"], ["accept_late", "l"], ["sig", "int"], ["auth_late", "l"], ["stmt", "c0"], ["commit", "c0"]]))
    S.append(("late-auth-alone", [["accept_late", "l"], ["sig", "int"]]))
    S.append(("double-int", [c("c0"), ["begin", "c0"], ["sig", "int"], ["sig", "int"], ["stmt", "c0"], ["sig", "int"], ["commit", "c0"]]))
    S.append(("int-then-term", [c("c0"), ["begin", "c0"], ["sig", "int"], ["stmt", "c0"], ["sig", "term"]]))
    S.append(("cancel-after-int", [c("c0"), ["begin", "c0"], ["sig", "int"], ["cancel"], ["stmt", "c0"], ["cancel"], ["commit", "c0"]]))
    S.append(("authfail-before-int", [c("x", N, "txn", False), c("c0"), ["sig", "int"]]))
    S.append(("mixed", [c("c0"), c("c1"), c("c2"), c("a", A), ["begin", "c2"], ["auto", "c1"], ["sig", "int"], ["admin_cmd", "a"],
                        ["stmt", "c2"], c("n"), ["commit", "c2"]]))
    S.append(("intxn+int+timer", [c("c0"), ["begin", "c0"], ["sig", "int"], ["stmt", "c0"], ["wait_timer"]]))
    S.append(("two-txns-finish-in-turn", [c("c0"), c("c1"), ["begin", "c0"], ["begin", "c1"], ["sig", "int"], ["stmt", "c1"], ["commit", "c0"],
                                          ["stmt", "c1"], ["commit", "c1"]]))
    S.append(("close-before-int", [c("c0"), c("c1"), ["close", "c0", "clean"], ["sig", "int"]]))
    S.append(("term-with-everything", [c("c0"), c("s0", N, "sess"), c("a", A), ["begin", "c0"], ["auto", "s0"], ["sig", "term"]]))
    S.append(("shutdown-then-timer", [c("s0", N, "sess"), c("a", A), ["auto", "s0"], ["shutdown", "a"], ["admin_cmd", "a"], ["wait_timer"]]))
    # a client between Parse/Bind/Execute and Sync when the signal lands.  Outside a transaction it holds no server
    # and sits in the outer loop (= Idle): told to go at once, its Sync never reaches a server, the process does not
    # wait for the timeout.  Inside a transaction / session-held it finishes.
    S.append(("extbatch-outside+int", [c("c0"), ["ext_batch", "c0"], ["sig", "int"]]))
    S.append(("extbatch-outside+int+dead-sync", [c("k"), ["begin", "k"], c("c0"), ["ext_batch", "c0"], ["sig", "int"], ["ext_sync_dead", "c0"],
                                                 ["stmt", "k"], ["commit", "k"]]))
    S.append(("extbatch-after-txn+int", [c("c0"), ["begin", "c0"], ["commit", "c0"], ["auto", "c0"], ["ext_batch", "c0"], ["sig", "int"]]))
    S.append(("extbatch-after-ext-txn+shutdown", [c("c0"), c("a", A), ["ext_batch", "c0"], ["ext_sync", "c0"], ["ext_batch", "c0"], ["shutdown", "a"]]))
    S.append(("extbatch-sessidle+int", [c("s0", N, "sess"), ["ext_batch", "s0"], ["sig", "int"]]))
    S.append(("extbatch-sessheld+int", [c("s0", N, "sess"), ["auto", "s0"], ["ext_batch", "s0"], ["sig", "int"], ["ext_sync", "s0"], ["stmt", "s0"],
                                        ["close", "s0", "clean"]]))
    S.append(("extbatch-intxn+int", [c("c0"), ["begin", "c0"], ["ext_batch", "c0"], ["sig", "int"], ["ext_sync", "c0"], ["stmt", "c0"], ["commit", "c0"]]))
    S.append(("extbatch-intxn+int+second-batch", [c("c0"), ["begin", "c0"], ["sig", "int"], ["ext_batch", "c0"], ["ext_sync", "c0"], ["commit", "c0"]]))
    S.append(("extbatch-outside+term", [c("c0"), ["ext_batch", "c0"], ["sig", "term"]]))
    S.append(("extbatch-outside+sessheld+int+timer", [c("c0"), c("s0", N, "sess"), ["auto", "s0"], ["ext_batch", "c0"], ["sig", "int"], ["ext_sync_dead", "c0"],
                                                      ["wait_timer"]]))
    S.append(("extbatch-mixed", [c("c0"), c("c1"), c("c2"), ["begin", "c2"], ["ext_batch", "c0"], ["ext_batch", "c2"], ["auto", "c1"], ["ext_batch", "c1"],
                                 ["sig", "int"], ["ext_sync_dead", "c1"], ["ext_sync", "c2"], ["ext_sync_dead", "c0"], ["commit", "c2"]]))
    return S


def random_script(rng):
    """population x signal x timing, generated with a light tracker of who is where (the Coq model stays the
    authority: a script it cannot execute is reported as generator drift, not as a violation)."""
    ops, st = [], {}            # st: name -> [kind, mode, phase]
    nn = [0]
    bt = set()                  # clients with a buffered Parse/Bind/Execute batch (no Sync yet)

    def flush(n):
        if n in bt:
            ops.append(["ext_sync", n]); bt.discard(n)

    def maybe_batch(n, p):
        if rng.random() < p:
            ops.append(["ext_batch", n]); bt.add(n)
            if rng.random() < 0.2:
                flush(n)
                if st[n][1] == "sess" and st[n][2] == "idle":
                    st[n][2] = "held"

    def fresh(p):
        nn[0] += 1
        return "%s%d" % (p, nn[0])

    def connect(kind, mode, after):
        n = fresh("a" if kind == "admin" else ("s" if mode == "sess" else "c"))
        ok = rng.random() > 0.1
        ops.append(["connect", n, kind, mode, ok])
        if kind == "admin":
            st[n] = [kind, mode, "idle" if ok else "gone"]
        else:
            st[n] = [kind, mode, "gone" if (after or not ok) else "idle"]
        return n
    # population before the signal
    for _ in range(rng.randint(0, 3)):
        n = connect("normal", "txn", False)
        if st[n][2] == "idle":
            r = rng.random()
            if r < 0.45:
                ops.append(["begin", n]); st[n][2] = "intxn"
                for _ in range(rng.randint(0, 2)):
                    ops.append(["stmt", n])
                maybe_batch(n, 0.3)
            elif r < 0.65:
                ops.append(["auto", n])
                maybe_batch(n, 0.4)
            elif r < 0.72:
                ops.append(["panic", n]); st[n][2] = "gone"
            elif r < 0.8:
                ops.append(["close", n, rng.choice(["clean", "drop"])]); st[n][2] = "gone"
            else:
                maybe_batch(n, 0.5)
    if rng.random() < 0.35:
        n = connect("normal", "sess", False)
        if st[n][2] == "idle" and rng.random() < 0.7:
            ops.append(["auto", n]); st[n][2] = "held"
        if st[n][2] in ("idle", "held"):
            maybe_batch(n, 0.35)
    admins = []
    if rng.random() < 0.5:
        a = connect("admin", "txn", False)
        if st[a][2] == "idle":
            admins.append(a)
    late = None
    if rng.random() < 0.25:
        late = fresh("l"); ops.append(["accept_late", late]); st[late] = ["normal", "txn", "late"]
    if rng.random() < 0.15:
        ops.append(["cancel"])
    # the signal
    r = rng.random()
    if r < 0.2:
        ops.append(["sig", "term"]); return ops
    if r < 0.5 and admins:
        ops.append(["shutdown", admins[0]])
    else:
        ops.append(["sig", "int"])
    deadb = []                  # told to go while a batch was buffered: their Sync must go nowhere
    for n, v in st.items():
        if v[0] == "normal" and v[2] == "idle":
            v[2] = "gone"
            if n in bt:
                bt.discard(n); deadb.append(n)

    def alive():
        return [n for n, v in st.items() if v[0] == "normal" and v[2] in ("intxn", "held")]
    # after the signal
    for _ in range(rng.randint(1, 7)):
        if not alive():
            break                       # the process is (about to be) gone
        acts = ["stmt", "stmt", "finish", "newnormal", "newadmin", "cancel", "int2", "admincmd", "batch"]
        if late and st[late][2] == "late":
            acts += ["late", "late"]
        if deadb:
            acts += ["deadsync", "deadsync"]
        if any(n in bt for n in alive()):
            acts += ["extsync", "extsync"]
        a = rng.choice(acts)
        if a == "stmt":
            n = rng.choice(alive()); flush(n)
            ops.append(["stmt", n])
        elif a == "batch":
            n = rng.choice(alive())
            if n not in bt:
                ops.append(["ext_batch", n]); bt.add(n)
        elif a == "extsync":
            flush(rng.choice([n for n in alive() if n in bt]))
        elif a == "deadsync":
            ops.append(["ext_sync_dead", deadb.pop(rng.randrange(len(deadb)))])
        elif a == "finish":
            n = rng.choice(alive()); flush(n)
            if st[n][2] == "intxn":
                ops.append(["commit", n]); st[n][2] = "held" if st[n][1] == "sess" else "gone"
            else:
                ops.append(["close", n, rng.choice(["clean", "drop"])]); st[n][2] = "gone"
        elif a == "newnormal":
            connect("normal", rng.choice(["txn", "sess"]), True)
        elif a == "newadmin":
            n = connect("admin", "txn", True)
            if st[n][2] == "idle":
                admins.append(n)
        elif a == "cancel":
            ops.append(["cancel"])
        elif a == "int2":
            ops.append(["sig", "int"])
        elif a == "admincmd" and admins:
            ops.append(["admin_cmd", rng.choice(admins)])
        elif a == "late":
            ops.append(["auth_late", late]); st[late][2] = "gone"
    if alive():
        r = rng.random()
        if r < 0.3:
            ops.append(["wait_timer"])
        elif r < 0.45:
            ops.append(["sig", "term"])
        elif r < 0.55:
            n = rng.choice(alive()); ops.append(["panic", n]); st[n][2] = "gone"
            for m in alive():
                flush(m)
                if st[m][2] == "intxn":
                    ops.append(["commit", m]); st[m][2] = "held" if st[m][1] == "sess" else "gone"
                if st[m][2] == "held":
                    ops.append(["close", m, "clean"]); st[m][2] = "gone"
            ops.append(["wait_timer"])
        else:
            for m in alive():
                flush(m)
                if st[m][2] == "intxn":
                    ops.append(["commit", m]); st[m][2] = "held" if st[m][1] == "sess" else "gone"
                if st[m][2] == "held":
                    ops.append(["close", m, rng.choice(["clean", "drop"])]); st[m][2] = "gone"
    return ops


def abstract_class(ops, trace):
    """coverage class of a script: multiset of (client kind/mode, phase at the first signal), the signal,
    what happens after it, the model's exit cause"""
    where, kinds = {}, {}
    sig, post = None, []
    for op in ops:
        k = op[0]
        if sig is None:
            if k == "connect":
                kinds[op[1]] = op[2][0] + op[3][0]; where[op[1]] = "idle" if op[4] else "gone"
            elif k == "accept_late":
                kinds[op[1]] = "nt"; where[op[1]] = "late"
            elif k == "begin":
                where[op[1]] = "intxn"
            elif k == "auto" and kinds.get(op[1]) == "ns":
                where[op[1]] = "held"
            elif k == "ext_batch":
                where[op[1]] = where.get(op[1], "idle").replace("+batch", "") + "+batch"
            elif k == "ext_sync":
                where[op[1]] = where.get(op[1], "idle").replace("+batch", "")
                if kinds.get(op[1]) == "ns" and where[op[1]] == "idle":
                    where[op[1]] = "held"
            elif k in ("close", "panic"):
                where[op[1]] = "gone:" + k
            elif k in ("sig", "shutdown"):
                sig = k + ":" + op[1] if k == "sig" else "shutdown"
        else:
            post.append(k if k != "connect" else "connect:" + op[2])
    cause = trace[-1]["exited"] if trace else None
    return (tuple(sorted(kinds[n] + ":" + where[n] for n in kinds)), sig, tuple(post), cause)


# ----------------------------------------------------------------------------- in-process (wire harness)
def make_toml(timeout, port=6432):
    return W.make_toml(general={"shutdown_timeout": timeout, "port": port, "worker_threads": 2},
                       pools={"db": {"users": [{"username": "u", "password": "pw", "pool_size": 5},
                                               {"username": "t", "password": "", "auth_type": "trust", "pool_size": 2}],
                                     "shards": [{"servers": [["b0", "primary"]]}]},
                              "sdb": {"opts": {"pool_mode": "session"}, "users": [{"username": "u", "password": "pw", "pool_size": 3}],
                                      "shards": [{"servers": [["b0", "primary"]]}]}})


def startup_bytes(params):
    b = struct.pack(">i", 196608)
    for k, v in params.items():
        b += k.encode() + b"\0" + v.encode() + b"\0"
    b += b"\0"
    return struct.pack(">i", len(b) + 4) + b


def conn_params(kind, mode):
    if kind == "admin":
        return {"user": "admin", "database": "pgcat"}, "adminpw"
    return {"user": "u", "database": "sdb" if mode == "sess" else "db"}, "pw"


def timeout_for(trace):
    return T_TIMER if (trace and trace[-1]["exited"] == "ByTimer") else T_LONG


def new_kicks(trace, k, idx):
    """names the model kicks during op k"""
    prev = trace[k - 1]["log"] if k > 0 else []
    new = trace[k]["log"][len(prev):]
    inv = {v: n for n, v in idx.items()}
    return [inv[i] for tok, i in new if tok == "kicked" and i in inv]


def wire_scenario(ops, trace):
    """-> (scenario dict, number of ops actually scripted (cut at the model's exit))"""
    _, _, idx = compile_script(ops)
    T = timeout_for(trace)
    steps, openc = [], []
    real = any(op[0] == "shutdown" for op in ops)
    tagn = [0]
    pending = {}            # client -> the statement of its buffered (not yet synced) batch
    nops = 0
    for k, op in enumerate(ops):
        nops = k + 1
        kind = op[0]
        steps.append({"op": "wait_total", "timeout_ms": 0, "label": "pre%d" % k})
        if kind == "connect":
            _, name, ck, mode, ok = op
            p, pw = conn_params(ck, mode)
            steps.append({"op": "connect", "c": name, "params": p, "password": pw if ok else "wrong", "timeout_ms": 2000})
            openc.append(name)
        elif kind == "accept_late":
            steps.append({"op": "connect", "c": op[1], "raw_startup": "", "no_auth": True})
            steps.append({"op": "sleep", "ms": 15})
            openc.append(op[1])
        elif kind == "auth_late":
            steps.append({"op": "send", "c": op[1], "msgs": [{"raw": startup_bytes({"user": "t", "database": "db"}).hex()}]})
            steps.append({"op": "recv", "c": op[1], "until": "ZE", "count": 1, "timeout_ms": 2000, "label": "late"})
        elif kind in ("begin", "stmt", "commit", "auto", "admin_cmd"):
            tagn[0] += 1
            sql = {"begin": "BEGIN", "commit": "COMMIT", "admin_cmd": "SHOW VERSION"}.get(kind, "SELECT %d /*q%d*/" % (tagn[0], tagn[0]))
            steps.append({"op": "send", "c": op[1], "msgs": [{"t": "Q", "sql": sql}]})
            steps.append({"op": "recv", "c": op[1], "until": "Z", "count": 1, "timeout_ms": 2000, "label": "stmt:" + sql})
        elif kind == "ext_batch":
            tagn[0] += 1
            sql = "SELECT %d /*x%d*/" % (tagn[0], tagn[0])
            pending[op[1]] = sql
            steps.append({"op": "send", "c": op[1], "msgs": [{"t": "P", "name": "", "sql": sql, "types": []},
                                                             {"t": "B", "portal": "", "name": "", "fmts": [], "params": [], "rfmts": []},
                                                             {"t": "E", "portal": "", "max": 0}]})
            steps.append({"op": "sleep", "ms": 25})       # pgcat has read and buffered the batch before the next operation
        elif kind == "ext_sync":
            steps.append({"op": "send", "c": op[1], "msgs": [{"t": "S"}]})
            steps.append({"op": "recv", "c": op[1], "until": "Z", "count": 1, "timeout_ms": 2000, "label": "stmt:" + pending.pop(op[1], "?")})
        elif kind == "ext_sync_dead":
            steps.append({"op": "send", "c": op[1], "msgs": [{"t": "S"}]})
            steps.append({"op": "recv", "c": op[1], "until": "Z", "count": 1, "timeout_ms": 250, "label": "dead:" + pending.pop(op[1], "?")})
        elif kind == "sig":
            steps.append({"op": "control", "sig": op[1]})
        elif kind == "shutdown":
            steps.append({"op": "send", "c": op[1], "msgs": [{"t": "Q", "sql": "SHUTDOWN"}]})
            steps.append({"op": "recv", "c": op[1], "until": "Z", "count": 1, "timeout_ms": 1000, "label": "shutdown"})
        elif kind == "close":
            if op[2] == "clean":
                steps.append({"op": "send", "c": op[1], "msgs": [{"t": "X"}]})
            steps.append({"op": "close", "c": op[1]})
            if op[1] in openc:
                openc.remove(op[1])
        elif kind == "panic":
            steps.append({"op": "send", "c": op[1], "msgs": [{"raw": "51fffffffe"}]})
            steps.append({"op": "recv", "c": op[1], "until": "", "count": 0, "timeout_ms": 400, "label": "panic"})
            if op[1] in openc:
                openc.remove(op[1])
        elif kind == "cancel":
            steps.append({"op": "cancel", "c": "k%d" % k, "pid": 4242, "key": 17, "timeout_ms": 300})
        t = trace[k]
        wt = {"op": "wait_total", "label": "op%d" % k, "value": t["total"], "exited": t["exited"] is not None,
              "timeout_ms": (T + 2500) if kind == "wait_timer" else 1500}
        steps.append(wt)
        kicked = new_kicks(trace, k, idx)
        if t["exited"] is not None:
            # the process is gone; in-process the client tasks live on (and see the closed broadcast channel):
            # only what the model says happened BEFORE the exit (the kicks of this very operation) is observed
            for n in openc:
                if n in kicked:
                    steps.append({"op": "recv", "c": n, "until": "E", "count": 1, "timeout_ms": 1500, "label": "probe"})
            openc = []
            break
        for n in list(openc):
            if n in kicked:
                steps.append({"op": "recv", "c": n, "until": "E", "count": 1, "timeout_ms": 1500, "label": "probe"})
                steps.append({"op": "recv", "c": n, "until": "", "count": 0, "timeout_ms": 300, "label": "probe"})
                openc.remove(n)
            elif any(o[0] in ("sig", "shutdown") for o in ops[:k + 1]):
                steps.append({"op": "recv", "c": n, "until": "", "count": 0, "timeout_ms": 15, "label": "probe"})
    steps.append({"op": "sleep", "ms": 30})
    for n in openc:
        steps.append({"op": "recv", "c": n, "until": "", "count": 0, "timeout_ms": 10, "label": "probe"})
    # is the accept loop still serving?  (gone after an exit, silent when wedged)
    steps.append({"op": "connect", "c": "#zz", "params": {"user": "admin", "database": "pgcat"}, "password": "adminpw", "timeout_ms": 400})
    steps.append({"op": "snapshot", "label": "end"})
    return {"backends": [{"name": "b0"}], "toml": make_toml(T), "real_signals": real, "workers": 2, "steps": steps}, nops


def classify_frames(frames, outcome):
    """-> tokens for one reply"""
    toks = []
    authok = any(f.get("t") == "R" and f.get("auth") == 0 for f in frames)
    hasz = any(f.get("t") == "Z" for f in frames)
    for f in frames:
        if f.get("t") == "E":
            fl = f.get("fields", {})
            if fl.get("M") == ADMIN_MSG:
                toks.append(("admin_error", fl.get("S"), fl.get("V"), fl.get("C")))
            else:
                toks.append(("error", fl.get("M")))
    return authok, hasz, toks


def wire_observe(res, ops, nops):
    """per client token sequence + per-op (total, exited, unix_ms) + time marks, from the harness events"""
    per, optotal, marks = {}, {}, {}
    fatal_ok = True
    for e in res.get("events", []):
        who, ev = e.get("who"), e.get("ev")
        if ev == "wait_total":
            lab = e.get("label") or ""
            if lab.startswith("op"):
                optotal[int(lab[2:])] = (e["total"], e["exited"], e["unix_ms"])
            elif lab.startswith("pre"):
                marks[int(lab[3:])] = e["unix_ms"]
        elif ev == "startup_done" or (ev == "recv" and (e.get("label") or "") == "late"):
            authok, hasz, toks = classify_frames(e.get("frames", []), e.get("outcome"))
            if authok and hasz:
                tok = "admitted"
            elif toks and toks[0][0] == "admin_error":
                tok = "refused"
                fatal_ok &= toks[0][1:] == ("FATAL", "FATAL", "58000")
                if any(f.get("t") == "R" for f in e.get("frames", [])):
                    tok = "refused-after-auth-exchange"
            elif toks:
                tok = "authfail"
            else:
                tok = "noreply:" + str(e.get("outcome"))
            per.setdefault(who, []).append(tok)
        elif ev == "recv":
            lab = e.get("label") or ""
            authok, hasz, toks = classify_frames(e.get("frames", []), e.get("outcome"))
            if lab.startswith("stmt:"):
                if hasz and not toks:
                    per.setdefault(who, []).append("served")
                elif not toks:
                    per.setdefault(who, []).append("noreply:" + str(e.get("outcome")))
            if lab.startswith("dead:") and e.get("frames") and not all(f.get("t") == "E" for f in e["frames"]):
                per.setdefault(who, []).append("answered-after-kick")
            for t in toks:
                if t[0] == "admin_error":
                    if "kicked" not in per.setdefault(who, []):
                        per[who].append("kicked")
                    fatal_ok &= t[1:] == ("FATAL", "FATAL", "58000")
                elif lab.startswith("stmt:"):
                    per.setdefault(who, []).append("error:" + str(t[1]))
    return per, optotal, marks, fatal_ok


def monitor_backend(events, ops, impl_tokens):
    """model-free: every answered statement carries its own text back and was seen by a backend; the statements
    of one BEGIN..COMMIT ran on ONE backend connection, which was in a transaction (state T) when they
    arrived; BEGIN is answered with status T, COMMIT with tag COMMIT and status I."""
    probs = []
    by_sql = {}
    for e in events:
        if e.get("ev") == "msg" and e.get("tag") in ("Q", "E"):     # E: the Execute of an extended-protocol batch
            by_sql.setdefault(e["detail"].get("sql"), []).append(e)
    # the batch of a client that was told to go before its Sync must never reach a server
    for e in events:
        if e.get("ev") == "recv" and (e.get("label") or "").startswith("dead:"):
            sql = e["label"][5:]
            seen = [x for x in events if x.get("ev") == "msg" and (x.get("detail") or {}).get("sql") == sql]
            if seen:
                probs.append("client %s: the batch %r it had buffered when it was told to go reached backend %s" % (e["who"], sql, seen[0]["who"]))
            if any(f.get("t") in ("1", "2", "D", "C", "Z") for f in e.get("frames", [])):
                probs.append("client %s: its Sync after the administrator-command error was answered: %s" % (e["who"], [f.get("t") for f in e["frames"]]))
    recvs = {}
    for e in events:
        if e.get("ev") == "recv" and (e.get("label") or "").startswith("stmt:"):
            recvs.setdefault(e["who"], []).append(e)
    for c, rl in recvs.items():
        in_txn, txn_conn = False, None
        for e in rl:
            sql = e["label"][5:]
            fr = e.get("frames", [])
            if not any(f.get("t") == "Z" for f in fr) or any(f.get("t") == "E" for f in fr) or sql == "SHOW VERSION":
                continue
            z = [f for f in fr if f.get("t") == "Z"][-1].get("status")
            if sql == "BEGIN":
                in_txn, txn_conn = True, None
                if z != "T":
                    probs.append("client %s: BEGIN answered with status %s" % (c, z))
            elif sql == "COMMIT":
                tags = [f.get("tag") for f in fr if f.get("t") == "C"]
                if z != "I" or tags != ["COMMIT"]:
                    probs.append("client %s: COMMIT answered with %r status %s" % (c, tags, z))
                b = by_sql.get("COMMIT", [])
                if txn_conn is not None and not any((x["who"], str(x["conn"])) == txn_conn and x["state"]["txn"] == "T" for x in b):
                    probs.append("client %s: no COMMIT reached the transaction's backend connection %s in state T" % (c, txn_conn))
                in_txn, txn_conn = False, None
            elif sql.startswith("SELECT"):
                rows = [f["cols"] for f in fr if f.get("t") == "D"]
                if not rows or rows[0][2] != sql:
                    probs.append("client %s: the reply to %r does not carry the statement back: %r" % (c, sql, rows))
                    continue
                got = (rows[0][0], str(rows[0][1]))
                b = by_sql.get(sql, [])
                if not any((x["who"], str(x["conn"])) == got for x in b):
                    probs.append("client %s: %r answered by %s but not seen there" % (c, sql, got))
                    continue
                if in_txn:
                    if z != "T":
                        probs.append("client %s: statement %r inside a transaction answered with status %s" % (c, sql, z))
                    if any(x["state"]["txn"] != "T" for x in b):
                        probs.append("client %s: statement %r of an open transaction reached the backend outside a transaction" % (c, sql))
                    if txn_conn is None:
                        txn_conn = got
                    elif got != txn_conn:
                        probs.append("client %s: statement %r ran on %s, its transaction is on %s" % (c, sql, got, txn_conn))
    return probs


def compare(run, level, name, ops, trace, per_impl, optotal, marks, fatal_ok, nops, extra):
    """-> list of (kind, text) disagreements"""
    out = []
    _, _, idx = compile_script(ops)
    per_model = model_client_tokens(trace, idx, nops)
    for n in idx:
        m = per_model.get(n, [])
        i = [t for t in per_impl.get(n, [])]
        if m != i:
            out.append(("obs", "client %s: model %s, implementation %s" % (n, m, i)))
    if not fatal_ok:
        out.append(("monitor", "administrator-command error without severity FATAL / code 58000"))
    T = timeout_for(trace)
    sig_ms = None
    for k, op in enumerate(ops[:nops]):
        if op[0] in ("sig", "shutdown") and sig_ms is None and (op[0] == "shutdown" or op[1] == "int"):
            sig_ms = marks.get(k)
        if k in optotal:
            tot, ex, ms = optotal[k]
            t = trace[k]
            if ex != (t["exited"] is not None):
                out.append(("exit", "after op %d %s: model exited=%s, implementation exited=%s" % (k, op, t["exited"], ex),
                            {"k": k, "model": t["exited"], "impl": ex}))
            elif level == "wire" and not ex and tot != t["total"]:
                out.append(("total", "after op %d %s: model total_clients=%d, implementation %d" % (k, op, t["total"], tot)))
            if ex and t["exited"] is not None and sig_ms is not None and t["exited"] in ("ByZero", "ByTimer"):
                dt = ms - sig_ms
                if t["exited"] == "ByTimer" and not (T - 60 <= dt <= T + 3000):
                    out.append(("time", "exit by timer %d ms after SIGINT (shutdown_timeout %d)" % (dt, T)))
                if t["exited"] == "ByZero" and dt >= T - 200:
                    extra["timing_inconclusive"] = extra.get("timing_inconclusive", 0) + 1
            if ex:
                break
    return out


# ----------------------------------------------------------------------------- the real binary
def build_pgcat(timeout=1500):
    with vlib.Lock("cargo"):
        rc, out = vlib.sh("cargo build --offline --manifest-path %s --bin pgcat" % os.path.join(vlib.REPO, "Cargo.toml"),
                          env={"CARGO_TARGET_DIR": PGCAT_TARGET, "RUSTFLAGS": "-Awarnings"}, timeout=timeout)
    return rc == 0 and os.path.exists(PGCAT_BIN), out


def setup_extra():
    """setup.sh: pre-build the real binary"""
    ok, out = build_pgcat(timeout=3000)
    return ok


class PgClient:
    """minimal PostgreSQL v3 client over a plain socket"""
    def __init__(self, port):
        self.s = socket.create_connection(("127.0.0.1", port), timeout=3)
        self.s.setsockopt(socket.IPPROTO_TCP, socket.TCP_NODELAY, 1)
        self.buf, self.eof = b"", False

    def send(self, b):
        try:
            self.s.sendall(b); return True
        except OSError:
            return False

    def close(self):
        try:
            self.s.close()
        except OSError:
            pass

    @staticmethod
    def msg(tag, body=b""):
        return tag + struct.pack(">i", len(body) + 4) + body

    def _parse(self):
        if len(self.buf) < 5:
            return None
        ln = struct.unpack(">i", self.buf[1:5])[0]
        if ln < 4 or len(self.buf) < 1 + ln:
            return None
        t, body = chr(self.buf[0]), self.buf[5:1 + ln]
        self.buf = self.buf[1 + ln:]
        f = {"t": t}
        if t == "R" and len(body) >= 4:
            f["auth"] = struct.unpack(">i", body[:4])[0]; f["salt"] = body[4:8]
        elif t in "EN":
            fl = {}
            for part in body.split(b"\0"):
                if part:
                    fl[chr(part[0])] = part[1:].decode("utf-8", "replace")
            f["fields"] = fl
        elif t == "Z":
            f["status"] = body[:1].decode()
        elif t == "C":
            f["tag"] = body.rstrip(b"\0").decode("utf-8", "replace")
        elif t == "D":
            n = struct.unpack(">h", body[:2])[0]; p = 2; cols = []
            for _ in range(n):
                l = struct.unpack(">i", body[p:p + 4])[0]; p += 4
                if l < 0:
                    cols.append(None)
                else:
                    cols.append(body[p:p + l].decode("utf-8", "replace")); p += l
            f["cols"] = cols
        return f

    def read(self, until="Z", timeout=3.0):
        """frames until one whose tag is in `until` (""=until silence/EOF); -> (frames, ok|timeout|closed)"""
        deadline = time.monotonic() + timeout
        frames = []
        while True:
            f = self._parse()
            if f:
                frames.append(f)
                if f["t"] in until:
                    return frames, "ok"
                continue
            if self.eof:
                return frames, "closed"
            rem = deadline - time.monotonic()
            if rem <= 0:
                return frames, "timeout"
            try:
                self.s.settimeout(rem)
                d = self.s.recv(65536)
            except socket.timeout:
                return frames, "timeout"
            except OSError:
                self.eof = True; continue
            if not d:
                self.eof = True
            else:
                self.buf += d

    def login(self, params, password, timeout=3.0):
        self.send(startup_bytes(params))
        frames, out = self.read("RE", timeout)
        if frames and frames[-1]["t"] == "R" and frames[-1].get("auth") == 5:
            user = params["user"]
            inner = hashlib.md5((password + user).encode()).hexdigest()
            resp = "md5" + hashlib.md5(inner.encode() + frames[-1]["salt"]).hexdigest()
            self.send(self.msg(b"p", resp.encode() + b"\0"))
            f2, out = self.read("ZE", timeout)
            frames += f2
        elif frames and frames[-1]["t"] == "R" and frames[-1].get("auth") == 0:
            f2, out = self.read("ZE", timeout)
            frames += f2
        return frames, out

    def query(self, sql, timeout=3.0):
        self.send(self.msg(b"Q", sql.encode() + b"\0"))
        return self.read("Z", timeout)


def free_port():
    s = socket.socket(); s.bind(("127.0.0.1", 0)); p = s.getsockname()[1]; s.close()
    return p


class Binary:
    """one pgcat process + its mock backends"""
    def __init__(self, mockd, timeout_ms, tag, zero_ok=True):
        self.dir = os.path.join(vlib.TMP, "c17", "bin_%s_%d_%d" % (tag, os.getpid(), threading.get_ident() % 100000))
        os.makedirs(self.dir, exist_ok=True)
        self.mock = subprocess.Popen([mockd], stdin=subprocess.PIPE, stdout=subprocess.PIPE, stderr=subprocess.DEVNULL)
        self.mock.stdin.write((json.dumps({"backends": [{"name": "b0"}]}) + "\n").encode()); self.mock.stdin.flush()
        self.bport = json.loads(self.mock.stdout.readline())["ports"]["b0"]
        self.proc, self.port, self.err = None, None, None
        for attempt in range(8):
            if attempt:
                # the listener could not bind (port taken between free_port() and bind, or the machine is out of ephemeral
                # ports while other checks run): a resource problem of the harness, back off and try another port
                time.sleep(1.5 * attempt)
            self.port = free_port()
            cfg = make_toml(timeout_ms, self.port).replace("@PORT:b0@", str(self.bport))
            path = os.path.join(self.dir, "pgcat.toml")
            open(path, "w").write(cfg)
            self.logf = open(os.path.join(self.dir, "pgcat.log"), "w")
            self.proc = subprocess.Popen([PGCAT_BIN, path, "--no-color"], stdout=self.logf, stderr=subprocess.STDOUT, cwd=self.dir)
            t0 = time.monotonic()
            up = False
            while time.monotonic() - t0 < 15 and self.proc.poll() is None:
                if "Waiting for clients" in open(os.path.join(self.dir, "pgcat.log")).read():
                    up = True; break
                time.sleep(0.02)
            if up:
                return
            self.kill()
        self.err = "pgcat did not start: " + open(os.path.join(self.dir, "pgcat.log")).read()[-600:]

    def kill(self):
        if self.proc and self.proc.poll() is None:
            self.proc.kill()
            try:
                self.proc.wait(5)
            except Exception:
                pass

    def mock_cmd(self, cmd, want):
        try:
            self.mock.stdin.write((json.dumps(cmd) + "\n").encode()); self.mock.stdin.flush()
            while True:
                l = self.mock.stdout.readline()
                if not l:
                    return {}
                v = json.loads(l)
                if want in v:
                    return v
        except Exception:
            return {}

    def finish(self):
        self.kill()
        ev = self.mock_cmd({"op": "dump"}, "events").get("events", [])
        try:
            self.mock.stdin.close(); self.mock.wait(3)
        except Exception:
            self.mock.kill()
        try:
            self.logf.close()
        except Exception:
            pass
        if not os.environ.get("C17_KEEP"):
            import shutil
            shutil.rmtree(self.dir, ignore_errors=True)
        return ev

    def wait_exit(self, timeout):
        t0 = time.monotonic()
        while time.monotonic() - t0 < timeout:
            if self.proc.poll() is not None:
                return True
            time.sleep(0.003)
        return self.proc.poll() is not None


def run_binary_script(mockd, name, ops, trace):
    """-> observation dict, same shape as the in-process one"""
    T = timeout_for(trace)
    _, _, idx = compile_script(ops)
    B = Binary(mockd, T, name.replace("/", "_")[:20])
    if B.err:
        B.finish()
        return {"error": B.err}
    cl, per, events, optotal, marks = {}, {}, [], {}, {}
    dead, pending = {}, {}      # kicked clients whose socket we keep; client -> statement of its buffered batch
    noexit_sig = None
    fatal_ok = True
    tagn = 0
    nops = 0
    exit_rc = None

    def note_frames(who, lab, frames, outcome):
        nonlocal fatal_ok, noexit_sig
        events.append({"who": who, "ev": "recv", "label": lab, "frames": frames, "outcome": outcome})
        for f in frames:
            if f["t"] == "E" and f["fields"].get("M") == ADMIN_MSG:
                fatal_ok &= (f["fields"].get("S"), f["fields"].get("V"), f["fields"].get("C")) == ("FATAL", "FATAL", "58000")

    def admin_err(frames):
        return any(f["t"] == "E" and f["fields"].get("M") == ADMIN_MSG for f in frames)

    def probe(n, wait):
        c = cl.get(n)
        if not c:
            return
        frames, out = c.read("E" if wait > 0.1 else "", wait)
        note_frames(n, "probe", frames, out)
        if admin_err(frames):
            if "kicked" not in per.setdefault(n, []):
                per[n].append("kicked")
            f2, out2 = c.read("", 0.3)
            events.append({"who": n, "ev": "after_kick", "frames": f2, "outcome": out2})
            dead[n] = c; del cl[n]
    try:
        for k, op in enumerate(ops):
            nops = k + 1
            kind = op[0]
            marks[k] = time.monotonic() * 1000
            if kind == "connect":
                _, n, ck, mode, ok = op
                p, pw = conn_params(ck, mode)
                try:
                    c = PgClient(B.port)
                    frames, out = c.login(p, pw if ok else "wrong")
                except OSError as ex:
                    c, frames, out = None, [], "connect_failed"
                note_frames(n, "startup", frames, out)
                authok = any(f["t"] == "R" and f.get("auth") == 0 for f in frames)
                if authok and any(f["t"] == "Z" for f in frames):
                    per.setdefault(n, []).append("admitted"); cl[n] = c
                elif admin_err(frames):
                    per.setdefault(n, []).append("refused")
                    if any(f["t"] == "R" for f in frames):
                        events.append({"who": n, "ev": "problem", "what": "authentication exchange before the refusal"})
                elif any(f["t"] == "E" for f in frames):
                    per.setdefault(n, []).append("authfail")
                else:
                    per.setdefault(n, []).append("noreply:" + out)
            elif kind == "accept_late":
                cl[op[1]] = PgClient(B.port); time.sleep(0.03)
            elif kind == "auth_late":
                c = cl[op[1]]
                frames, out = c.login({"user": "t", "database": "db"}, "")
                note_frames(op[1], "late", frames, out)
                if any(f["t"] == "R" and f.get("auth") == 0 for f in frames) and any(f["t"] == "Z" for f in frames):
                    per.setdefault(op[1], []).append("admitted")
                elif admin_err(frames):
                    per.setdefault(op[1], []).append("refused")
                else:
                    per.setdefault(op[1], []).append("noreply:" + out)
            elif kind in ("begin", "stmt", "commit", "auto", "admin_cmd"):
                tagn += 1
                sql = {"begin": "BEGIN", "commit": "COMMIT", "admin_cmd": "SHOW VERSION"}.get(kind, "SELECT %d /*q%d*/" % (tagn, tagn))
                c = cl.get(op[1])
                events.append({"who": op[1], "ev": "sent", "msgs": [{"t": "Q", "sql": sql}]})
                frames, out = c.query(sql) if c else ([], "closed")
                note_frames(op[1], "stmt:" + sql, frames, out)
                errs = [f for f in frames if f["t"] == "E"]
                if any(f["t"] == "Z" for f in frames) and not errs:
                    per.setdefault(op[1], []).append("served")
                elif admin_err(frames):
                    per.setdefault(op[1], []).append("kicked")
                elif errs:
                    per.setdefault(op[1], []).append("error:" + errs[0]["fields"].get("M", ""))
                else:
                    per.setdefault(op[1], []).append("noreply:" + out)
            elif kind == "ext_batch":
                tagn += 1
                sql = "SELECT %d /*x%d*/" % (tagn, tagn)
                pending[op[1]] = sql
                c = cl.get(op[1])
                if c:
                    c.send(PgClient.msg(b"P", b"\0" + sql.encode() + b"\0" + struct.pack(">h", 0)) +
                           PgClient.msg(b"B", b"\0\0" + struct.pack(">hhh", 0, 0, 0)) +
                           PgClient.msg(b"E", b"\0" + struct.pack(">i", 0)))
                events.append({"who": op[1], "ev": "sent", "msgs": [{"t": "P", "sql": sql}, {"t": "B"}, {"t": "E"}]})
            elif kind == "ext_sync":
                c = cl.get(op[1])
                sql = pending.pop(op[1], "?")
                if c:
                    c.send(PgClient.msg(b"S"))
                frames, out = c.read("Z", 3.0) if c else ([], "closed")
                note_frames(op[1], "stmt:" + sql, frames, out)
                errs = [f for f in frames if f["t"] == "E"]
                if any(f["t"] == "Z" for f in frames) and not errs:
                    per.setdefault(op[1], []).append("served")
                elif admin_err(frames):
                    per.setdefault(op[1], []).append("kicked")
                elif errs:
                    per.setdefault(op[1], []).append("error:" + errs[0]["fields"].get("M", ""))
                else:
                    per.setdefault(op[1], []).append("noreply:" + out)
            elif kind == "ext_sync_dead":
                c = dead.get(op[1]) or cl.get(op[1])
                sql = pending.pop(op[1], "?")
                frames, out = [], "closed"
                if c:
                    c.send(PgClient.msg(b"S"))
                    frames, out = c.read("Z", 0.3)
                note_frames(op[1], "dead:" + sql, frames, out)
                if frames and not all(f["t"] == "E" for f in frames):
                    per.setdefault(op[1], []).append("answered-after-kick")
            elif kind == "sig":
                os.kill(B.proc.pid, signal.SIGINT if op[1] == "int" else signal.SIGTERM)
            elif kind == "shutdown":
                c = cl.get(op[1])
                frames, out = c.query("SHUTDOWN", 1.0) if c else ([], "closed")
                note_frames(op[1], "shutdown", frames, out)
            elif kind == "close":
                c = cl.pop(op[1], None)
                if c:
                    if op[2] == "clean":
                        c.send(PgClient.msg(b"X"))
                    c.close()
            elif kind == "panic":
                c = cl.pop(op[1], None)
                if c:
                    c.send(bytes.fromhex("51fffffffe"))
                    frames, out = c.read("", 0.4)
                    note_frames(op[1], "panic", frames, out)
                    c.close()
            elif kind == "cancel":
                try:
                    s = socket.create_connection(("127.0.0.1", B.port), timeout=2)
                    s.sendall(struct.pack(">iiii", 16, 80877102, 4242, 17))
                    s.settimeout(0.3)
                    try:
                        s.recv(16)
                    except OSError:
                        pass
                    s.close()
                except OSError:
                    pass
            t = trace[k]
            want_exit = t["exited"] is not None
            if want_exit:
                gone = B.wait_exit((T + 3000) / 1000.0 if kind == "wait_timer" else 2.5)
            else:
                time.sleep(0.04)
                gone = B.proc.poll() is not None
            optotal[k] = (None, gone, time.monotonic() * 1000)
            if want_exit and not gone:
                # the process should be gone: is the main loop still serving?  (a wedged loop accepts nobody)
                try:
                    a = PgClient(B.port); fr, o_ = a.login({"user": "admin", "database": "pgcat"}, "adminpw", 1.0); a.close()
                    noexit_sig = "admin login answered" if fr else "admin login not answered"
                except OSError as ex_:
                    noexit_sig = "connect failed: %s" % ex_
            kicked = new_kicks(trace, k, idx)
            if gone:
                exit_rc = B.proc.returncode
                for n in list(cl):
                    if n in kicked:
                        probe(n, 1.0)
                break
            signalled = any(o[0] in ("sig", "shutdown") for o in ops[:k + 1])
            for n in list(cl):
                if n in kicked:
                    probe(n, 1.5)
                elif signalled:
                    probe(n, 0.015)
        # the process is gone (or the script ended): what do the clients that are still connected see?
        after = {}
        if B.proc.poll() is not None:
            for n, c in list(cl.items()):
                frames, out = c.read("", 0.5)
                after[n] = out
                if admin_err(frames):
                    after[n] = out + "+admin_error"     # the broadcast channel is dropped before the runtime: harmless
            try:
                s = socket.create_connection(("127.0.0.1", B.port), timeout=1); s.close()
                after["#new_connection"] = "accepted"
            except OSError:
                after["#new_connection"] = "refused"
        alive_end = B.proc.poll() is None
    finally:
        for c in list(cl.values()) + list(dead.values()):
            c.close()
        bev = B.finish()
    return {"per": per, "optotal": optotal, "marks": marks, "fatal_ok": fatal_ok, "nops": nops, "events": events + bev,
            "exit_rc": exit_rc, "after": after, "alive_end": alive_end, "dir": B.dir, "noexit_sig": noexit_sig}


# ----------------------------------------------------------------------------- races: the signal against a client action
# Each race has two (or more) linearisations; the model is evaluated on each, the implementation's
# observation must be one of them (membership, counted per outcome).
def race_defs():
    c = lambda n: ["connect", n, "normal", "txn", True]
    return {
        # SIGINT right after a client got its ReadyForQuery: counted in time (kicked), or not yet counted: the
        # process exits under it at once (known defect E1, theorem c17_exit_before_counted_refuted)
        "login-vs-int": {"alts": {"counted-then-kicked": [c("c0"), ["sig", "int"]],
                                  "E1-exit-before-counted": [["connect_uncounted", "c0"], ["sig_uncounted", "int"]]}},
        # an idle client's BEGIN and SIGINT at the same instant: kicked at once, or that one transaction is served first
        "begin-vs-int": {"alts": {"kicked-first": [c("c0"), ["sig", "int"]],
                                  "txn-first": [c("c0"), ["begin", "c0"], ["sig", "int"], ["commit", "c0"]]}},
        # Parse/Bind/Execute (no Sync) of an idle client and SIGINT at the same instant: whichever is seen first, the
        # client holds no server and is in the outer loop: told to go
        "extbatch-vs-int": {"alts": {"kicked": [c("c0"), ["ext_batch", "c0"], ["sig", "int"]]}},
        # COMMIT of a running transaction and SIGINT at the same instant: always served, then kicked
        "commit-vs-int": {"alts": {"served": [c("c0"), ["begin", "c0"], ["sig", "int"], ["commit", "c0"]]}},
        # a new connection and SIGINT at the same instant (a transaction of k keeps the process alive)
        "connect-vs-int": {"alts": {"refused": [c("k"), ["begin", "k"], ["sig", "int"], c("c0"), ["commit", "k"]],
                                    "admitted-then-kicked": [c("k"), ["begin", "k"], ["accept_late", "c0"], ["sig", "int"], ["auth_late", "c0"], ["commit", "k"]]}},
    }


def race_binary(mockd, name, order, i):
    """-> tokens of client c0 (and k) observed on the real binary"""
    B = Binary(mockd, T_LONG, "race%s%d" % (name[:3], i))
    if B.err:
        B.finish(); return {"error": B.err}
    per = {}
    try:
        def tok(n, frames, lab):
            if any(f["t"] == "E" and f["fields"].get("M") == ADMIN_MSG for f in frames):
                if lab == "startup" and not any(f["t"] == "R" and f.get("auth") == 0 for f in frames):
                    per.setdefault(n, []).append("refused"); return
                if any(f["t"] == "Z" for f in frames):
                    per.setdefault(n, []).append("admitted" if lab == "startup" else "served")
                per.setdefault(n, []).append("kicked"); return
            if any(f["t"] == "Z" for f in frames) and not any(f["t"] == "E" for f in frames):
                per.setdefault(n, []).append("admitted" if lab == "startup" else "served")
        sigint = lambda: os.kill(B.proc.pid, signal.SIGINT)
        if name == "login-vs-int":
            c0 = PgClient(B.port); fr, _ = c0.login({"user": "u", "database": "db"}, "pw"); tok("c0", fr, "startup")
            sigint()
            fr, out = c0.read("E", 2.0); tok("c0", fr, "probe")
        elif name == "begin-vs-int":
            c0 = PgClient(B.port); fr, _ = c0.login({"user": "u", "database": "db"}, "pw"); tok("c0", fr, "startup")
            time.sleep(0.05)        # let the client task send its +1 (the window of E1 is raced separately)
            q = PgClient.msg(b"Q", b"BEGIN\0")
            if order == 0:
                c0.send(q); sigint()
            else:
                sigint(); c0.send(q)
            fr, out = c0.read("ZE", 2.0); tok("c0", fr, "stmt")
            if not fr and out == "closed":
                # our BEGIN reached a socket pgcat had already closed: the RST discards the unread error frame
                # on our side (TCP, not pgcat): the client was disconnected without having been served
                per["c0"].append("kicked"); per["#reset"] = True
            elif "kicked" not in per["c0"]:
                fr, out = c0.query("COMMIT", 2.0); tok("c0", fr, "stmt")
                fr, out = c0.read("E", 2.0); tok("c0", fr, "probe")
        elif name == "extbatch-vs-int":
            c0 = PgClient(B.port); fr, _ = c0.login({"user": "u", "database": "db"}, "pw"); tok("c0", fr, "startup")
            time.sleep(0.05)
            q = (PgClient.msg(b"P", b"\0SELECT 1 /*xr*/\0" + struct.pack(">h", 0)) + PgClient.msg(b"B", b"\0\0" + struct.pack(">hhh", 0, 0, 0)) +
                 PgClient.msg(b"E", b"\0" + struct.pack(">i", 0)))
            if order == 0:
                c0.send(q); sigint()
            else:
                sigint(); c0.send(q)
            fr, out = c0.read("E", 2.0); tok("c0", fr, "probe")
            if not fr and out == "closed":
                per["c0"].append("kicked"); per["#reset"] = True     # error frame lost to the RST our unread batch provoked
            else:
                c0.send(PgClient.msg(b"S")); fr, out = c0.read("Z", 0.3)
                if any(f["t"] in "12DCZ" for f in fr):
                    per["c0"].append("answered-after-kick")
        elif name == "commit-vs-int":
            c0 = PgClient(B.port); fr, _ = c0.login({"user": "u", "database": "db"}, "pw"); tok("c0", fr, "startup")
            time.sleep(0.05)
            fr, _ = c0.query("BEGIN"); tok("c0", fr, "stmt")
            q = PgClient.msg(b"Q", b"COMMIT\0")
            if order == 0:
                c0.send(q); sigint()
            else:
                sigint(); c0.send(q)
            fr, out = c0.read("Z", 2.0); tok("c0", fr, "stmt")
            fr, out = c0.read("E", 2.0); tok("c0", fr, "probe")
        elif name == "connect-vs-int":
            k = PgClient(B.port); fr, _ = k.login({"user": "u", "database": "db"}, "pw"); tok("k", fr, "startup")
            time.sleep(0.05)
            fr, _ = k.query("BEGIN"); tok("k", fr, "stmt")
            if order == 0:
                c0 = PgClient(B.port); sigint()
            else:
                sigint(); c0 = PgClient(B.port)
            fr, out = c0.login({"user": "t", "database": "db"}, ""); tok("c0", fr, "startup")
            if per.get("c0") == ["admitted"]:
                fr, out = c0.read("E", 2.0); tok("c0", fr, "probe")
            fr, _ = k.query("COMMIT"); tok("k", fr, "stmt")
            fr, out = k.read("E", 2.0); tok("k", fr, "probe")
        exited = B.wait_exit(3.0)
        silent = None
        if not exited:
            try:
                a = PgClient(B.port); fr, _ = a.login({"user": "admin", "database": "pgcat"}, "adminpw", 1.0); a.close()
                silent = not fr
            except OSError:
                silent = None
        return {"per": per, "exited": exited, "rc": B.proc.returncode, "loop_silent": silent}
    except OSError as ex:
        return {"per": per, "oserror": str(ex), "exited": B.proc.poll() is not None}
    finally:
        B.finish()


def check_races(run, mockd, reps):
    defs = race_defs()
    names, scripts = [], []
    for rn, d in defs.items():
        for an, ops in d["alts"].items():
            names.append((rn, an)); scripts.append((rn + "/" + an, ops))
    traces = eval_scripts(scripts)
    allowed = {}
    for (rn, an), (_, ops), t in zip(names, scripts, traces):
        if t is None:
            run.broken.append("race alternative %s/%s is not executable in the model" % (rn, an)); continue
        _, _, idx = compile_script(ops)
        per = model_client_tokens(t, idx)
        allowed.setdefault(rn, {})[an] = ({n: per[n] for n in per if per[n]}, t[-1]["exited"])
    jobs = [(rn, order, i) for rn in defs for order in (0, 1) for i in range(reps)]
    with ThreadPoolExecutor(max_workers=8) as ex:
        outs = list(ex.map(lambda j: race_binary(mockd, j[0], j[1], j[2] * 2 + j[1]), jobs))
    hist, n = {}, 0
    for (rn, order, i), o in zip(jobs, outs):
        if "error" in o:
            run.broken.append("race %s failed to start: %s" % (rn, o["error"][:200])); continue
        n += 1
        reset = o["per"].pop("#reset", False)
        match = [an for an, (per, cause) in allowed.get(rn, {}).items() if per == o["per"]]
        key = "%s/%s%s" % (rn, match[0] if match else "UNEXPECTED", "(error frame lost to a TCP reset)" if reset else "")
        hist[key] = hist.get(key, 0) + 1
        if not match or not o.get("exited") or o.get("rc") != 0:
            run.violation("counterexample" if match else "tie-broken",
                          "race %s (order %d): observed %s exited=%s rc=%s; the model allows %s" % (rn, order, o["per"], o.get("exited"), o.get("rc"), {a: p for a, (p, _) in allowed.get(rn, {}).items()}),
                          {"correspondence": "Shutdown/Model.v linearisations vs the pgcat binary", "level": "race", "race": rn, "order": order, "impl": o,
                           "model_alternatives": {a: {"per_client": p, "exit": c} for a, (p, c) in allowed.get(rn, {}).items()}},
                          found_input=True)
    return n, hist


# ----------------------------------------------------------------------------- the wedge (defect) hunt
def wedge_attempt(mockd, i, flood_tasks=6, flood_ms=700, pre=0.25):
    """nobody connected, a burst of bogus CancelRequests (each is +1, -1 on the drain channel), SIGINT in the
    middle: model schedule W2.  Wedged = the process neither exits by itself (total_clients is 0) nor at
    shutdown_timeout, nor on SIGTERM."""
    B = Binary(mockd, 1000, "wedge%d" % i)
    if B.err:
        B.finish(); return {"error": B.err}
    try:
        B.mock.stdin.write((json.dumps({"op": "flood", "port": B.port, "tasks": flood_tasks, "ms": flood_ms}) + "\n").encode()); B.mock.stdin.flush()
        time.sleep(pre)
        os.kill(B.proc.pid, signal.SIGINT)
        exited = B.wait_exit(4.0)          # 0 clients: immediate; the timer: 1 s
        res = {"exited": exited}
        if not exited:
            os.kill(B.proc.pid, signal.SIGTERM)
            res["exits_on_sigterm"] = B.wait_exit(2.0)
            log = open(os.path.join(B.dir, "pgcat.log")).read()
            res["log_tail"] = log[-400:]
            res["timed_out_logged"] = "Graceful shutdown timed out" in log
        return res
    finally:
        B.finish()


# ----------------------------------------------------------------------------- check
def eval_scripts(named, adv=False):
    exprs = [model_expr(ops, adv=adv) for _, ops in named]
    vals = vlib.coq_eval("c17coq", PREAMBLE, exprs, shard=60)
    return [parse_trace(v, ops) for v, (_, ops) in zip(vals, named)]


def check(run):
    quick = run.tier == "quick"
    rng = run.rng
    run.assumptions += [
        "Coq 8.16.1 kernel + vm_compute; no axioms (Print Assumptions: closed under the global context)",
        "coq/Shutdown/Model.v is a hand transcription of main.rs:205-339, client.rs client_entrypoint/startup gate/outer-loop select, admin.rs shutdown (T2: validated by the two correspondence levels on every run)",
        "tokio semantics assumed: mpsc FIFO + send waits on a full channel, broadcast reaches the receivers that exist at send, select! may pick any ready arm, a panicking task is isolated",
        "signal delivery by the OS and the wall clock of timers are environment (only coarse windows are checked)",
        "the drain channel's bound (2048) is not modelled",
    ]
    run.cov["trusted_base"] = ["coqc 8.16.1 kernel", "vm_compute", "coq/Shutdown/Model.v (hand model)", "harness/src/pooler.rs (transcription of main.rs' loop, in-process level only)",
                               "harness/src/mockpg.rs + bin/mockd.rs (mock PostgreSQL)", "props/c17.py (scripted clients, canonicalisation)",
                               "tokio channel/select!/signal semantics", "Print Assumptions: Closed under the global context (all theorems)"]
    proof_ok, log = vlib.prove(run, COQ_FILES, "Shutdown/Props.v")
    run.log("proof ok=%s" % proof_ok)
    ok, blog, bins = vlib.cargo_build(["wire", "mockd"])
    if not ok:
        run.violation("tie-broken", "wire/mockd harness does not build against /repo", {"correspondence": "harness build", "log": blog[-3000:]}, found_input=False)
        return
    okb, plog = build_pgcat()
    if not okb:
        run.violation("tie-broken", "the pgcat binary does not build", {"correspondence": "cargo build of /repo", "log": plog[-3000:]}, found_input=False)
        return
    run.log("harness + pgcat binary built")
    if not proof_ok:
        if not run.broken:
            run.violation("proof-broken", "Shutdown/Props.v no longer checks", {"theorem": "Shutdown/Props.v", "coq_log": log[-2500:]}, found_input=False)
        return

    named = core_scripts()
    nrand_wire = 60 if quick else 900
    for i in range(nrand_wire):
        named.append(("rand%d" % i, random_script(rng)))
    traces = eval_scripts(named)
    drift = [n for (n, _), t in zip(named, traces) if t is None]
    if drift:
        run.broken.append("generator produced scripts the model cannot execute: %s" % drift[:5])
    cases = [(n, ops, t) for (n, ops), t in zip(named, traces) if t is not None]
    classes = set(abstract_class(ops, t) for _, ops, t in cases)
    causes = {}
    for _, ops, t in cases:
        causes[str(t[-1]["exited"])] = causes.get(str(t[-1]["exited"]), 0) + 1
    run.log("%d scripts (%d distinct classes), model exit causes %s" % (len(cases), len(classes), causes))

    extra = {}
    evals = 0
    # (a) in-process
    scns = [wire_scenario(ops, t) for _, ops, t in cases]
    results = W.run_scenarios(bins["wire"], [s for s, _ in scns], workers=12, timeout=60)
    wire_dis = 0
    for (n, ops, t), (scn, nops), res in zip(cases, scns, results):
        if "harness_error" in res or "start_error" in res:
            run.broken.append("wire harness failed on %s: %s" % (n, res.get("harness_error") or res.get("start_error")))
            continue
        per, optotal, marks, fatal_ok = wire_observe(res, ops, nops)
        dis = compare(run, "wire", n, ops, t, per, optotal, marks, fatal_ok, nops, extra)
        for p in monitor_backend(res.get("events", []), ops, per):
            dis.append(("monitor", p))
        evals += 1
        run.cov["traces_validated_against_impl"] += 1
        if dis and any(d[0] == "exit" for d in dis):
            dis.append(("info", "accept loop probe after the run: %s" % per.get("#zz")))
        if dis:
            wire_dis += 1
            kindv = "counterexample" if any(d[0] == "monitor" for d in dis) else "tie-broken"
            run.violation(kindv, "in-process: script %s: %s" % (n, "; ".join(d[1] for d in dis[:3])),
                          {"correspondence": "Shutdown/Model.v script_trace vs wire harness", "level": "wire", "script": ops,
                           "model": [dict(x) for x in t], "impl": {"per_client": per, "per_op": {str(k): v for k, v in optotal.items()}}, "disagreements": dis},
                          found_input=any(d[0] in ("monitor", "obs", "exit") for d in dis))
            if wire_dis >= 3:
                break
    run.log("in-process: %d scenarios, %d disagreements" % (len(cases), wire_dis))

    # (b) the real binary
    bin_cases = cases[:len(core_scripts())] + cases[len(core_scripts()):][: (8 if quick else 150)]
    bin_dis = 0
    with ThreadPoolExecutor(max_workers=8) as ex:
        bres = list(ex.map(lambda c: run_binary_script(bins["mockd"], c[0], c[1], c[2]), bin_cases))
    exit_codes = {}
    for (n, ops, t), o in zip(bin_cases, bres):
        if "error" in o:
            run.broken.append("binary level failed on %s: %s" % (n, o["error"][:300]))
            continue
        dis = compare(run, "binary", n, ops, t, o["per"], o["optotal"], o["marks"], o["fatal_ok"], o["nops"], extra)
        for p in monitor_backend(o["events"], ops, o["per"]):
            dis.append(("monitor", p))
        for e in o["events"]:
            if e.get("ev") == "problem":
                dis.append(("monitor", "%s: %s" % (e["who"], e["what"])))
        if o["exit_rc"] is not None:
            exit_codes[o["exit_rc"]] = exit_codes.get(o["exit_rc"], 0) + 1
            if o["exit_rc"] != 0:
                dis.append(("exit", "pgcat exit status %s" % o["exit_rc"]))
            # (whether the port still accepts is not checked: another process may have been given the port meanwhile)
        if t[-1]["exited"] is None and not o["alive_end"]:
            dis.append(("exit", "the process exited although the model does not"))
        evals += 1
        run.cov["traces_validated_against_impl"] += 1
        if dis and o.get("noexit_sig"):
            dis.append(("info", "main loop probe where the exit was due: %s" % o["noexit_sig"]))
        if dis:
            bin_dis += 1
            kindv = "counterexample" if any(d[0] == "monitor" for d in dis) else "tie-broken"
            run.violation(kindv, "binary: script %s: %s" % (n, "; ".join(d[1] for d in dis[:3])),
                          {"correspondence": "Shutdown/Model.v script_trace vs the pgcat binary", "level": "binary", "script": ops,
                           "model": [dict(x) for x in t], "impl": {"per_client": o["per"], "exit_rc": o["exit_rc"], "after": o["after"]}, "disagreements": dis},
                          found_input=any(d[0] in ("monitor", "obs", "exit") for d in dis))
    run.log("binary: %d scenarios, %d disagreements, exit codes %s" % (len(bin_cases), bin_dis, exit_codes))

    # (b') the signal racing with a client action: membership in the model's linearisations
    nrace, hist = check_races(run, bins["mockd"], 3 if quick else 40)
    evals += nrace
    run.cov["race_outcomes"] = hist
    run.log("races: %d runs, outcomes %s" % (nrace, hist))
    e1 = sum(v for k, v in hist.items() if "E1-" in k)
    if e1:
        run.known_finding("the process exited at once under a client that had just been told it is connected (SIGINT between its ReadyForQuery and its task's drain.send(1)): %d of %d login-vs-int races on the binary; model: c17_exit_before_counted_refuted" % (e1, sum(v for k, v in hist.items() if k.startswith("login-vs-int"))), key="F-C17-exit-before-counted-seen")

    # (c) regressions of the repaired defects, on the binary
    #  F-C17-zero-timeout: shutdown_timeout = 0 must be rejected when the configuration is parsed
    zt = zero_timeout_probe(bins["mockd"])
    run.cov["zero_timeout_probe"] = zt
    evals += 1
    if not zt.get("rejected"):
        run.violation("counterexample", "shutdown_timeout = 0 is accepted by the configuration parser: %s" % zt,
                      {"input": {"general.shutdown_timeout": 0}, "impl": zt, "expected": "config::parse fails (Config::validate)"})
    #  F-C17-wedge / F-C17-sigint-full: SIGINT during a burst of CancelRequests with nobody connected: the process
    #  must be gone at shutdown_timeout at the latest (model: c17_exit_liveness); a hang is a violation
    n_hunt = 12 if quick else 60
    with ThreadPoolExecutor(max_workers=4) as ex:
        hunts = list(ex.map(lambda i: wedge_attempt(bins["mockd"], i, flood_tasks=(6 if i % 2 == 0 else 64), pre=(0.25 if i % 2 == 0 else 0.15)), range(n_hunt)))
    hung = [h for h in hunts if h.get("exited") is False]
    evals += len([h for h in hunts if "error" not in h])
    run.cov["sigint_under_cancel_flood"] = {"attempts": n_hunt, "hung": len(hung), "start_errors": sum(1 for h in hunts if "error" in h)}
    for h in hung[:2]:
        run.violation("counterexample", "SIGINT during a burst of CancelRequests, no client connected: the process did not exit within 4 s (shutdown_timeout 1000 ms)%s" %
                      ("" if h.get("exits_on_sigterm") else " and ignores SIGTERM"),
                      {"input": {"schedule": "flood of bogus CancelRequests (+1,-1 each), SIGINT in the middle", "shutdown_timeout": 1000}, "impl": h,
                       "theorem": "c17_exit_liveness / c17_never_wedged (model); mutant: c17_mutant_await_exit_liveness_refuted"})
    run.known_finding("client.rs: a client is counted (drain.send(1)) only AFTER it has been answered (ReadyForQuery); a SIGINT handled in between finds total_clients == 0 and the process exits immediately under the client (theorem c17_exit_before_counted_refuted, example ex_exit_before_counted)", key="F-C17-exit-before-counted")

    run.cov["evaluations"] = evals
    run.cov["distinct_nontrivial"] = len(classes)
    run.cov["rule"] = ("%d hand-written boundary scripts (population x {SIGINT, admin SHUTDOWN, SIGTERM} x timing: before/inside/between transactions, arrivals, late authentication, "
                       "panic/close/cancel, double SIGINT, timer, Parse/Bind/Execute buffered without Sync outside / inside a transaction / session-held) + %d seeded random scripts; every script evaluated in coqc (script_trace) and run in-process; the boundary scripts + %d random "
                       "ones also against the real binary. distinct = distinct (population with phases at the signal, signal, post-signal op sequence, model exit cause)"
                       % (len(core_scripts()), nrand_wire, len(bin_cases) - len(core_scripts())))
    run.cov["samples"] = [{"name": n, "script": ops, "model_exit": t[-1]["exited"], "model_total": t[-1]["total"]} for n, ops, t in (cases[6:8] + cases[-2:])]
    run.cov["input_distribution"] = {"scripts": len(cases), "model_exit_causes": causes, "binary_scenarios": len(bin_cases), "binary_exit_codes": {str(k): v for k, v in exit_codes.items()},
                                     "with_admin_shutdown": sum(1 for _, ops, _ in cases if any(o[0] == "shutdown" for o in ops)),
                                     "with_sigterm": sum(1 for _, ops, _ in cases if ["sig", "term"] in ops),
                                     "with_late_auth": sum(1 for _, ops, _ in cases if any(o[0] == "accept_late" for o in ops)),
                                     "with_panic": sum(1 for _, ops, _ in cases if any(o[0] == "panic" for o in ops)),
                                     "with_buffered_ext_batch_at_signal": sum(1 for _, ops, _ in cases if "+batch" in str(abstract_class(ops, None)[0])),
                                     "with_sync_after_kick": sum(1 for _, ops, _ in cases if any(o[0] == "ext_sync_dead" for o in ops)),
                                     "timing_inconclusive": extra.get("timing_inconclusive", 0)}
    run.cov["disagreements_checked"] = wire_dis + bin_dis
    if not quick and proof_ok:
        vlib.coqchk(run, ["PV.Shutdown.Props"])


def zero_timeout_probe(mockd):
    """shutdown_timeout = 0 must not get past config::parse (the timer task would panic on a zero interval)."""
    d = os.path.join(vlib.TMP, "c17", "tz_%d" % os.getpid())
    os.makedirs(d, exist_ok=True)
    try:
        cfg = make_toml(0, free_port()).replace("@PORT:b0@", "5432")
        path = os.path.join(d, "pgcat.toml")
        open(path, "w").write(cfg)
        try:
            p = subprocess.run([PGCAT_BIN, path, "--no-color"], stdout=subprocess.PIPE, stderr=subprocess.STDOUT, timeout=6, cwd=d)
            out = p.stdout.decode("utf-8", "replace")
            return {"rejected": p.returncode != 0 and "Waiting for clients" not in out, "rc": p.returncode,
                    "message": [l for l in out.splitlines() if "shutdown_timeout" in l or "Config" in l][-2:]}
        except subprocess.TimeoutExpired as ex:
            return {"rejected": False, "rc": None, "message": "still running after 6 s: the configuration was accepted"}
    finally:
        import shutil
        shutil.rmtree(d, ignore_errors=True)


def replay(run, path):
    r = json.load(open(path))
    ops = r.get("script")
    print(json.dumps({k: r[k] for k in r if k in ("what", "level", "script", "disagreements")}, indent=1)[:3000])
    if not ops:
        return 0
    ok, blog, bins = vlib.cargo_build(["wire", "mockd"])
    (t,) = eval_scripts([("replay", ops)])
    if t is None:
        print("replay: the model cannot execute this script"); return 2
    extra = {}
    if r.get("level") == "binary":
        okb, _ = build_pgcat()
        o = run_binary_script(bins["mockd"], "replay", ops, t)
        dis = compare(run, "binary", "replay", ops, t, o["per"], o["optotal"], o["marks"], o["fatal_ok"], o["nops"], extra) + [("monitor", p) for p in monitor_backend(o["events"], ops, o["per"])]
        print("replay (binary): per client", o["per"], "exit status", o["exit_rc"])
    else:
        scn, nops = wire_scenario(ops, t)
        res = W.run_scenario(bins["wire"], scn)
        per, optotal, marks, fatal_ok = wire_observe(res, ops, nops)
        dis = compare(run, "wire", "replay", ops, t, per, optotal, marks, fatal_ok, nops, extra) + [("monitor", p) for p in monitor_backend(res.get("events", []), ops, per)]
        print("replay (in-process): per client", per)
    print("model:", json.dumps(t)[:1500])
    print("disagreements:", dis)
    return 1 if dis else 0
