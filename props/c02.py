"""C02 — a server connection is clean whenever it changes hands.
P: coq/Session/Props.v (c02_clean_handoff, c02_returned_only_clean, c02_idle_is_clean,
   c01_c02_log_monitor, c02_belief_tracks_truth) by induction over all op sequences.
T: props/session_common.py — model vs real client loop over the wire harness + model-free monitor."""
import json
import vlib
from props import session_common as S
from props import wirelib as W

PROP = "C02"


def run_check(run, prop):
    quick = run.tier == "quick"
    run.assumptions += [
        "Coq 8.16.1 kernel + vm_compute; Print Assumptions: closed under the global context",
        "coq/Session/Model.v is a hand transcription of Client::handle / Server::recv / checkin_cleanup / has_broken at message granularity (validated per run against the real code over the wire)",
        "PostgreSQL session semantics are those of harness/src/mockpg.rs = bexec in the model (no real PostgreSQL in the sandbox)",
        "bb8 hands a connection to one borrower and consults has_broken on put_back (bb8-0.8.6 inner.rs)",
        "scope: one server address, statement caching/plugins/parser off in the model; SET inside a committed transaction block is outside the property's text",
    ]
    run.cov["trusted_base"] = ["coqc 8.16.1 kernel", "vm_compute", "harness (wire.rs, mockpg.rs, client.rs, pooler.rs)", "props/session_common.py",
                               "hand-written model coq/Session/Model.v", "Print Assumptions: Closed under the global context"]
    ok, log = vlib.prove(run, S.COQ_FILES, "Session/Props.v", extra_targets=["Session/Obs.vo"])
    run.log("proof ok=%s" % ok)
    bok, blog, bins = vlib.cargo_build(["wire"])
    if not bok:
        run.violation("tie-broken", "harness does not build against /repo", {"correspondence": "wire harness build", "log": blog[-3000:]}, found_input=False)
        return
    wire = bins["wire"]
    cases = S.directed_cases() + S.gen_cases(run.rng, 280 if quick else 3000)
    models = S.model_observe(cases) if ok else [None] * len(cases)
    scns = [S.scenario(*c, inuse=(m[4] if m is not None else None)) for c, m in zip(cases, models)]
    results = W.run_scenarios(wire, scns, timeout=90)
    distinct, nontrivial, handoffs = set(), 0, 0
    opkinds = {}
    first_dis = None
    all_dis = []
    for case, model, res in zip(cases, models, results):
        ops, ps, sm, caching, cc = case
        key = json.dumps([ops, ps, sm, caching, cc])
        distinct.add(key)
        for o in ops:
            opkinds[o[0]] = opkinds.get(o[0], 0) + 1
        run.cov["evaluations"] += 1
        if "harness_error" in res or "start_error" in res:
            run.broken.append("wire harness failed: %s" % (res.get("harness_error") or res.get("start_error")))
            continue
        v01, v02 = S.monitors(res, caching, cc)
        mine = v02 if prop == "C02" else v01
        for v in mine[:1]:
            run.violation("counterexample", "%s monitor on the implementation: %s" % (prop, json.dumps(v)),
                          {"input": {"ops": ops, "pool_size": ps, "session_mode": sm, "caching": caching, "cleanup_server_connections": cc}, "monitor": v, "scenario": S.scenario(*case)})
        il = S.impl_conn_logs(res)
        handoffs += sum(1 for _, items in il for i, x in enumerate(items) if x["k"] == "client" and any(y["k"] == "client" and y["c"] != x["c"] for y in items[:i]))
        if model is not None:
            run.cov["traces_validated_against_impl"] += 1
            if model[3] != 1:
                run.broken.append("model log fails its own monitor (theorem says impossible)")
            dis = S.compare(case, model, res)
            if dis:
                all_dis.append((case, model, res, dis))
    # a disagreement is reported when it shows again on two immediate re-runs of the same case: the scripted clients are
    # synchronised with pgcat's check-in through the pools' in-use count, which a loaded machine can miss (a timing
    # artefact of the harness, counted below); a real difference between model and code is deterministic
    run.cov["unreproduced_disagreements"] = 0
    for case, model, res, dis in all_dis[:6]:
        again = W.run_scenarios(wire, [S.scenario(*case, inuse=model[4]) for _ in range(2)], timeout=90)
        rep = [S.compare(case, model, r2) for r2 in again]
        if all(rep):
            first_dis = (case, model, res, dis)
            break
        run.cov["unreproduced_disagreements"] += 1
        run.log("disagreement not reproduced on re-run (%s): %s" % ([bool(x) for x in rep], dis[0]))
    if first_dis and not run.violations:
        case, model, res, dis = first_dis
        run.cov["disagreements_checked"] += 1
        run.violation("tie-broken", "session model and implementation disagree: %s" % dis[0],
                      {"correspondence": "coq/Session/Model.v run vs wire trace (per-connection statement log)",
                       "input": {"ops": case[0], "pool_size": case[1], "session_mode": case[2], "caching": case[3], "cleanup_server_connections": case[4]},
                       "disagreement": dis, "model_events": model[0], "impl": [(cid, [(x["k"], x.get("c"), x.get("sql")) for x in items]) for cid, items in S.impl_conn_logs(res)]},
                      found_input=False)
    # soak: free-running concurrent clients (thread-level interleavings the op model does not enumerate)
    nsoak = 4 if quick else 60
    soaks = [S.soak_scenario(run.rng, run.rng.choice([4, 8, 16]), run.rng.choice([1, 2, 3]), 6 if quick else 25, session_mode=False) for _ in range(nsoak)]
    sres = W.run_scenarios(wire, soaks, timeout=240)
    soak_msgs = 0
    for scn, res in zip(soaks, sres):
        run.cov["evaluations"] += 1
        if "harness_error" in res or "start_error" in res:
            run.broken.append("soak harness failed: %s" % (res.get("harness_error") or res.get("start_error")))
            continue
        soak_msgs += len(W.backend_msgs(res))
        v01, v02 = S.monitors(res, False)
        for v in (v02 if prop == "C02" else v01)[:1]:
            run.violation("counterexample", "%s monitor on a concurrent soak run: %s" % (prop, json.dumps(v)), {"input": {"soak": True}, "monitor": v, "scenario": scn})
        snap = (res.get("snapshots") or [{}])[-1]
        for b in snap.get("backends", {}).values():
            ps = max(u["pool_size"] if isinstance(u, dict) and "pool_size" in u else 0 for u in [{}])
    run.cov["soak"] = {"runs": nsoak, "backend_messages_observed": soak_msgs}
    # environment faults the op model has no op for (late health check reply, server-side reset of idle connections):
    # monitors only - no reply of another request, no foreign statement inside a transaction, clean hand-off
    envs = S.env_scenarios(run.rng, 12 if quick else 150)
    eres = W.run_scenarios(wire, envs, timeout=240)
    env_kinds = {}
    for scn, res in zip(envs, eres):
        run.cov["evaluations"] += 1
        if "harness_error" in res or "start_error" in res:
            run.broken.append("environment-fault scenario failed to run: %s" % (res.get("harness_error") or res.get("start_error")))
            continue
        env_kinds[scn["_kind"]] = env_kinds.get(scn["_kind"], 0) + 1
        run.cov["traces_validated_against_impl"] += 1
        v01, v02 = S.monitors(res, False)
        own = S.own_reply_problems(res)
        probs = (v02 if prop == "C02" else v01) + own
        for v in probs[:1]:
            run.violation("counterexample", "%s monitor on an environment-fault scenario (%s): %s" % (prop, scn["_kind"], json.dumps(v)),
                          {"input": {"environment_fault": scn["_kind"]}, "monitor": v, "scenario": {k: w for k, w in scn.items() if k != "_kind"}})
    run.cov["environment_fault_scenarios"] = env_kinds
    run.cov["distinct_nontrivial"] = len(distinct)
    run.cov["rule"] = ("24 directed op sequences (regressions of repaired defects) + seeded random sequences of 5-14 ops over 2-3 clients + a canary, pool sizes 1-2, "
                       "transaction/session mode, caching on/off; ops: Connect, Query(1-3 statements of Begin/Commit/Rollback/Select/Set/Prepare/Fail/CopyIn), Batch(named?), CopyDone/Fail, "
                       "Terminate, Drop, BadMsg, PanicMsg, IdleTimeout, StmtTimeout, ServerDies. distinct = distinct (ops, pool size, mode, caching) tuples; all are non-trivial (>= 1 hand-off or fault)")
    run.cov["samples"] = [{"ops": cases[0][0], "pool_size": cases[0][1], "model_events": models[0][0] if models[0] else None},
                          {"ops": cases[-1][0], "pool_size": cases[-1][1], "session_mode": cases[-1][2], "caching": cases[-1][3]}]
    run.cov["input_distribution"] = {"op_kinds": opkinds, "cases": len(cases), "observed_handoffs_between_clients": handoffs}
    if not ok and not run.violations and not run.broken:
        run.violation("proof-broken", "Session/Props.v no longer checks", {"theorem": "coq/Session/Props.v", "coq_log": log[-2500:]}, found_input=False)
    if not quick and ok:
        vlib.coqchk(run, ["PV.Session.Props"])


def check(run):
    run_check(run, PROP)


def replay(run, path):
    r = json.load(open(path))
    print(json.dumps(r, indent=1)[:4000])
    if "scenario" in r:
        bok, blog, bins = vlib.cargo_build(["wire"])
        res = W.run_scenario(bins["wire"], r["scenario"])
        v01, v02 = S.monitors(res, r["input"].get("caching", False), r["input"].get("cleanup_server_connections", True))
        print("replay monitors: C01", v01, "C02", v02)
        return 1 if (v02 if PROP == "C02" else v01) else 0
    return 0
