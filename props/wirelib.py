"""Build pgcat TOML configs and run wire scenarios (harness bin `wire`) 16-way parallel."""
import json, os, subprocess
from concurrent.futures import ThreadPoolExecutor
import vlib


def toml_val(v):
    if isinstance(v, bool):
        return "true" if v else "false"
    if isinstance(v, (int, float)):
        return str(v)
    if isinstance(v, list):
        return "[" + ", ".join(toml_val(x) for x in v) + "]"
    return json.dumps(v)


def make_toml(general=None, pools=None, plugins=None):
    """pools: {name: {"opts": {...}, "users": [{...}], "shards": [{"database": d, "servers": [[backend, role],...], "mirrors": [[backend, idx]]}]}}
    backend names are replaced by the harness with 127.0.0.1 + the mock's port (@PORT:name@)."""
    g = {"host": "127.0.0.1", "port": 6432, "admin_username": "admin", "admin_password": "adminpw",
         "connect_timeout": 1000, "healthcheck_timeout": 500, "healthcheck_delay": 30000, "shutdown_timeout": 1500,
         "ban_time": 60, "idle_timeout": 600000, "server_lifetime": 86400000, "worker_threads": 2,
         "validate_config": False, "log_client_connections": False, "log_client_disconnections": False}
    g.update(general or {})
    out = ["[general]"] + ["%s = %s" % (k, toml_val(v)) for k, v in g.items()] + [""]
    for pname, p in (pools or {}).items():
        out.append("[pools.%s]" % pname)
        opts = {"pool_mode": "transaction", "default_role": "any", "query_parser_enabled": False,
                "query_parser_read_write_splitting": False, "primary_reads_enabled": True, "sharding_function": "pg_bigint_hash",
                "prepared_statements_cache_size": 0}
        opts.update(p.get("opts", {}))
        for k, v in opts.items():
            out.append("%s = %s" % (k, toml_val(v)))
        out.append("")
        if p.get("plugins"):
            out.append(p["plugins"].replace("[plugins", "[pools.%s.plugins" % pname))
        for i, u in enumerate(p.get("users", [{"username": "u", "password": "pw", "pool_size": 2}])):
            out.append("[pools.%s.users.%d]" % (pname, i))
            uu = {"username": "u", "password": "pw", "pool_size": 2}
            uu.update(u)
            for k, v in uu.items():
                out.append("%s = %s" % (k, toml_val(v)))
            out.append("")
        for si, sh in enumerate(p.get("shards", [])):
            key = sh.get("key", str(si))
            out.append("[pools.%s.shards.%s]" % (pname, key))
            out.append("database = %s" % toml_val(sh.get("database", "db%d" % si)))
            srv = ", ".join('["127.0.0.1", @PORT:%s@, "%s"]' % (b, r) for b, r in sh["servers"])
            out.append("servers = [%s]" % srv)
            if sh.get("mirrors"):
                out.append("mirrors = [%s]" % ", ".join('["127.0.0.1", @PORT:%s@, %d]' % (b, i) for b, i in sh["mirrors"]))
            out.append("")
    if plugins:
        out.append(plugins)
    return "\n".join(out) + "\n"


RESOURCE_ERRORS = ("Address already in use", "os error 98", "Cannot assign requested address", "os error 99", "AddrInUse", "AddrNotAvailable",
                   "Too many open files", "os error 24")


def run_scenario(wire, scn, timeout=60):
    """One scenario in its own harness process.  A failure to get a local TCP port (the ephemeral range is finite and
    thousands of scenarios per minute leave sockets in TIME_WAIT) is an accident of the machine, not an observation of
    the pooler: such a run is repeated after a pause."""
    import time
    for attempt in range(6):
        res = _run_scenario_once(wire, scn, timeout)
        err = str(res.get("start_error") or res.get("harness_error") or "")
        if err and any(x in err for x in RESOURCE_ERRORS) and attempt < 5:
            time.sleep(2 + 3 * attempt)
            continue
        if "harness_panic" in res:
            # the harness's OWN main thread panicked (a socket / thread it could not get under load, start-up code): pgcat's client
            # tasks run in spawned tasks and cannot do that.  Not an observation of the pooler: repeat, then report as a fault.
            if attempt < 4:
                time.sleep(2 + 3 * attempt)
                continue
            return {"harness_fault": "harness main thread panicked: %s (pooler started: %s)" % (res.get("harness_panic"), res.get("pooler_started"))}
        if err.startswith("no output rc=101") and attempt < 2:
            # the harness's own main thread panicked before it could report (typically an unwrap on a socket it could not get)
            time.sleep(2)
            continue
        return res
    return res


def _run_scenario_once(wire, scn, timeout=60):
    scn = dict(scn)
    scn.setdefault("tmpdir", vlib.TMP)
    try:
        p = subprocess.run([wire], input=json.dumps(scn).encode(), stdout=subprocess.PIPE, stderr=subprocess.PIPE, timeout=timeout)
    except subprocess.TimeoutExpired:
        return {"harness_error": "timeout"}
    out = p.stdout.decode("utf-8", "replace").strip().splitlines()
    if not out:
        return {"harness_error": "no output rc=%s stderr=%s" % (p.returncode, p.stderr.decode("utf-8", "replace")[-1500:])}
    try:
        return json.loads(out[-1])
    except Exception as e:
        return {"harness_error": "bad json: %s" % e}


def run_scenarios(wire, scns, workers=16, timeout=60):
    with ThreadPoolExecutor(max_workers=workers) as ex:
        return list(ex.map(lambda s: run_scenario(wire, s, timeout), scns))


def backend_msgs(res, backend=None):
    """[(conn, tag, detail, state)] in global order."""
    out = []
    for e in res.get("events", []):
        if e.get("ev") == "msg" and (backend is None or e["who"] == backend):
            out.append(e)
    return out


def client_frames(res, c):
    fr = []
    for e in res.get("events", []):
        if e.get("who") == c and e.get("ev") in ("recv", "startup_done"):
            fr.extend(e["frames"])
    return fr
