"""C08 layer-2 tie: the cache model (coq/Prep/Cache.v) against pgcat in-process + mock PostgreSQL backends.

A model program is a list of ops Parse/Bind/Describe/Execute/Close/Sync c s/Cleanup s.  On the wire:
  * one pool, one mock backend, pool_size = number of model servers; model server s = the s-th server
    connection pgcat opens.  The transaction -> connection assignment is FORCED and read back: one blocker
    client z_i per connection sits in BEGIN; for `Sync c s` the blocker z_s commits (connection s becomes the
    only idle one), the client's batch (all its buffered messages + Sync, one write) is sent and its replies
    are read to ReadyForQuery / socket close, then z_s does BEGIN again.  The backend log says which
    connection each message arrived on; a scenario whose read-back assignment differs from the intended one
    (or in which pgcat re-opened a connection) is re-predicted with the observed assignment or set aside.
  * `Cleanup s`: z_s runs `PREPARE zz AS SELECT 1` on connection s (CommandComplete PREPARE => checkin_cleanup
    sends DEALLOCATE ALL and clears the server cache).
  * programs are batch-atomic (a client's buffered messages are sent together with its Sync): there is no
    reply to a buffered message, hence no way to order two clients' buffering deterministically on the wire;
    interleaved buffering is covered by the proof and the model-level sampling only.
Compared: per client, per Sync, the exact reply sequence (1 2 3 t+n/T D+C E Z, which statement each Execute
ran / Describe described) or the disconnect; per server connection the exact sequence of extended-protocol
messages pgcat sent (its out-of-band Parse/Close/Sync included) with PGCAT_<n> names.  Model-free monitor: every
Execute that produced a result ran the (query, types) this client most recently Parsed under the bound name.
"""
import json, struct
import vlib
from props import wirelib as W


def stmt_sql(st):
    if 90 <= st <= 94:
        return "SELECT %d /*mock: parse_error*/" % st, [st]
    if 95 <= st <= 97:
        return "SELECT %d /*mock: error*/" % st, [st]
    if st == 99:
        return "DEALLOCATE ALL", []
    return "SELECT %d" % st, [st]            # the parameter-type list identifies the statement in ParameterDescription


def st_of_sql(sql):
    if sql.startswith("DEALLOCATE"):
        return 99
    return int(sql.split()[1])


def name_sql(n):
    return "" if n == 0 else "s%d" % n


def atomicize(ops):
    """stable reorder: each client's buffered ops move to just before its next Sync (trailing ones are dropped)"""
    pend, out = {}, []
    for o in ops:
        k = o["op"]
        if k == "Sync":
            out += pend.pop(o["c"], []) + [o]
        elif k == "Cleanup":
            out.append(o)
        else:
            pend.setdefault(o["c"], []).append(o)
    return out


def msg_of(o):
    k = o["op"]
    if k == "Parse":
        sql, types = stmt_sql(o["st"])
        return {"t": "P", "name": name_sql(o["n"]), "sql": sql, "types": types}
    if k == "Bind":
        return {"t": "B", "portal": name_sql(o.get("p", 0)), "name": name_sql(o["n"]), "fmts": [], "params": [], "rfmts": []}
    if k == "Describe":
        return {"t": "D", "kind": "S", "name": name_sql(o["n"])}
    if k == "Execute":
        return {"t": "E", "portal": name_sql(o.get("p", 0)), "max": 0}
    if k == "DescribeP":
        return {"t": "D", "kind": "P", "name": name_sql(o.get("p", 0))}
    if k == "CloseP":
        return {"t": "C", "kind": "P", "name": name_sql(o.get("p", 0))}
    if k == "Close":
        return {"t": "C", "kind": "S", "name": name_sql(o["n"])}
    raise ValueError(k)


def scenario(prog):
    """prog: {"k", "servers", "ops" (batch-atomic)} -> wire scenario"""
    ns, k = prog["servers"], prog["k"]
    toml = W.make_toml(general={"connect_timeout": 8000},
                       pools={"db": {"opts": {"prepared_statements_cache_size": k},
                                     "users": [{"username": "u", "password": "pw", "pool_size": ns}],
                                     "shards": [{"database": "db0", "servers": [["b0", "primary"]]}]}})
    clients = sorted({o["c"] for o in prog["ops"] if "c" in o})

    def conn(c):
        return {"op": "connect", "c": c, "params": {"user": "u", "database": "db"}, "password": "pw", "timeout_ms": 8000}

    def q(c, sql):
        return [{"op": "send", "c": c, "msgs": [{"t": "Q", "sql": sql}]}, {"op": "recv", "c": c, "until": "Z", "timeout_ms": 8000, "label": "blocker"}]
    steps = [conn("z%d" % i) for i in range(ns)] + [conn("c%d" % c) for c in clients]
    for i in range(ns):
        steps += q("z%d" % i, "BEGIN")
    batch = {}
    for o in prog["ops"]:
        kd = o["op"]
        if kd == "Cleanup":
            z = "z%d" % o["s"]
            steps += q(z, "COMMIT") + q(z, "PREPARE zz AS SELECT 1") + q(z, "BEGIN")
        elif kd == "Sync":
            z, c = "z%d" % o["s"], "c%d" % o["c"]
            steps += q(z, "COMMIT")
            steps.append({"op": "send", "c": c, "msgs": [msg_of(x) for x in batch.pop(o["c"], [])] + [{"t": "S"}]})
            steps.append({"op": "recv", "c": c, "until": "Z", "timeout_ms": 8000, "label": "sync"})
            steps += q(z, "BEGIN")
        else:
            batch.setdefault(o["c"], []).append(o)
    for c in clients:       # is the client still connected?  (closed = its task ended)
        steps.append({"op": "recv", "c": "c%d" % c, "until": "Z", "timeout_ms": 120, "label": "probe"})
    return {"backends": [{"name": "b0"}], "toml": toml, "hex": True, "steps": steps}


def frames_of(rawhex):
    b = bytes.fromhex(rawhex or "")
    out, i = [], 0
    while i + 5 <= len(b):
        (ln,) = struct.unpack(">i", b[i + 1:i + 5])
        out.append((chr(b[i]), b[i + 5:i + 1 + ln]))
        i += 1 + ln
    return out


def replies_of(frames):
    """wire frames of one Sync -> the model's reply alphabet"""
    out, i = [], 0
    while i < len(frames):
        t, body = frames[i]
        if t == "1":
            out.append("R1")
        elif t == "2":
            out.append("R2")
        elif t == "3":
            out.append("R3")
        elif t == "t":
            (n,) = struct.unpack(">h", body[:2])
            types = [struct.unpack(">i", body[2 + 4 * j:6 + 4 * j])[0] for j in range(n)]
            out.append(["RDescr", types[0] if types else 99])
            if i + 1 < len(frames) and frames[i + 1][0] in ("n", "T"):
                i += 1
        elif t in ("n", "T"):
            out.append("RDescrP")                       # Describe('P'): NoData / RowDescription on its own
        elif t == "D":
            # DataRow: columns (backend, conn, statement text, ...)
            (nc,) = struct.unpack(">h", body[:2])
            p, cols = 2, []
            for _ in range(nc):
                (l,) = struct.unpack(">i", body[p:p + 4]); p += 4
                cols.append(None if l < 0 else body[p:p + l].decode("utf-8", "replace")); p += max(l, 0)
            out.append(["RRow", st_of_sql(cols[2])])
            if i + 1 < len(frames) and frames[i + 1][0] == "C":
                i += 1
        elif t == "C":
            tag = body.rstrip(b"\0").decode()
            out.append(["RRow", 99] if tag.startswith("DEALLOCATE") else ["Cmd", tag])
        elif t == "E":
            out.append("RErr")
        elif t == "Z":
            out.append("RZ")
        elif t in ("S", "N"):
            pass
        else:
            out.append(["Frame", t])
        i += 1
    return out


def observe(prog, res):
    """-> {"clients": {c: [obs...]}, "conns": {conn: [bmsg...]}, "assign": [(op index, conn)], "reopened": bool, "errors": [...]}"""
    ns = prog["servers"]
    ev = res.get("events", [])
    opens = [e["conn"] for e in ev if e.get("ev") == "open" and e.get("who") == "b0"]
    out = {"clients": {}, "conns": {}, "reopened": len(opens) > ns, "opens": opens, "monitor": [], "task_results": res.get("task_results")}
    # per-client view: what each Sync returned
    cur_parse = {}     # (c, name) -> (sql, types) most recently sent
    last_bind = {}
    for e in ev:
        who = e.get("who", "")
        if e.get("ev") == "sent" and who.startswith("c"):
            c = int(who[1:])
            execs = []
            ptab = {}                                   # portals of this batch: portal name -> (sql, types) bound
            for m in e["msgs"]:
                if m["t"] == "P":
                    cur_parse[(c, m["name"])] = (m["sql"], m["types"])
                elif m["t"] == "B":
                    ptab[m["portal"]] = cur_parse.get((c, m["name"]))
                elif m["t"] == "C" and m.get("kind") == "P":
                    ptab.pop(m["name"], None)
                elif m["t"] == "E":
                    execs.append(ptab.get(m["portal"]))
            out.setdefault("_execs", {})[c] = execs
        if e.get("ev") == "recv" and who.startswith("c") and e.get("label") == "probe":
            c = int(who[1:])
            lst = out["clients"].setdefault(c, [])
            if e["outcome"] == "closed" and not (lst and lst[-1]["kind"] == "Killed"):
                lst.append({"kind": "Killed", "replies": []})
        if e.get("ev") == "recv" and who.startswith("c") and e.get("label") == "sync":
            c = int(who[1:])
            fr = frames_of(e.get("raw"))
            rs = replies_of(fr)
            kind = "Replies" if e["outcome"] == "ok" else ("Killed" if e["outcome"] in ("closed", "eof", "reset") else "Other:" + str(e["outcome"]))
            lst = out["clients"].setdefault(c, [])
            if kind == "Killed" and not rs and lst and lst[-1]["kind"] == "Killed":
                continue                                   # still dead
            lst.append({"kind": kind, "replies": rs})
            # monitor: every result row came from the statement this client most recently prepared under the bound name
            rows = [r for r in rs if isinstance(r, list) and r[0] == "RRow"]
            exp = out.get("_execs", {}).get(c, [])
            # rows appear in Execute order; an error stops the batch, so rows pair with the first len(rows) Executes
            for r, want in zip(rows, exp):
                if want is None or st_of_sql(want[0]) != r[1]:
                    out["monitor"].append({"client": c, "ran": r[1], "most_recently_prepared": want})
    # per-connection view
    for e in ev:
        if e.get("ev") == "msg" and e.get("who") == "b0":
            t, d = e["tag"], e["detail"]
            if t == "P":
                m = ["BParse", d["name"], st_of_sql(d["sql"]), d["types"]]
            elif t == "B":
                m = ["BBind", d["name"], d["portal"]]
            elif t == "D":
                m = ["BDesc", d["name"]] if d.get("kind") == "S" else ["BDescP", d["name"]]
            elif t == "E":
                m = ["BExec", d["portal"]]
            elif t == "C":
                if d.get("kind") == "P":
                    m = ["BCloseP", d["name"]]
                else:
                    m = ["BClose", d["name"]] if d["name"] else "BCloseUnnamed"
            elif t == "S":
                m = "BSync"
            elif t == "Q":
                sql = d.get("sql", "")
                if sql in ("BEGIN", "COMMIT") or sql.startswith("PREPARE zz"):
                    continue
                m = ["Q", sql]
            else:
                m = ["Other", t]
            out["conns"].setdefault(e["conn"], []).append(m)
    out.pop("_execs", None)
    return out


def model_view(prog, pred):
    """prediction -> the same shape as observe()"""
    cl = {}
    for o in pred["client_obs"]:
        cl.setdefault(o["client"], []).append({"kind": o["kind"], "replies": o["replies"]})
    conns = {}
    names = pred["pgcat_names"]
    for s, b in enumerate(pred["backends"]):
        ms = []
        for m in b["received"]:
            if isinstance(m, list) and m[0] == "BParse":
                ms.append(["BParse", "PGCAT_%d" % m[1], m[2], stmt_sql(m[2])[1]])
            elif isinstance(m, list) and m[0] == "BBind":
                ms.append(["BBind", "PGCAT_%d" % m[1], name_sql(m[2])])
            elif isinstance(m, list) and m[0] in ("BExec", "BDescP", "BCloseP"):
                ms.append([m[0], name_sql(m[1])])
            elif isinstance(m, list):
                ms.append([m[0], "PGCAT_%d" % m[1]])
            else:
                ms.append(m)
        conns[s + 1] = ms
    return {"clients": cl, "conns": conns}


def normalise_obs(view):
    """Per client.  A disconnect is seen on the wire only at the next read: `Killed []` (socket found closed) is merged
    into the client's preceding Sync result on both sides, so "error_response, then the task ends" (model: Killed [E Z] when
    the Bind is buffered) and "replies, then found dead" compare equal; what is lost is only WHEN between two Syncs the
    task ended."""
    out = {}
    for c, lst in view["clients"].items():
        acc = []
        for o in lst:
            rs = ["RDescrP" if (isinstance(r, list) and r[0] == "RDescrP") else (tuple(r) if isinstance(r, list) else r) for r in o["replies"]]
            if o["kind"] == "Killed" and not rs and acc and acc[-1][0] == "Replies":
                acc[-1] = ("Killed", acc[-1][1])
            elif o["kind"] == "Killed" and acc and acc[-1][0] == "Killed":
                continue
            else:
                acc.append((o["kind"], rs))
        out[c] = acc
    return out


def diff(prog, obs, pred):
    mv = model_view(prog, pred)
    a, b = normalise_obs(obs), normalise_obs(mv)
    problems = []
    for c in sorted(set(a) | set(b)):
        x, y = a.get(c, []), b.get(c, [])
        if x != y:
            problems.append("client %d: implementation %s, model %s" % (c, x, y))
    for conn in sorted(set(obs["conns"]) | set(mv["conns"])):
        x = [tuple(m) if isinstance(m, list) else m for m in obs["conns"].get(conn, [])]
        x = [m for m in x if not (isinstance(m, tuple) and m[0] == "Q")]
        y = [tuple(m) if isinstance(m, list) else m for m in mv["conns"].get(conn, [])]
        x = [(m[0], m[1], m[2], tuple(m[3])) if isinstance(m, tuple) and m[0] == "BParse" else m for m in x]
        y = [(m[0], m[1], m[2], tuple(m[3])) if isinstance(m, tuple) and m[0] == "BParse" else m for m in y]
        if x != y:
            problems.append("server connection %d received %s, model %s" % (conn, x, y))
    return problems
