"""C03, statement caching ON (prepared_statements_cache_size in {1, 8}): the relay "modulo the permitted differences".

Permitted (the property): renamed prepared statements, pooler-synthesised ParseComplete / CloseComplete.  Everything else
is still the identity.  The monitor is model-free; per client batch (messages up to and including a Sync):

  backend side   the Sync-terminated groups of messages the backend received during the exchange are classified:
      * in-band   = the client's batch, message by message and byte by byte, where
                      - a Parse / Bind / Describe(S) differs from the client's message ONLY in the statement name
                        (which must be PGCAT_<n>) and in the length word, by exactly the name-length difference;
                      - a Parse may be missing (answered by the pooler) only if the backend session already holds a statement
                        with that query and parameter types (mock's session state at that instant);
                      - a Close of a named statement is missing (answered by the pooler);
                      - every other message (Execute, Describe P, Close P, Close of the unnamed statement, Sync) is identical;
                      - the renamed name of a Bind / Describe(S) denotes, in the backend session, the query the client most
                        recently Parsed under the name it used;
      * out-of-band = pgcat's own exchange: Close(S, PGCAT_<n>)* [Parse(PGCAT_<n>, a query some client Parse carried)] Sync,
                      arriving before the batch it prepares for; its replies must not reach the client;
      a batch with anything but answered Parses/Closes must have exactly one in-band group; nothing else may arrive.
  client side    the frames received for the batch are the backend's reply to the in-band group, byte for byte, plus exactly
                 one empty '1' per answered Parse and one empty '3' per answered Close, and exactly one ReadyForQuery; a
                 batch answered entirely by the pooler gets only those and one 'Z'.
  soft           whether the synthesised frames stand where PostgreSQL would have put them (pgcat writes them ahead of the
                 server's replies, client.rs "NOTE: it's possible we don't perfectly send things back in the same order");
                 counted, not judged.
The renaming itself (only name and length change) is C08's theorem c08_*_rename_only_name_and_len; here it is observed on
the wire for every Parse/Bind/Describe that went through.
"""
import copy, re, struct
from props import wirelib as W

PG = re.compile(rb"^PGCAT_\d+$")


def enc(f):
    return f[0].encode("latin1") + struct.pack(">i", len(f[1]) + 4) + f[1]


def split_frames(b):
    out, i = [], 0
    while i + 5 <= len(b):
        ln = struct.unpack(">i", b[i + 1:i + 5])[0]
        if ln < 4 or i + 1 + ln > len(b):
            break
        out.append((chr(b[i]), b[i + 5:i + 1 + ln]))
        i += 1 + ln
    return out, b[i:]


def cut(b, i=0):
    j = b.index(b"\0", i)
    return b[i:j], j + 1


def stmt_of_parse(body):
    """Parse body -> (name, query, rest-after-query)"""
    name, i = cut(body)
    q, j = cut(body, i)
    return name, q, body[j:]


# --------------------------------------------------------------------------- scenarios
def toml(k):
    return W.make_toml(pools={"db": {"opts": {"prepared_statements_cache_size": k},
                                     "users": [{"username": "u", "password": "pw", "pool_size": 1}],
                                     "shards": [{"database": "db0", "servers": [["b0", "primary"]]}]}})


def rand_params(rng):
    n = rng.choice([0, 0, 1, 2, 3, 4])
    params = []
    for _ in range(n):
        c = rng.random()
        if c < 0.3:
            params.append(None)                                   # NULL: length -1, no bytes
        elif c < 0.45:
            params.append("")                                     # empty value: length 0
        elif c < 0.75:
            params.append(rng.choice(["1", "42", "hello", "w" * rng.randint(1, 40)]))
        else:
            params.append({"hex": bytes(rng.getrandbits(8) for _ in range(rng.choice([1, 2, 4, 8, 13]))).hex()})
    fm = rng.choice(["none", "one", "per"])
    fmts = [] if fm == "none" else [rng.randint(0, 1)] if fm == "one" else [rng.randint(0, 1) for _ in range(n)]
    rf = rng.choice([[], [], [0], [1], [0, 1, 0]])
    return fmts, params, rf


def make_scenarios(run, g, quick, make_reply, bad_frame=None):
    """extended-protocol request streams against a small set of statements, so that cache hits, misses and (size 1)
    evictions occur; batches the pooler answers entirely by itself are followed by ordinary ones.
    make_reply() -> list of frames the backend sends for an Execute (without ReadyForQuery)."""
    rng = run.rng
    scns = []
    for i in range(36 if quick else 1200):
        k = rng.choice([1, 8])
        nst = rng.randint(2, 4)
        stm = []
        for j in range(nst):
            body = make_reply()
            segs = g.cuts(body) if rng.random() < 0.3 else []
            d = "raw=%s" % b"".join(enc(f) for f in body).hex() + (", segs=%s" % ":".join(map(str, segs)) if segs else "")
            stm.append({"sql": "/*mock: %s*/ SELECT %d" % (d, j), "types": rng.choice([[], [], [23], [25, 23], [0]])})
        known = {}                                                # client statement name -> statement index
        ex = []
        in_txn = False
        for e in range(rng.randint(4, 7)):
            if rng.random() < 0.12:                               # a simple query in between (BEGIN/COMMIT hold or release the server)
                sql = "COMMIT" if in_txn else rng.choice(["BEGIN", "SELECT 1 /*mock: rows=2*/"])
                in_txn = sql == "BEGIN" or (in_txn and sql != "COMMIT")
                ex.append({"msgs": [{"t": "Q", "sql": sql}], "until": "Z", "count": 1, "timeout": 4000})
                continue
            nb = rng.choice([1, 1, 1, 2, 3])                       # pipelined batches in one write
            msgs = []
            for b in range(nb):
                shape = rng.random()
                if shape < 0.14 and known:                        # answered by the pooler alone: named Close(s) + Sync
                    for n in rng.sample(sorted(known), rng.randint(1, min(2, len(known)))):
                        msgs.append({"t": "C", "kind": "S", "name": n})
                        known.pop(n)
                elif shape < 0.28 and known:                      # Parse of a statement that is (probably) cached + Sync
                    n = rng.choice(sorted(known))
                    msgs.append({"t": "P", "name": n, "sql": stm[known[n]]["sql"], "types": stm[known[n]]["types"]})
                else:
                    # a batch names at most `k` distinct pooler statements (more is C08's known class F11e: the
                    # eviction Close overtakes the batch that still uses the statement).  With k = 1 the pool-level
                    # cache also holds one entry, so a name prepared earlier and the same query prepared again are two
                    # pooler statements: one Parse/Bind/Execute group per batch then.
                    batch_stmts = set()
                    for part in range(1 if k == 1 else rng.choice([1, 1, 2])):
                        j = rng.randrange(nst)
                        if len(batch_stmts | {j}) > k:
                            j = sorted(batch_stmts)[0]
                        batch_stmts.add(j)
                        name = rng.choice(["", "", "s%d" % j, "s%d" % j, "t%d" % rng.randint(0, 2)])
                        if name not in known or known[name] != j or rng.random() < 0.45:
                            msgs.append({"t": "P", "name": name, "sql": stm[j]["sql"], "types": stm[j]["types"]})
                            known[name] = j
                        if rng.random() < 0.35:
                            msgs.append({"t": "D", "kind": "S", "name": name})
                        fmts, params, rf = rand_params(rng)
                        portal = rng.choice(["", "", "p1"])
                        msgs.append({"t": "B", "portal": portal, "name": name, "fmts": fmts, "params": params, "rfmts": rf})
                        if rng.random() < 0.35:
                            msgs.append({"t": "D", "kind": "P", "name": portal})
                        msgs.append({"t": "E", "portal": portal, "max": rng.choice([0, 0, 5])})
                        c = rng.random()
                        if c < 0.15:
                            msgs.append({"t": "C", "kind": "P", "name": portal})
                        elif c < 0.30 and name:
                            msgs.append({"t": "C", "kind": "S", "name": name})
                            known.pop(name, None)
                        elif c < 0.36 and not name:
                            msgs.append({"t": "C", "kind": "S", "name": ""})      # the unnamed statement: forwarded
                            known.pop("", None)
                msgs.append({"t": "S"})
            ex.append({"msgs": msgs, "until": "Z", "count": nb, "timeout": 4000})
        scns.append({"kind": "cached-%d" % k, "cache": k, "ex": ex, "known": None})
    # ErrorResponse / NoticeResponse with field values that are not valid UTF-8 (with caching on Server::recv parses every
    # ErrorResponse): only reply / at the start / after rows, outside and inside a transaction, simple and extended, then
    # further requests of the same and of another client on the one server connection
    for i in range((12 if quick else 300) if bad_frame else 0):
        k = rng.choice([1, 8])
        ex, in_txn = [], rng.random() < 0.4

        def one(c, body, j, st=b"I"):
            sql = "/*mock: raw=%s*/ SELECT %d" % (b"".join(enc(f) for f in body).hex(), j)
            if rng.random() < 0.5:
                z = enc(("Z", st)).hex()
                return {"c": c, "msgs": [{"t": "Q", "sql": sql.replace("*/", z + "*/", 1)}], "until": "Z", "count": 1, "timeout": 4000}
            name = rng.choice(["", "e%d" % j])
            return {"c": c, "msgs": [{"t": "P", "name": name, "sql": sql, "types": []}, {"t": "B", "portal": "", "name": name, "fmts": [], "params": [None] if rng.random() < 0.3 else [], "rfmts": []},
                                     {"t": "E", "portal": "", "max": 0}, {"t": "S"}], "until": "Z", "count": 1, "timeout": 4000}
        if in_txn:
            ex.append({"c": "c", "msgs": [{"t": "Q", "sql": "BEGIN"}], "until": "Z", "count": 1, "timeout": 4000})
        for r in range(rng.randint(1, 2)):
            err = rng.random() < 0.65
            bad = bad_frame(err)
            rows = [f for f in make_reply() if f[0] in "TD"][:6]
            pos = rng.choice(["only", "start", "mid"])
            if err:
                body = [bad] if pos != "mid" else rows + [bad]
            else:
                body = [bad, ("C", b"DO\0")] if pos == "only" else [bad] + rows + [("C", b"SELECT 1\0")] if pos == "start" else rows + [bad, ("C", b"SELECT 1\0")]
            # (extended batches get the mock's own ReadyForQuery status, which follows its BEGIN/ROLLBACK state)
            ex.append(one("c", body, 10 + 2 * r, (b"E" if err else b"T") if in_txn else b"I"))
            ex.append(one("c", [("C", b"SELECT 0\0")], 11 + 2 * r, (b"E" if err else b"T") if in_txn else b"I"))
        if in_txn:
            ex.append({"c": "c", "msgs": [{"t": "Q", "sql": "ROLLBACK"}], "until": "Z", "count": 1, "timeout": 4000})
        ex.append(one("c2", make_reply(), 20))
        ex.append(one("c", make_reply(), 21))
        ex.append(one("c2", [("C", b"SELECT 0\0")], 22))
        scns.append({"kind": "cached-nonutf8-%d" % k, "cache": k, "ex": ex, "known": None})
    return scns


def clients_of(s):
    return sorted({e.get("c", "c") for e in s["ex"]})


def build(g, s, client_encode):
    steps = [{"op": "connect", "c": c, "params": {"user": "u", "database": "db"}, "password": "pw"} for c in clients_of(s)]
    for e in s["ex"]:
        st = {"op": "send", "c": e.get("c", "c"), "msgs": e["msgs"]}
        b = b"".join(client_encode(m) for m in e["msgs"])
        if g.rng.random() < 0.4:
            c = g.cuts(split_frames(b)[0], 4)
            if c:
                st["splits"] = c
        steps.append(st)
        steps.append({"op": "recv", "c": e.get("c", "c"), "until": e["until"], "count": e["count"], "timeout_ms": e["timeout"]})
    for c in clients_of(s):
        steps.append({"op": "recv", "c": c, "until": "", "count": 0, "timeout_ms": 120, "label": "drain"})
    s["steps"] = steps
    return {"backends": [{"name": "b0"}], "toml": toml(s["cache"]), "hex": True, "log_out": True, "steps": steps}


# --------------------------------------------------------------------------- monitor
def backend_stream(ev):
    """backend `msg` events in global order, each with the bytes the mock wrote in answer to it"""
    out, cur = [], {}
    for e in ev:
        if e.get("ev") == "msg":
            m = {"seq": e["seq"], "conn": e["conn"], "tag": e["tag"], "raw": bytes.fromhex(e["detail"]["raw"]),
                 "stmts": {x[0]: (x[1], tuple(x[2])) for x in e["state"].get("stmts", [])}, "out": b""}
            out.append(m)
            cur[e["conn"]] = m
        elif e.get("ev") == "out" and e.get("conn") in cur:
            cur[e["conn"]]["out"] += bytes.fromhex(e["hex"])
    return out


def groups_of(msgs):
    gs, cur = [], []
    for m in msgs:
        cur.append(m)
        if m["tag"] in ("S", "Q"):
            gs.append(cur)
            cur = []
    return gs, cur


def is_oob(group, client_queries):
    """pgcat's own exchange: Close(S, PGCAT_n)* [Parse PGCAT_n <a client's query>] Sync"""
    if not group or group[-1]["tag"] != "S" or len(group) < 2:
        return False
    seen_parse = False
    for m in group[:-1]:
        body = split_frames(m["raw"])[0][0][1]
        if m["tag"] == "C" and body[:1] == b"S" and PG.match(cut(body, 1)[0]) and not seen_parse:
            continue
        if m["tag"] == "P" and not seen_parse:
            name, q, rest = stmt_of_parse(body)
            if PG.match(name) and (q, rest) in client_queries:
                seen_parse = True
                continue
        return False
    return True


def match_inband(batch, group, cnames, fallback_stmts=None):
    """batch: the client's frames up to and including Sync; group: backend msgs.  cnames: client name -> (query, rest)
    as it stands BEFORE the batch (updated in message order).  -> (problem | None, answered Parses, answered Closes)"""
    gi, n1, n3 = 0, 0, 0
    body_msgs = group[:-1] if group else []

    def errored():
        # after an ErrorResponse the backend skips the rest of the batch: its session no longer reflects the messages
        return any(any(x[0] == "E" for x in split_frames(m["out"])[0]) for m in body_msgs[:gi])
    for f in batch:
        t, body = f
        nxt = body_msgs[gi] if gi < len(body_msgs) else None
        nb = split_frames(nxt["raw"])[0][0][1] if nxt else None
        if t == "S":
            break
        if t == "P":
            name, q, rest = stmt_of_parse(body)
            cnames[name] = (q, rest)
            if nxt and nxt["tag"] == "P":
                bname, bq, brest = stmt_of_parse(nb)
                if (bq, brest) == (q, rest):
                    if not PG.match(bname):
                        return ("Parse forwarded under the name %r, not PGCAT_<n>" % bname, n1, n3)
                    if nxt["raw"] != enc(("P", bname + b"\0" + body[len(name) + 1:])):
                        return ("Parse %r: the forwarded message differs from the client's in more than name and length" % name, n1, n3)
                    gi += 1
                    continue
            # answered by the pooler: legitimate only if the backend session already holds that statement
            st = (nxt or (group[-1] if group else None) or {"stmts": fallback_stmts}).get("stmts")
            if st is not None and not errored() and not any(v == (q.decode("latin1"), tuple(struct.unpack(">%di" % ((len(rest) - 2) // 4), rest[2:]))) for v in st.values()):
                return ("Parse %r was answered by the pooler, but the backend session holds no statement with that query" % name, n1, n3)
            n1 += 1
            continue
        if t == "C" and body[:1] == b"S" and cut(body, 1)[0] != b"":
            cnames.pop(cut(body, 1)[0], None)
            n3 += 1
            continue
        if nxt is None:
            return ("the client's %s message did not reach the server" % t, n1, n3)
        if t == "B":
            portal, i = cut(body)
            name, j = cut(body, i)
            if nxt["tag"] != "B":
                return ("server got %s where the client's Bind was expected" % nxt["tag"], n1, n3)
            bportal, bi = cut(nb)
            bname, bj = cut(nb, bi)
            want = enc(("B", portal + b"\0" + bname + b"\0" + body[j:]))
            if not PG.match(bname) or nxt["raw"] != want:
                k = next((x for x in range(min(len(want), len(nxt["raw"]))) if want[x] != nxt["raw"][x]), min(len(want), len(nxt["raw"])))
                return ("Bind of %r: the forwarded message (%d bytes) is not the client's with only the statement name replaced (expected %d bytes, first difference at byte %d)" % (name, len(nxt["raw"]), len(want), k), n1, n3)
            meant = cnames.get(name)
            has = nxt["stmts"].get(bname.decode())
            if not errored() and (meant is None or has is None or has[0] != meant[0].decode("latin1")):
                return ("Bind of %r was renamed to %r, which in the backend session is %r, the client meant %r" % (name, bname, has, meant and meant[0][:60]), n1, n3)
        elif t == "D" and body[:1] == b"S":
            name = cut(body, 1)[0]
            if nxt["tag"] != "D":
                return ("server got %s where the client's Describe was expected" % nxt["tag"], n1, n3)
            bname = cut(nb, 1)[0]
            if nb[:1] != b"S" or not PG.match(bname) or nxt["raw"] != enc(("D", b"S" + bname + b"\0")):
                return ("Describe of %r: forwarded message is not the client's with only the name replaced" % name, n1, n3)
            meant = cnames.get(name)
            has = nxt["stmts"].get(bname.decode())
            if not errored() and (meant is None or has is None or has[0] != meant[0].decode("latin1")):
                return ("Describe of %r was renamed to %r = %r in the backend session, the client meant %r" % (name, bname, has, meant and meant[0][:60]), n1, n3)
        else:
            if nxt["raw"] != enc(f):
                return ("the client's %s message arrived altered (or another message took its place: %s)" % (t, nxt["tag"]), n1, n3)
        gi += 1
    if gi != len(body_msgs):
        return ("the server received %d more message(s) (%s) inside the batch than the client sent" % (len(body_msgs) - gi, "".join(m["tag"] for m in body_msgs[gi:])), n1, n3)
    if group and group[-1]["raw"] != enc(batch[-1]):
        return ("the batch's Sync arrived altered", n1, n3)
    return (None, n1, n3)


def last_stmts(bms, before):
    """the backend session's named statements as last seen before event `before`"""
    prev = [m for m in bms if m["seq"] < before]
    return prev[-1]["stmts"] if prev else {}


def needs_server(batch):
    for t, body in batch:
        if t in "BDE" or (t == "C" and not (body[:1] == b"S" and cut(body, 1)[0] != b"")):
            return True
    return False


def protocol_order_ok(batch, frames):
    """are the replies in the order PostgreSQL would send them for this batch (no error case)"""
    i = 0

    def take(kinds):
        nonlocal i
        if i < len(frames) and frames[i][0] in kinds:
            i += 1
            return True
        return False
    for t, body in batch:
        while i < len(frames) and frames[i][0] in "NS":
            i += 1
        if t == "P":
            ok = take("1")
        elif t == "B":
            ok = take("2")
        elif t == "D":
            ok = (take("t") if body[:1] == b"S" else True) and take("nT")
        elif t == "E":
            while i < len(frames) and frames[i][0] in "DNSHdcTG":
                i += 1
            ok = take("CsIE")
        elif t == "C":
            ok = take("3")
        elif t == "S":
            ok = take("Z")
        else:
            ok = True
        if not ok:
            return False
    return i == len(frames)


def analyse(s, res, strict_order=False):
    """-> (problem | None, stats)"""
    if res.get("harness_error") or res.get("start_error"):
        return ("harness: %s" % (res.get("harness_error") or res.get("start_error")), None)
    ev = res["events"]
    cl = clients_of(s)
    sent = [e for e in ev if e.get("who") in cl and e.get("ev") == "sent"]
    recv = [e for e in ev if e.get("who") in cl and e.get("ev") == "recv"]
    if len(sent) != len(s["ex"]) or len(recv) != len(s["ex"]) + len(cl):
        return ("harness: %d sends / %d recvs for %d exchanges" % (len(sent), len(recv), len(s["ex"])), None)
    bms = backend_stream(ev)
    per_client_names = {c: {} for c in cl}
    client_queries = set()
    stats = {"batches": 0, "answered_parse": 0, "answered_close": 0, "oob": 0, "renamed": 0, "all_answered": 0, "reordered": 0, "inband": []}
    for i, e in enumerate(s["ex"]):
        cnames = per_client_names[e.get("c", "c")]                 # statement names are per client
        lo = recv[i - 1]["seq"] if i > 0 else 0
        hi = recv[i]["seq"]
        mine = [m for m in bms if lo <= m["seq"] < hi]
        # pgcat's own parameter synchronisation at checkout (another client changed a tracked parameter through a
        # ParameterStatus the backend sent): `SET k TO 'v';...` as a simple Query, its reply is consumed by pgcat (C12)
        own_sql = {f[1] for f in split_frames(bytes.fromhex(sent[i]["hex"]))[0] if f[0] == "Q"}
        mine = [m for m in mine if not (m["tag"] == "Q" and m["raw"][5:9] == b"SET " and m["raw"][5:] not in own_sql)]
        terminated = any(m["tag"] == "X" for m in mine)            # pgcat closing a server connection is not a relayed message
        mine = [m for m in mine if m["tag"] != "X"]
        cfs, junk = split_frames(bytes.fromhex(sent[i]["hex"]))
        raw = bytes.fromhex(recv[i].get("raw") or "")
        if recv[i]["outcome"] != "ok":
            sent_by_backend = sum(len(m["out"]) for m in mine)
            return ("exchange %d (client %s, %s): client recv ended %s after %d bytes, the backend had written %d for it%s" % (i, e.get("c", "c"), "".join(f[0] for f in cfs), recv[i]["outcome"], len(raw), sent_by_backend,
                                                                                                                             "; pgcat closed the server connection" if terminated else ""), stats)
        groups, rest = groups_of(mine)
        if rest:
            return ("exchange %d: the server received %s without a Sync" % (i, "".join(m["tag"] for m in rest)), stats)
        rfs, rjunk = split_frames(raw)
        # the client's batches and the reply frames of each
        batches, cur = [], []
        for f in cfs:
            cur.append(f)
            if f[0] in ("S", "Q"):
                batches.append(cur)
                cur = []
        rbatches, cur = [], []
        for f in rfs:
            cur.append(f)
            if f[0] == "Z":
                rbatches.append(cur)
                cur = []
        if cur or rjunk or len(rbatches) != len(batches):
            return ("exchange %d: %d ReadyForQuery for %d Sync/Query (trailing frames %s)" % (i, len(rbatches), len(batches), "".join(f[0] for f in cur)), stats)
        gi = 0
        for batch, got in zip(batches, rbatches):
            stats["batches"] += 1
            for t, body in batch:
                if t == "P":
                    _, q, r = stmt_of_parse(body)
                    client_queries.add((q, r))
            if batch[-1][0] == "Q":
                if gi >= len(groups) or len(groups[gi]) != 1 or groups[gi][0]["raw"] != enc(batch[0]):
                    return ("exchange %d: the simple Query did not arrive unchanged" % i, stats)
                if b"".join(enc(f) for f in got) != groups[gi][0]["out"]:
                    return ("exchange %d: reply to the simple Query altered" % i, stats)
                gi += 1
                continue
            # out-of-band groups first, then at most one in-band group.  A batch of Parses / named Closes only may be
            # answered by the pooler alone: the groups that follow then belong to later batches, so look ahead first.
            problem, n1, n3, used = None, 0, 0, None
            # Which groups may precede the batch's own group: for a batch with a Bind/Describe, pgcat's Close*/Parse/Sync
            # exchanges (it prepares the statement itself); for a batch of Parses / named Closes only, nothing but eviction
            # Closes (its Parse travels in-band) — a `Parse Sync` group further on is the in-band group of a LATER batch,
            # even when it carries the same query (pool-level cache of size 1: the query gets a new PGCAT name).
            g2 = gi
            own_parse_ok = needs_server(batch)
            while g2 < len(groups) and is_oob(groups[g2], client_queries) and (own_parse_ok or all(m["tag"] == "C" for m in groups[g2][:-1])) \
                    and match_inband(batch, groups[g2], copy.copy(cnames))[0] is not None:
                g2 += 1
            trial = copy.copy(cnames)
            if g2 < len(groups):
                problem, n1, n3 = match_inband(batch, groups[g2], trial)
            if g2 < len(groups) and problem is None:
                stats["oob"] += g2 - gi
                used = groups[g2]
                gi = g2 + 1
            elif needs_server(batch):
                return ("exchange %d, batch %s: %s" % (i, "".join(f[0] for f in batch), problem or "never reached the server (no group of messages arrived for it)"), stats)
            else:
                trial = copy.copy(cnames)
                problem, n1, n3 = match_inband(batch, [], trial, groups[gi - 1][-1]["stmts"] if gi > 0 else last_stmts(bms, lo))
                if problem:
                    return ("exchange %d, batch %s: never reached the server (%s)" % (i, "".join(f[0] for f in batch), problem), stats)
                stats["all_answered"] += 1
            cnames.clear()
            cnames.update(trial)
            stats["answered_parse"] += n1
            stats["answered_close"] += n3
            if used:
                stats["renamed"] += sum(1 for m in used if m["tag"] in "PBD")
            backend_reply = b"".join(m["out"] for m in used) if used else b""
            bfs, bj = split_frames(backend_reply)
            stats["inband"].append(bfs)
            # client frames = backend frames + n1 x '1' + n3 x '3' (and, with no in-band group, the pooler's own Z)
            bi, s1, s3 = 0, 0, 0
            for f in got:
                if bi < len(bfs) and f == bfs[bi]:
                    bi += 1
                elif f == ("1", b""):
                    s1 += 1
                elif f == ("3", b""):
                    s3 += 1
                elif not used and f[0] == "Z" and len(f[1]) == 1 and f is got[-1]:
                    pass
                else:
                    return ("exchange %d, batch %s: the client received a %r frame (%d bytes) the backend did not send at that point" % (i, "".join(x[0] for x in batch), f[0], len(f[1])), stats)
            if bi != len(bfs):
                return ("exchange %d, batch %s: %d frame(s) of the backend's reply did not reach the client" % (i, "".join(x[0] for x in batch), len(bfs) - bi), stats)
            if (s1, s3) != (n1, n3):
                return ("exchange %d, batch %s: %d ParseComplete / %d CloseComplete synthesised for %d answered Parse / %d answered Close" % (i, "".join(x[0] for x in batch), s1, s3, n1, n3), stats)
            if not protocol_order_ok(batch, got):
                stats["reordered"] += 1
                if strict_order:
                    return ("exchange %d, batch %s answered %s: the synthesised frames are not where PostgreSQL sends them" % (i, "".join(x[0] for x in batch), "".join(x[0] for x in got)), stats)
        if gi != len(groups):
            extra = groups[gi]
            return ("exchange %d: the server received a group of messages (%s) that belongs to no client batch and is not a pooler exchange" % (i, "".join(m["tag"] for m in extra)), stats)
    for r in recv[len(s["ex"]):]:
        if r.get("raw"):
            return ("client %s received %d more bytes after its last ReadyForQuery" % (r["who"], len(r["raw"]) // 2), stats)
    return (None, stats)


# --------------------------------------------------------------------------- harness-side mutants (monitor self-test)
def mutants(res):
    """tampered copies of a real result: each must be flagged by analyse()"""
    out = []
    ev = res["events"]
    syncs = [k for k, e in enumerate(ev) if e.get("ev") == "msg" and e["tag"] == "S"]
    binds = [k for k, e in enumerate(ev) if e.get("ev") == "msg" and e["tag"] == "B"]
    if syncs:
        r = copy.deepcopy(res)
        del r["events"][syncs[len(syncs) // 2]]
        out.append(("a Sync dropped on the way to the server", r))
        r = copy.deepcopy(res)
        r["events"].insert(syncs[0] + 1, copy.deepcopy(r["events"][syncs[0]]))
        out.append(("a Sync duplicated", r))
    if binds:
        r = copy.deepcopy(res)
        e = r["events"][binds[-1]]
        raw = bytes.fromhex(e["detail"]["raw"])
        ln = struct.unpack(">i", raw[1:5])[0]
        e["detail"]["raw"] = (raw[:1] + struct.pack(">i", ln - 1) + raw[5:-1]).hex()
        out.append(("a Bind one byte shorter", r))
        r = copy.deepcopy(res)
        e = r["events"][binds[0]]
        raw = bytearray(bytes.fromhex(e["detail"]["raw"]))
        raw[-1] ^= 1
        e["detail"]["raw"] = bytes(raw).hex()
        out.append(("a Bind with its last byte changed", r))
    rc = [k for k, e in enumerate(ev) if e.get("who") in ("c", "c2") and e.get("ev") == "recv" and e.get("raw")]
    if rc:
        r = copy.deepcopy(res)
        e = r["events"][rc[-1]]
        fs, _ = split_frames(bytes.fromhex(e["raw"]))
        e["raw"] = (b"".join(enc(f) for f in fs[:-1]) + enc(("1", b"")) + enc(fs[-1])).hex()
        out.append(("an extra ParseComplete delivered to the client", r))
    out += shifted(res)
    return out


def shifted(res):
    """the failure an aborted recv() leaves behind: a reply is cut at its ErrorResponse (or, without one, before its last
    two frames) and the rest is delivered in front of the NEXT reply; every byte still arrives, in order"""
    ev = res["events"]
    rc = [k for k, e in enumerate(ev) if e.get("who") in ("c", "c2") and e.get("ev") == "recv"]
    for a, b in zip(rc, rc[1:]):
        fs, _ = split_frames(bytes.fromhex(ev[a].get("raw") or ""))
        if len(fs) < 2 or not ev[b].get("raw"):
            continue
        cutat = next((i for i, f in enumerate(fs) if f[0] == "E"), len(fs) - 2)
        if cutat == 0 and len(fs) == 2 and False:
            continue
        r = copy.deepcopy(res)
        r["events"][a]["raw"] = b"".join(enc(f) for f in fs[:cutat]).hex()
        r["events"][a]["outcome"] = "closed"
        r["events"][b]["raw"] = b"".join(enc(f) for f in fs[cutat:]).hex() + ev[b]["raw"]
        return [("a reply cut at its ErrorResponse, the rest delivered with the next reply", r)]
    return []
