"""Bounded-depth PostgreSQL statement grammar for C05.

Every production returns SQL text TOGETHER with the generator's own abstract label, in the
shape harness/src/astproj.rs projects sqlparser's AST to:

  statement label: {"k": "start"} | {"k": "other"} | {"k": "query", "q": Q}
  Q = {"locks": bool, "with": [Q..], "subs": [Q..], "body": B}
  B = {"b": "select", "into": bool} | {"b": "values"} | {"b": "table"} | {"b": "insert"}
    | {"b": "update"} | {"b": "delete"} (never accepted by sqlparser 0.52)
    | {"b": "setop", "l": B, "r": B} | {"b": "nested", "q": Q}

The label is what the *generator* intended (it is not derived from the parser) — the check
compares it with the projection of the real AST, and the model-free monitor is computed
from it alone.
"""
import json

TABLES = ["t", "u", "data", "orders", "public.items", '"Mixed"', "s1.acct"]
COLS = ["id", "a", "b", "v", "name", "created_at"]
FUNCS = ["count(*)", "max(a)", "coalesce(a, 0)", "lower(name)", "now()", "nextval('seq')", "sum(v) OVER (PARTITION BY a)"]
LOCKS = ["FOR UPDATE", "FOR SHARE", "FOR UPDATE", "FOR SHARE", "FOR UPDATE OF t", "FOR SHARE OF u", "FOR NO KEY UPDATE", "FOR KEY SHARE", "FOR UPDATE OF t", "FOR UPDATE NOWAIT",
         "FOR SHARE SKIP LOCKED", "FOR UPDATE OF t NOWAIT", "FOR UPDATE OF t FOR SHARE OF u", "for update", "FOR  SHARE  OF u SKIP LOCKED"]
INTOS = ["INTO t2", "INTO TEMP t2", "INTO TEMPORARY TABLE t2", "INTO UNLOGGED t2", "INTO TABLE t2", "into t2"]


def Q(body, locks=False, ctes=(), subs=()):
    return {"locks": bool(locks), "with": list(ctes), "subs": list(subs), "body": body}


SEL = {"b": "select", "into": False}


class Gen:
    def __init__(self, rng):
        self.r = rng
        self.n = 0
        self.bare = False

    # ---- helpers
    def p(self, x):
        return self.r.random() < x

    def pick(self, xs):
        return self.r.choice(xs)

    def table(self):
        return self.pick(TABLES)

    def col(self):
        return self.pick(COLS)

    def lit(self):
        return self.pick(["1", "42", "'x'", "NULL", "true", "3.14", "'it''s'", "$1", "-7"])

    def fresh(self, pfx="c"):
        self.n += 1
        return "%s%d" % (pfx, self.n)

    # ---- expressions (may contain sub-queries: their labels are appended to subs)
    def exprq(self, d):
        """a sub-query in expression position: sqlparser 0.52 recognises one there only when it
        starts with SELECT or WITH (a parenthesised or VALUES body is taken for an expression list)"""
        for _ in range(4):
            t, l = self.query(d)
            if t.startswith("SELECT") or t.startswith("WITH"):
                return t, l
        return None, None

    def expr(self, d, subs):
        c = self.r.random()
        if d > 0 and c < 0.10:
            t, l = self.exprq(d - 1)
            if t:
                subs.append(l)
                return "(%s)" % t
        if d > 0 and c < 0.16:
            t, l = self.query(d - 1)
            subs.append(l)
            return "EXISTS (%s)" % t
        if d > 0 and c < 0.22:
            t, l = self.exprq(d - 1)
            if t:
                subs.append(l)
                return "%s %s (%s)" % (self.col(), self.pick(["IN", "NOT IN", "= ANY", "> ALL"]), t)
        if c < 0.40:
            return "%s %s %s" % (self.col(), self.pick(["=", "<", ">=", "<>", "IS DISTINCT FROM"]), self.lit())
        if c < 0.50:
            return "%s BETWEEN 1 AND 10" % self.col()
        if c < 0.58:
            return "CASE WHEN %s > 0 THEN 'p' ELSE 'n' END" % self.col()
        if c < 0.68:
            return self.pick(FUNCS)
        if c < 0.78:
            return "%s::text" % self.col()
        if c < 0.85:
            return "%s LIKE 'a%%'" % self.col()
        return self.pick([self.col(), self.lit(), "t.id", "a + b"])

    def cond(self, d, subs):
        e = self.expr(d, subs)
        if self.p(0.3):
            e = "%s %s %s" % (e, self.pick(["AND", "OR"]), self.expr(d, subs))
        return e

    def from_item(self, d, subs):
        c = self.r.random()
        if d > 0 and c < 0.22:
            t, l = self.query(d - 1)
            subs.append(l)
            return "%s(%s) AS %s" % (self.pick(["", "", "LATERAL "]), t, self.fresh("d"))
        if c < 0.30:
            return "generate_series(1, 3) AS %s" % self.fresh("g")
        if c < 0.36:
            return "ONLY %s" % self.pick(["t", "u", "data"])
        t = self.table()
        if self.p(0.4):
            t += self.pick([" AS x", " x", " AS y"])
        return t

    def from_clause(self, d, subs):
        s = self.from_item(d, subs)
        k = self.r.random()
        n = 0 if k < 0.55 else (1 if k < 0.9 else 2)
        for _ in range(n):
            j = self.pick(["JOIN", "INNER JOIN", "LEFT JOIN", "LEFT OUTER JOIN", "RIGHT JOIN", "FULL JOIN", "CROSS JOIN", "NATURAL JOIN", ","])
            rhs = self.from_item(d, subs)
            if j in ("CROSS JOIN", "NATURAL JOIN"):
                s += " %s %s" % (j, rhs)
            elif j == ",":
                s += ", %s" % rhs
            elif self.p(0.25):
                s += " %s %s USING (id)" % (j, rhs)
            else:
                s += " %s %s ON %s" % (j, rhs, self.pick(["true", "t.id = u.id", "x.a = 1"]))
        return s

    def select_core(self, d, subs, allow_into=True, force_into=False):
        into = force_into or (allow_into and self.p(0.06))
        items = []
        for _ in range(self.r.randint(1, 3)):
            e = self.pick(["*", self.col(), "t.*"]) if self.p(0.4) else self.expr(d, subs)
            if e not in ("*", "t.*") and self.p(0.3):
                e += " AS " + self.fresh("o")
            items.append(e)
        s = "SELECT " + (self.pick(["DISTINCT ", "ALL ", "DISTINCT ON (a) "]) if self.p(0.12) else "") + ", ".join(items)
        if into:
            s += " " + self.pick(INTOS)
        has_from = self.p(0.88)
        if has_from:
            s += " FROM " + self.from_clause(d, subs)
            if self.p(0.5):
                s += " WHERE " + self.cond(d, subs)
            if self.p(0.15):
                s += " GROUP BY " + self.col()
                if self.p(0.5):
                    s += " HAVING " + self.pick(["count(*) > 1", "max(a) < 5"])
        self.bare = not has_from      # sqlparser 0.52 rejects "SELECT 1 FOR UPDATE" (no FROM, no ORDER BY/LIMIT)
        return s, {"b": "select", "into": bool(into)}

    def leaf(self, d, subs, allow_into=True, first=True):
        c = self.r.random()
        self.bare = False
        if c < 0.10:
            rows = ", ".join("(%s, %s)" % (self.lit(), self.lit()) for _ in range(self.r.randint(1, 3)))
            return "VALUES " + rows, {"b": "values"}
        if c < 0.16 and (not first or self.p(0.1)):
            # sqlparser 0.52 accepts TABLE t only as a later operand of a set operation
            return "TABLE " + self.table(), {"b": "table"}
        return self.select_core(d, subs, allow_into)

    def arm(self, d, subs, allow_into=True, first=True):
        """an operand of a set operation, or a whole body: leaf or parenthesised query"""
        if d > 0 and self.p(0.25):
            t, l = self.query(d - 1)
            self.bare = False
            return "(%s)" % t, {"b": "nested", "q": l}
        return self.leaf(d, subs, allow_into, first)

    def body(self, d, subs):
        if d > 0 and self.p(0.22):
            # same-precedence chain (UNION/EXCEPT left-assoc) or INTERSECT chain
            ops = self.pick([["UNION", "UNION ALL", "EXCEPT", "EXCEPT ALL", "UNION DISTINCT"], ["INTERSECT", "INTERSECT ALL"]])
            n = 2 if self.p(0.75) else 3
            t, l = self.arm(d, subs)
            for _ in range(n - 1):
                t2, l2 = self.arm(d, subs, first=False)
                t = "%s %s %s" % (t, self.pick(ops), t2)
                l = {"b": "setop", "l": l, "r": l2}
            return t, l
        return self.arm(d, subs)

    def dml_returning(self, d):
        """a data-modifying statement as it may appear inside WITH ( ... )"""
        subs = []
        c = self.r.random() * 0.8 if self.p(0.85) else 0.9
        if c < 0.4:
            if self.p(0.5) or d == 0:
                src, sl = "VALUES (%s, %s)" % (self.lit(), self.lit()), Q({"b": "values"})
            else:
                src, sl = self.query(d - 1)
            t = "INSERT INTO %s (a, b) %s" % (self.table(), src)
            subs.append(sl)
            if self.p(0.3):
                t += " ON CONFLICT DO NOTHING"
            b = {"b": "insert"}
        elif c < 0.75:
            t = "UPDATE %s SET a = a + 1" % self.table()
            if self.p(0.6):
                t += " WHERE " + self.cond(d, subs)
            b = {"b": "update"}
        else:
            t = "DELETE FROM %s WHERE %s" % (self.table(), self.cond(0, subs))
            b = {"b": "delete"}
        if self.p(0.8):
            t += " RETURNING " + self.pick(["*", "id", "id, a"])
        return t, Q(b, subs=subs)

    def tail(self, d, subs):
        s = ""
        if self.p(0.3):
            s += " ORDER BY " + self.pick(["1", "id DESC", "a NULLS LAST, b"])
        c = self.r.random()
        if c < 0.2:
            s += " LIMIT " + self.pick(["1", "10", "ALL"])
        elif d > 0 and c < 0.23:
            t, l = self.exprq(0)
            if t:
                subs.append(l)
                s += " LIMIT (%s)" % t
        elif c < 0.27:
            return s + (" OFFSET 2" if self.p(0.3) else "") + " FETCH FIRST 5 ROWS ONLY"
        if self.p(0.1):
            s += " OFFSET 2"
        return s

    def query(self, d, top=False, locks=None, dml_body=None, force_into=False, ctes_kind=None):
        """[WITH ctes] body [ORDER BY ..] [LIMIT ..] [locking clause]; returns (text, Q label)"""
        subs, ctes, pre = [], [], ""
        want_ctes = ctes_kind is not None or (d > 0 and self.p(0.2))
        if want_ctes:
            parts = []
            for _ in range(1 if self.p(0.7) else 2):
                kind = ctes_kind or ("dml" if self.p(0.3) else "read")
                if kind == "dml":
                    t, l = self.dml_returning(max(d - 1, 0))
                else:
                    t, l = self.query(max(d - 1, 0))
                ctes.append(l)
                parts.append("%s AS %s(%s)" % (self.fresh("w"), self.pick(["", "", "MATERIALIZED ", "NOT MATERIALIZED "]), t))
            pre = "WITH %s%s " % ("RECURSIVE " if self.p(0.1) else "", ", ".join(parts))
        if dml_body is None and top and ctes and self.p(0.2):
            dml_body = self.pick(["insert", "update", "insert", "update", "delete"])
        if dml_body == "insert":
            st, sl = self.query(max(d - 1, 0))
            subs.append(sl)
            return pre + "INSERT INTO %s %s" % (self.table(), st), Q({"b": "insert"}, ctes=ctes, subs=subs)
        if dml_body == "update":
            return pre + "UPDATE %s SET a = 1 WHERE %s" % (self.table(), self.cond(0, subs)), Q({"b": "update"}, ctes=ctes, subs=subs)
        if dml_body == "delete":
            return pre + "DELETE FROM %s" % self.table(), Q({"b": "delete"}, ctes=ctes, subs=subs)
        if force_into:
            bt, bl = self.select_core(d, subs, force_into=True)
        else:
            bt, bl = self.body(d, subs)
        bare = self.bare
        tl = self.tail(d, subs)
        lk = locks if locks is not None else self.p(0.10)
        if lk and bare and not tl and self.p(0.9):
            tl = " ORDER BY 1"
        text = pre + bt + tl
        if lk:
            text += " " + self.pick(LOCKS)
        return text, Q(bl, locks=lk, ctes=ctes, subs=subs)


# ---- statements that are not queries ---------------------------------------------------
START = ["BEGIN", "begin", "BEGIN TRANSACTION", "BEGIN WORK", "START TRANSACTION", "BEGIN ISOLATION LEVEL SERIALIZABLE",
         "START TRANSACTION READ ONLY", "BEGIN READ WRITE", "START TRANSACTION ISOLATION LEVEL REPEATABLE READ, READ ONLY",
         "BEGIN DEFERRABLE"]

OTHER = [
    "INSERT INTO t (a, b) VALUES (1, 2)", "INSERT INTO t VALUES (1, 'x') RETURNING id", "INSERT INTO t DEFAULT VALUES",
    "INSERT INTO t SELECT * FROM u", "INSERT INTO t (a) VALUES (1) ON CONFLICT (a) DO UPDATE SET b = 2",
    "INSERT INTO data (id, v) VALUES ($1, $2)", "INSERT INTO t (a) SELECT a FROM u WHERE a > 1 RETURNING *",
    "UPDATE t SET a = 1", "UPDATE t SET a = a + 1 WHERE id = 5 RETURNING *", "UPDATE t SET a = u.a FROM u WHERE t.id = u.id",
    "UPDATE ONLY t SET a = DEFAULT", "DELETE FROM t", "DELETE FROM t WHERE id = 1 RETURNING *", "DELETE FROM t USING u WHERE t.id = u.id",
    "MERGE INTO t USING u ON t.id = u.id WHEN MATCHED THEN UPDATE SET a = u.a WHEN NOT MATCHED THEN INSERT (id, a) VALUES (u.id, u.a)",
    "MERGE INTO t USING u ON t.id = u.id WHEN MATCHED THEN DELETE",
    "CREATE TABLE n (id int PRIMARY KEY, a text)", "CREATE TEMP TABLE n (id int)", "CREATE TABLE n AS SELECT * FROM t", "CREATE TABLE IF NOT EXISTS n (LIKE t)",
    "CREATE INDEX i ON t (a)", "CREATE UNIQUE INDEX CONCURRENTLY i ON t (a)", "CREATE VIEW vw AS SELECT * FROM t", "CREATE MATERIALIZED VIEW mv AS SELECT 1",
    "CREATE SEQUENCE sq", "CREATE SCHEMA sc", "CREATE EXTENSION IF NOT EXISTS pgcrypto", "CREATE TYPE mood AS ENUM ('a', 'b')",
    "CREATE FUNCTION f() RETURNS int LANGUAGE sql AS 'SELECT 1'", "CREATE ROLE r1", "CREATE DATABASE d1",
    "CREATE TRIGGER tg BEFORE INSERT ON t FOR EACH ROW EXECUTE FUNCTION f()", "CREATE POLICY p ON t USING (true)",
    "ALTER TABLE t ADD COLUMN z int", "ALTER TABLE t DROP COLUMN z", "ALTER TABLE t RENAME TO t9", "ALTER INDEX i RENAME TO j", "ALTER ROLE r1 WITH LOGIN",
    "ALTER VIEW vw RENAME TO vw2", "ALTER SEQUENCE sq RESTART", "ALTER TABLE t ENABLE ROW LEVEL SECURITY",
    "DROP TABLE t", "DROP TABLE IF EXISTS t CASCADE", "DROP INDEX i", "DROP VIEW vw", "DROP SCHEMA sc", "DROP FUNCTION f()", "DROP SEQUENCE sq", "DROP ROLE r1",
    "DROP MATERIALIZED VIEW mv", "DROP EXTENSION pgcrypto", "DROP TYPE mood", "DROP DATABASE d1",
    "TRUNCATE t", "TRUNCATE TABLE t, u RESTART IDENTITY CASCADE",
    "COMMIT", "commit", "COMMIT WORK", "END", "ROLLBACK", "ROLLBACK WORK", "ABORT", "SAVEPOINT sp", "RELEASE SAVEPOINT sp", "RELEASE sp", "ROLLBACK TO SAVEPOINT sp", "ROLLBACK TO sp",
    "PREPARE TRANSACTION 'x'", "COMMIT PREPARED 'x'", "COMMIT AND CHAIN",
    "SET search_path TO public", "SET statement_timeout = 1000", "SET LOCAL lock_timeout = '1s'", "SET TIME ZONE 'UTC'", "SET SESSION CHARACTERISTICS AS TRANSACTION READ ONLY",
    "SET TRANSACTION ISOLATION LEVEL SERIALIZABLE", "SET ROLE r1", "SET SESSION AUTHORIZATION r1", "SET NAMES 'utf8'", "SET client_encoding TO 'UTF8'", "SET application_name = 'x'",
    "RESET search_path", "RESET ALL", "SHOW search_path", "SHOW ALL", "SHOW TRANSACTION ISOLATION LEVEL", "SHOW server_version",
    "EXPLAIN SELECT * FROM t", "EXPLAIN ANALYZE SELECT * FROM t", "EXPLAIN (ANALYZE, BUFFERS) SELECT 1", "EXPLAIN ANALYZE INSERT INTO t VALUES (1)", "EXPLAIN VERBOSE UPDATE t SET a = 1",
    "COPY t FROM STDIN", "COPY t TO STDOUT", "COPY t (a, b) FROM STDIN WITH (FORMAT csv)", "COPY (SELECT * FROM t) TO STDOUT", "COPY t FROM '/tmp/f.csv'",
    "VACUUM", "VACUUM t", "VACUUM FULL ANALYZE t", "ANALYZE", "ANALYZE t", "LOCK TABLE t", "LOCK TABLE t IN ACCESS EXCLUSIVE MODE", "LOCK t",
    "CALL proc()", "CALL proc(1, 'x')", "DO $$ BEGIN PERFORM 1; END $$", "DECLARE c CURSOR FOR SELECT * FROM t", "DECLARE c CURSOR WITH HOLD FOR SELECT 1",
    "FETCH NEXT FROM c", "FETCH 10 FROM c", "FETCH ALL IN c", "MOVE NEXT FROM c", "CLOSE c", "CLOSE ALL",
    "LISTEN ch", "NOTIFY ch", "NOTIFY ch, 'payload'", "UNLISTEN ch", "UNLISTEN *",
    "PREPARE ps AS SELECT * FROM t WHERE id = $1", "PREPARE pi (int) AS INSERT INTO t VALUES ($1)", "EXECUTE ps(1)", "EXECUTE ps", "DEALLOCATE ps", "DEALLOCATE ALL",
    "DISCARD ALL", "DISCARD TEMP", "DISCARD PLANS", "GRANT SELECT ON t TO r1", "GRANT ALL PRIVILEGES ON ALL TABLES IN SCHEMA public TO r1", "REVOKE SELECT ON t FROM r1",
    "COMMENT ON TABLE t IS 'x'", "COMMENT ON COLUMN t.a IS 'y'", "REINDEX TABLE t", "REINDEX INDEX i", "CLUSTER t", "CLUSTER", "CHECKPOINT", "REFRESH MATERIALIZED VIEW mv",
    "REFRESH MATERIALIZED VIEW CONCURRENTLY mv", "SECURITY LABEL ON TABLE t IS 'x'", "REASSIGN OWNED BY r1 TO r2", "DROP OWNED BY r1", "IMPORT FOREIGN SCHEMA s FROM SERVER sv INTO public",
    "LOAD 'auto_explain'", "ALTER SYSTEM SET work_mem = '4MB'", "CREATE PUBLICATION pb FOR ALL TABLES", "CREATE SUBSCRIPTION sb CONNECTION 'x' PUBLICATION pb",
    "ALTER TABLE t ALTER COLUMN a SET DEFAULT 0",
]

# plain by syntax although the called function has side effects: no SQL parser can see that
VOLATILE_CALLS = ["SELECT nextval('seq')", "SELECT pg_advisory_lock(1)", "SELECT set_config('search_path', 'x', false)",
                  "SELECT pg_notify('ch', 'x')", "SELECT setval('seq', 10)", "SELECT lo_create(0)", "SELECT f_that_writes()"]

EMPTY = ["", ";", "  ", ";;", " ; ; ", "-- just a comment", "/* c */", "\n"]


def plain_q(q):
    """generator-side classification used by the monitor: no lock / Insert / Update / Delete /
    SELECT INTO at any depth"""
    if q["locks"]:
        return False
    if not all(plain_q(c) for c in q["with"]) or not all(plain_q(c) for c in q["subs"]):
        return False
    return plain_b(q["body"])


def plain_b(b):
    k = b["b"]
    if k == "select":
        return not b["into"]
    if k in ("values", "table"):
        return True
    if k == "setop":
        return plain_b(b["l"]) and plain_b(b["r"])
    if k == "nested":
        return plain_q(b["q"])
    return False


def plain_stmt(l):
    return l["k"] == "query" and plain_q(l["q"])


def canon_q(q):
    """canonical form for comparing a label with a projection: subs as a sorted multiset"""
    return {"locks": bool(q["locks"]), "with": [canon_q(c) for c in q["with"]],
            "subs": sorted((canon_q(c) for c in q.get("subs", [])), key=lambda x: json.dumps(x, sort_keys=True)),
            "body": canon_b(q["body"])}


def canon_b(b):
    k = b["b"]
    if k == "select":
        return {"b": k, "into": bool(b["into"])}
    if k == "setop":
        return {"b": k, "l": canon_b(b["l"]), "r": canon_b(b["r"])}
    if k == "nested":
        return {"b": k, "q": canon_q(b["q"])}
    return {"b": k}


def canon_stmt(l):
    if l["k"] == "query":
        return {"k": "query", "q": canon_q(l["q"])}
    return {"k": l["k"]}


def shape(l):
    """coarse class of a statement label, for coverage histograms"""
    if l["k"] != "query":
        return l["k"]
    q = l["q"]
    if plain_q(q):
        return "plain"
    tags = []
    if q["locks"]:
        tags.append("lock-top")
    if any_lock(q) and not q["locks"]:
        tags.append("lock-deep")
    if any_mut(q):
        tags.append("mut-top" if (q["body"]["b"] in ("insert", "update", "delete") or (q["body"]["b"] == "select" and q["body"]["into"])) else "mut-deep")
    return "+".join(tags)


def any_lock(q):
    return q["locks"] or any(any_lock(c) for c in q["with"]) or any(any_lock(c) for c in q["subs"]) or any_lock_b(q["body"])


def any_lock_b(b):
    if b["b"] == "setop":
        return any_lock_b(b["l"]) or any_lock_b(b["r"])
    if b["b"] == "nested":
        return any_lock(b["q"])
    return False


def any_mut(q):
    return any(any_mut(c) for c in q["with"]) or any(any_mut(c) for c in q["subs"]) or any_mut_b(q["body"])


def any_mut_b(b):
    k = b["b"]
    if k == "select":
        return b["into"]
    if k in ("insert", "update", "delete"):
        return True
    if k == "setop":
        return any_mut_b(b["l"]) or any_mut_b(b["r"])
    if k == "nested":
        return any_mut(b["q"])
    return False


def statements(rng, n_query, depth):
    """a pool of (text, label) single statements: boundary forms first, then random ones"""
    g = Gen(rng)
    out = []
    S = lambda: Q(dict(SEL))
    # boundary / formerly failing forms (F3 and its follow-up), each with the intended label
    fixed = [
        ("SELECT 1", {"k": "query", "q": S()}),
        ("select * from t where id = 1", {"k": "query", "q": S()}),
        ("SELECT * FROM t FOR UPDATE", {"k": "query", "q": Q(dict(SEL), locks=True)}),
        ("SELECT * FROM t FOR SHARE", {"k": "query", "q": Q(dict(SEL), locks=True)}),
        ("SELECT * INTO t2 FROM t", {"k": "query", "q": Q({"b": "select", "into": True})}),
        ("WITH x AS (INSERT INTO t VALUES (1) RETURNING *) SELECT * FROM x",
         {"k": "query", "q": Q(dict(SEL), ctes=[Q({"b": "insert"}, subs=[Q({"b": "values"})])])}),
        ("WITH x AS (UPDATE t SET a = 1 RETURNING *) SELECT * FROM x", {"k": "query", "q": Q(dict(SEL), ctes=[Q({"b": "update"})])}),
        ("WITH x AS (DELETE FROM t RETURNING *) SELECT * FROM x", {"k": "query", "q": Q(dict(SEL), ctes=[Q({"b": "delete"})])}),
        ("(SELECT * FROM t FOR UPDATE)", {"k": "query", "q": Q({"b": "nested", "q": Q(dict(SEL), locks=True)})}),
        ("((SELECT * FROM t FOR SHARE))", {"k": "query", "q": Q({"b": "nested", "q": Q({"b": "nested", "q": Q(dict(SEL), locks=True)})})}),
        ("WITH x AS (SELECT * FROM t FOR UPDATE) SELECT * FROM x", {"k": "query", "q": Q(dict(SEL), ctes=[Q(dict(SEL), locks=True)])}),
        ("SELECT * FROM (SELECT * FROM t FOR UPDATE) s", {"k": "query", "q": Q(dict(SEL), subs=[Q(dict(SEL), locks=True)])}),
        ("SELECT * FROM t WHERE id IN (SELECT id FROM u FOR SHARE)", {"k": "query", "q": Q(dict(SEL), subs=[Q(dict(SEL), locks=True)])}),
        ("SELECT (SELECT a FROM u LIMIT 1 FOR UPDATE) FROM t", {"k": "query", "q": Q(dict(SEL), subs=[Q(dict(SEL), locks=True)])}),
        ("SELECT * INTO t2 FROM t UNION SELECT * FROM u", {"k": "query", "q": Q({"b": "setop", "l": {"b": "select", "into": True}, "r": dict(SEL)})}),
        ("SELECT 1 UNION (SELECT * FROM t FOR SHARE)", {"k": "query", "q": Q({"b": "setop", "l": dict(SEL), "r": {"b": "nested", "q": Q(dict(SEL), locks=True)}})}),
        ("SELECT 1 UNION SELECT 2 FOR UPDATE", {"k": "query", "q": Q({"b": "setop", "l": dict(SEL), "r": dict(SEL)}, locks=True)}),
        ("WITH x AS (SELECT 1) INSERT INTO t SELECT * FROM x", {"k": "query", "q": Q({"b": "insert"}, ctes=[S()], subs=[S()])}),
        ("WITH x AS (SELECT 1) UPDATE t SET a = 1", {"k": "query", "q": Q({"b": "update"}, ctes=[S()])}),
        ("WITH x AS (SELECT 1) DELETE FROM t", {"k": "query", "q": Q({"b": "delete"}, ctes=[S()])}),
        ("WITH a AS (WITH b AS (INSERT INTO t VALUES (1) RETURNING *) SELECT * FROM b) SELECT * FROM a",
         {"k": "query", "q": Q(dict(SEL), ctes=[Q(dict(SEL), ctes=[Q({"b": "insert"}, subs=[Q({"b": "values"})])])])}),
        ("SELECT * FROM t LIMIT (SELECT 1 FOR UPDATE)", {"k": "query", "q": Q(dict(SEL), subs=[Q(dict(SEL), locks=True)])}),
        ("VALUES ((SELECT 1 FOR UPDATE))", {"k": "query", "q": Q({"b": "values"}, subs=[Q(dict(SEL), locks=True)])}),
        ("VALUES (1), (2)", {"k": "query", "q": Q({"b": "values"})}),
        ("(TABLE t)", {"k": "query", "q": Q({"b": "nested", "q": Q({"b": "table"})})}),
        ("TABLE t", {"k": "query", "q": Q({"b": "table"})}),
        ("SELECT 1 UNION SELECT 2", {"k": "query", "q": Q({"b": "setop", "l": dict(SEL), "r": dict(SEL)})}),
        ("(SELECT 1) UNION ALL (SELECT 2) ORDER BY 1", {"k": "query", "q": Q({"b": "setop", "l": {"b": "nested", "q": S()}, "r": {"b": "nested", "q": S()}})}),
        ("SELECT * FROM t JOIN LATERAL (SELECT * FROM u WHERE u.id = t.id) z ON true", {"k": "query", "q": Q(dict(SEL), subs=[S()])}),
        ("/* c */ SELECT 1 -- tail\n", {"k": "query", "q": S()}),
        # known class F23: sqlparser's parse_as_table swallows the locking clause after TABLE t
        ("SELECT * FROM (TABLE t FOR UPDATE) AS d", {"k": "query", "q": Q(dict(SEL), subs=[Q({"b": "table"}, locks=True)])}),
        ("SELECT a FROM u UNION (TABLE t FOR SHARE)", {"k": "query", "q": Q({"b": "setop", "l": dict(SEL), "r": {"b": "nested", "q": Q({"b": "table"}, locks=True)}})}),
    ]
    out += fixed
    out += [(s, {"k": "query", "q": S()}) for s in VOLATILE_CALLS]
    out += [(s, {"k": "start"}) for s in START]
    out += [(s, {"k": "other"}) for s in OTHER]
    # structured random queries; a share is forced into each interesting class
    for i in range(n_query):
        d = rng.randint(0, depth)
        c = i % 10
        if c == 0:
            t, l = g.query(d, top=True, locks=True)
        elif c == 1:
            t, l = g.query(d, top=True, force_into=True)
        elif c == 2:
            t, l = g.query(max(d, 1), top=True, ctes_kind="dml")
        elif c == 3:
            t, l = g.query(max(d, 1), top=True, ctes_kind="read", dml_body=rng.choice(["insert", "update", "insert", "update", "delete"]))
        else:
            t, l = g.query(d, top=True, locks=False if c < 8 else None)
        out.append((t, {"k": "query", "q": l}))
    return out


# ---- statements on a sharded table (automatic_sharding_key = "data.id" or "*.id") ---------------
def sharded_statements(keys=range(1, 13)):
    """(text, label, kind) over table `data` with a literal on the sharding key column `id`;
    kind: read | lock | write.  The keys are chosen by the caller so that they land on
    different shards (the check learns each statement's shard from the real infer_shard)."""
    S = lambda: Q(dict(SEL))
    out = []
    for k in keys:
        out += [
            ("SELECT * FROM data WHERE id = %d" % k, {"k": "query", "q": S()}, "read"),
            ("SELECT v FROM data WHERE data.id = %d AND v > 1 ORDER BY v LIMIT 3" % k, {"k": "query", "q": S()}, "read"),
            ("SELECT * FROM data d JOIN u ON u.id = d.v WHERE d.id = %d" % k, {"k": "query", "q": S()}, "read"),
            ("SELECT * FROM data WHERE id = %d FOR UPDATE" % k, {"k": "query", "q": Q(dict(SEL), locks=True)}, "lock"),
            ("WITH w AS (UPDATE data SET v = 0 WHERE id = %d RETURNING *) SELECT * FROM w" % k,
             {"k": "query", "q": Q(dict(SEL), ctes=[Q({"b": "update"})])}, "write"),
            ("UPDATE data SET v = v + 1 WHERE id = %d" % k, {"k": "other"}, "write"),
            ("DELETE FROM data WHERE id = %d" % k, {"k": "other"}, "write"),
            ("DELETE FROM data USING u WHERE data.id = %d AND u.id = data.v" % k, {"k": "other"}, "write"),
            ("INSERT INTO data (id, v) VALUES (%d, 1)" % k, {"k": "other"}, "write"),
            ("INSERT INTO data (v, id) VALUES (7, %d) RETURNING id" % k, {"k": "other"}, "write"),
        ]
    # no key / key column assigned (an error of assignment_parser when the key is "*.id") / two keys in one statement
    out += [
        ("SELECT count(*) FROM data", {"k": "query", "q": S()}, "read"),
        ("SELECT * FROM t WHERE a = 3", {"k": "query", "q": S()}, "read"),
        ("UPDATE data SET id = 99 WHERE id = 3", {"k": "other"}, "write"),
        ("UPDATE t SET id = 5 WHERE a = 1", {"k": "other"}, "write"),
        ("UPDATE data SET v = 2", {"k": "other"}, "write"),
        ("DELETE FROM data", {"k": "other"}, "write"),
        ("SELECT * FROM data WHERE id = 1 OR id = 2", {"k": "query", "q": S()}, "read"),
        ("SELECT * FROM data WHERE id IN (1, 2, 3)", {"k": "query", "q": S()}, "read"),
        ("DELETE FROM data WHERE id IN (4, 5)", {"k": "other"}, "write"),
        ("BEGIN", {"k": "start"}, "start"),
        ("COMMIT", {"k": "other"}, "write"),
        ("TRUNCATE data", {"k": "other"}, "write"),
    ]
    return out
