"""C18 — admin statistics count every client, server connection and transaction once.

P:  coq/Stats/{Model,Inv,Proofs,Props}.v — registries + call sites of src/stats*.rs / client.rs / pool.rs as a
    state machine over message-granularity ops; theorems by induction over every history.
T2: wire harness.  Histories of logins (ok / wrong password / unknown db / admin), simple and extended
    transactions with replies from one row to several relay buffers and COPY OUT, CancelRequest connections, checkout
    failures (pool exhausted, backend down, failed health check, unknown shard), replica bans, clean (X)
    and abrupt (socket close) exits at idle / in a transaction / while waiting, shutdown, and the confirmed panic
    inputs (the task still panics; since /repo ca5e3a4 its row is removed by Drop for Client — a row that stays, or
    a client retrying its next candidate that is shown idle (repaired by b38aae6), is a VIOLATION).  After every quiescent point: pooler::snapshot (registries through the public API) AND the admin
    console (SHOW POOLS / CLIENTS / SERVERS / LISTS / STATS through an md5-authenticated admin client), compared
    with (a) the Coq model evaluated on the op sequence the history induces (ops are derived from the scripted
    actions, the clients' own replies and the mock backends' logs — never from the statistics), (b) the scripted
    clients' own ledger, (c) the mock backends' logs; plus direct monitors of the property's predicates.
"""
import json, os, re, sys, time
import vlib
from props import wirelib as W

COQ_FILES = ["Stats/Model.v", "Stats/Inv.v", "Stats/Proofs.v", "Stats/Props.v"]
PREAMBLE = """From Coq Require Import Arith NArith Bool List.
From PV Require Import Stats.Model.
Import ListNotations.
(* byte counts reach tens of thousands: they enter as [N.to_nat n] and leave as N (a unary literal that size
   overflows coqc's stack in parsing and printing, not in vm_compute) *)
Definition obsN (o : list (list nat) * list (list nat) * list (list nat) * list nat * list (list nat)) :=
  match o with (a, b, c, d, e) =>
    (map (map N.of_nat) a, map (map N.of_nat) b, map (map N.of_nat) c, map N.of_nat d, map (map N.of_nat) e) end.
Fixpoint first_disabled (cf : cfg) (t : st) (ops : list op) (n : nat) : option nat :=
  match ops with [] => None | o :: r => if enabled cf t o then first_disabled cf (step cf t o) r (S n) else Some n end.
"""
CT = 400            # connect_timeout (ms)
HCT = 300           # healthcheck_timeout
SETTLE = 50         # quiescence: sleep before sampling
SHOWS = ["POOLS", "CLIENTS", "SERVERS", "LISTS", "STATS"]
ADMIN = "adm"
# client task panics (confirmed): name -> (hex of the bytes sent, where it can be sent, needs parser)
PANICS = {
    "q-empty": ("5100000004", "idle", False),            # 'Q', length 4, no body: try_execute_command -> read_string -> buf[..0-1]
    "neg-len": ("51fffffffe", "any", False),             # length -2: BytesMut::with_capacity(usize::MAX) in read_message
    "close-empty": ("4300000004", "any", False),         # Close with empty body: Close::try_from
    "parse-trunc": ("500000000561", "idle", True),       # Parse "a" without terminators, query parser on: parse() unwrap
}
# one request cycle each, whatever the size of the reply (the pooler relays it in buffers of 8196 bytes)
SIMPLE_SQL = {"select": "%s SELECT 1", "begin": "%s BEGIN", "commit": "%s COMMIT", "rollback": "%s ROLLBACK",
              "error": "%s SELECT 1 /*mock: error*/",
              "rows50": "%s SELECT 1 /*mock: rows=50, size=20*/",          # many rows, one buffer
              "bigrow": "%s SELECT 1 /*mock: rows=1, size=9000*/",         # one row above the 8196-byte relay buffer
              "buffers": "%s SELECT 1 /*mock: rows=30, size=1000*/",       # ~33 kB: several relay buffers
              "copyout": "%s COPY t TO STDOUT /*mock: rows=20, size=500*/",   # COPY OUT, ~10 kB
              "slow": "%s SELECT 1 /*mock: sleep=350*/"}
BIG = ["rows50", "bigrow", "buffers", "copyout"]
CSTATE = {0: "idle", 1: "waiting", 2: "active"}
SSTATE = {0: "login", 1: "active", 2: "tested", 3: "idle"}
F_PANIC = "F31-panic-leaks-client-row"     # repaired by /repo ca5e3a4: a recurrence is a violation
F_WAIT = "F32-waiting-shown-idle"          # repaired by /repo b38aae6: a recurrence is a violation


# =========================================================================================== worlds

def make_world(kind, rng, **over):
    """-> dict(kind, toml, backends, pools[{id,db,user,pw,mode,size}], addrs[{id,name,backend,pool,replica}], opts)"""
    size = over.get("size", rng.choice([1, 1, 2]))
    hc_always = over.get("hc_always", rng.random() < 0.25)
    limit = over.get("limit", rng.choice([None, None, None, 2]))
    parser = over.get("parser", False)
    default_role = over.get("default_role", "any")
    general = {"connect_timeout": CT, "healthcheck_timeout": HCT, "healthcheck_delay": 0 if hc_always else 30000,
               "shutdown_timeout": 4000, "ban_time": 60, "worker_threads": 2}
    opts = {"query_parser_enabled": parser, "default_role": default_role}
    if limit:
        opts["checkout_failure_limit"] = limit
    mode = "session" if kind == "session" else "transaction"
    opts["pool_mode"] = mode
    pools, addrs, cfg_pools, backends = [], [], {}, []
    if kind in ("single", "session"):
        if kind == "session":
            size = 2
        cfg_pools["db1"] = {"opts": opts, "users": [{"username": "c18u1", "password": "pw1", "pool_size": size}],
                            "shards": [{"database": "c18d1", "servers": [["b0", "primary"]]}]}
        pools = [{"id": 1, "db": "db1", "user": "c18u1", "pw": "pw1", "mode": mode, "size": size}]
        addrs = [{"id": 0, "name": "db1_shard_0_primary", "backend": "b0", "pool": 1, "replica": False}]
        backends = ["b0"]
    elif kind == "two":
        s2 = over.get("size2", rng.choice([1, 2]))
        cfg_pools["db1"] = {"opts": opts, "users": [{"username": "c18u1", "password": "pw1", "pool_size": size}],
                            "shards": [{"database": "c18d1", "servers": [["b0", "primary"]]}]}
        cfg_pools["db2"] = {"opts": dict(opts), "users": [{"username": "c18u2", "password": "pw2", "pool_size": s2}],
                            "shards": [{"database": "c18d2", "servers": [["b1", "primary"]]}]}
        pools = [{"id": 1, "db": "db1", "user": "c18u1", "pw": "pw1", "mode": mode, "size": size},
                 {"id": 2, "db": "db2", "user": "c18u2", "pw": "pw2", "mode": mode, "size": s2}]
        addrs = [{"id": 0, "name": "db1_shard_0_primary", "backend": "b0", "pool": 1, "replica": False},
                 {"id": 1, "name": "db2_shard_0_primary", "backend": "b1", "pool": 2, "replica": False}]
        backends = ["b0", "b1"]
    elif kind == "replica":
        size = over.get("size", 1)
        cfg_pools["db1"] = {"opts": opts, "users": [{"username": "c18u1", "password": "pw1", "pool_size": size}],
                            "shards": [{"database": "c18d1", "servers": [["b0", "primary"], ["b1", "replica"]]}]}
        pools = [{"id": 1, "db": "db1", "user": "c18u1", "pw": "pw1", "mode": mode, "size": size}]
        addrs = [{"id": 0, "name": "db1_shard_0_primary", "backend": "b0", "pool": 1, "replica": False},
                 {"id": 1, "name": "db1_shard_0_replica_0", "backend": "b1", "pool": 1, "replica": True}]
        backends = ["b0", "b1"]
    elif kind == "sharded":
        # one pool over 2-3 shards (one primary each, one backend each); shard chosen by comment, SET SHARD or default_shard
        nsh = over.get("shards", rng.choice([2, 3]))
        dsh = over.get("default_shard", rng.choice(["shard_0", "shard_1", "random", "random_healthy"]))
        opts.update({"shard_id_regex": r"/\* shard_id: (\d+) \*/", "sharding_key_regex": r"/\* sharding_key: (\d+) \*/", "default_shard": dsh})
        cfg_pools["db1"] = {"opts": opts, "users": [{"username": "c18u1", "password": "pw1", "pool_size": size}],
                            "shards": [{"database": "c18d1", "servers": [["b%d" % i, "primary"]]} for i in range(nsh)]}
        pools = [{"id": 1, "db": "db1", "user": "c18u1", "pw": "pw1", "mode": mode, "size": size}]
        addrs = [{"id": i, "name": "db1_shard_%d_primary" % i, "backend": "b%d" % i, "pool": 1, "replica": False, "shard": i} for i in range(nsh)]
        backends = ["b%d" % i for i in range(nsh)]
    else:
        raise ValueError(kind)
    w = {"kind": kind, "toml": W.make_toml(general, cfg_pools), "backends": backends, "pools": pools, "addrs": addrs,
         "hc_always": hc_always, "limit": limit, "parser": parser, "mode": mode, "default_role": default_role}
    if kind == "sharded":
        w["shards"], w["default_shard"] = nsh, dsh
    return w


def shard_addr(w, shard):
    """sharded world: the address a checkout goes to for the router's shard (None = nothing selected: default_shard).
    -> address | None (any shard: default_shard random) | "bad" (no such shard: pool.get refuses before the candidate loop)"""
    if shard == "?":
        return None
    if shard is None:
        d = w["default_shard"]
        return w["addrs"][int(d[6:])] if d.startswith("shard_") else None
    return w["addrs"][shard] if shard < w["shards"] else "bad"


# =========================================================================================== history builder

class Hist:
    """Builds the wire steps of one history together with the plan (one entry per sampled segment).
    A light simulation of the pool (who holds what, how many connections exist) only GUIDES the choice of
    actions; the ops given to the model are derived after the run from what clients and backends saw."""

    def __init__(self, world, name):
        self.w, self.name = world, name
        self.steps, self.plan = [], []
        self.cl = {}           # client name -> dict(id, app, pool(id), alive, hold(addr id|None), intxn, role, admin, n)
        self.next_id = 1
        self.hold = {a["id"]: 0 for a in world["addrs"]}
        self.nconn = {a["id"]: 0 for a in world["addrs"]}
        self.stale = {a["id"]: 0 for a in world["addrs"]}   # idle connections that died with their backend, not yet found out
        self.down = set()      # backends in mode down
        self.validated = set() # pool ids whose validate() ran
        self.fault = False     # a backend fault happened (byte counts are compared as bounds only)
        self.admin_only = False
        self.nsample = 0
        self.connect(ADMIN, 0)

    # ---- helpers
    def pool(self, pid):
        return next(p for p in self.w["pools"] if p["id"] == pid)

    def addr_of(self, c):
        """the single candidate address of client c (its explicit role decides in the replica world)"""
        x = self.cl[c]
        cands = [a for a in self.w["addrs"] if a["pool"] == x["pool"]]
        if len(cands) == 1:
            return cands[0]
        if self.w["kind"] == "sharded":
            return shard_addr(self.w, x.get("shard"))
        if x["role"] is None:
            return None
        return next(a for a in cands if a["replica"] == (x["role"] == "replica"))

    def sample(self, entry):
        self.nsample += 1
        lab = "s%d" % self.nsample
        entry["label"] = lab
        # a settled point: nothing observable (registries, pool states, client / backend events, ended tasks) has moved
        # for SETTLE ms (deadline 1.5 s) — not a fixed sleep, which a loaded machine outruns
        self.steps.append({"op": "settle_all", "quiet_ms": SETTLE, "deadline_ms": 1500})
        self.steps.append({"op": "snapshot", "label": lab})
        for sh in SHOWS:
            self.steps.append({"op": "send", "c": ADMIN, "msgs": [{"t": "Q", "sql": "SHOW " + sh}]})
            self.steps.append({"op": "recv", "c": ADMIN, "until": "Z", "timeout_ms": 2000, "label": "%s:%s" % (lab, sh)})
        self.plan.append(entry)

    def tag(self, c):
        x = self.cl[c]
        x["n"] += 1
        return "/*c18:%s:%d*/" % (x["app"], x["n"])

    # ---- actions
    def connect(self, c, pid, how="ok"):
        cid = self.next_id
        self.next_id += 1
        app = "a%d" % cid
        if pid == 0:
            params = {"user": "admin", "database": "pgcat", "application_name": app}
            pw = "adminpw" if how != "badpw" else "nope"
        else:
            p = self.pool(pid)
            params = {"user": p["user"], "database": p["db"] if how != "nodb" else "nosuchdb", "application_name": app}
            pw = p["pw"] if how != "badpw" else "wrong"
        self.cl[c] = {"id": cid, "app": app, "pool": pid, "alive": how == "ok" and not (self.admin_only and pid != 0),
                      "hold": None, "intxn": False, "role": None, "admin": pid == 0, "n": 0, "fails": 0, "shard": None}
        self.steps.append({"op": "connect", "c": c, "params": params, "password": pw, "timeout_ms": 2500})
        if how == "ok" and pid != 0 and pid not in self.validated and not self.admin_only:
            ok_any = False
            for a in self.w["addrs"]:
                if a["pool"] == pid and a["backend"] not in self.down:
                    self.nconn[a["id"]] = max(self.nconn[a["id"]], 1)
                    ok_any = True
            if ok_any:
                self.validated.add(pid)
            else:
                self.cl[c]["alive"] = False
        self.sample({"kind": "connect", "c": c, "how": how})
        if self.cl[c]["alive"] and pid != 0 and len([a for a in self.w["addrs"] if a["pool"] == pid]) > 1 and self.w["default_role"] == "any" and not self.w.get("keep_any") and self.w["kind"] != "sharded":
            self.set_role(c, "primary")

    def set_role(self, c, role):
        self.cl[c]["role"] = role
        self.steps.append({"op": "send", "c": c, "msgs": [{"t": "Q", "sql": "SET SERVER ROLE TO '%s'" % role}]})
        self.steps.append({"op": "recv", "c": c, "until": "Z", "timeout_ms": 1500})
        self.sample({"kind": "noop", "c": c, "what": "SET SERVER ROLE", "role": role})

    def request(self, c, what, spawn_sample=False, expect=None, shard=None):
        """what: select | begin | commit | rollback | error | ext | sync;
        shard (sharded world): ("id", n) => leading /* shard_id: n */, ("key", k) => /* sharding_key: k */"""
        x = self.cl[c]
        t = self.tag(c)
        if shard is not None and what != "sync":
            t = ("/* shard_id: %d */ " if shard[0] == "id" else "/* sharding_key: %d */ ") % shard[1] + t
            if x["hold"] is None:      # the comment is only looked at outside a transaction (try_execute_command)
                x["shard"] = shard[1] if shard[0] == "id" else "?"
        lab = "r%d" % (len(self.steps))
        if what in SIMPLE_SQL:
            msgs = [{"t": "Q", "sql": SIMPLE_SQL[what] % t}]
            proto = "Q"
        elif what in ("ext", "ext2", "extbig"):
            # Parse/Bind/Execute/Sync; ext2: two Bind/Execute pairs before the one Sync; extbig: a reply of several relay buffers
            body = " SELECT 2 /*mock: rows=30, size=1000*/" if what == "extbig" else " SELECT 2"
            be = [{"t": "B", "portal": "", "name": "", "params": []}, {"t": "E", "portal": "", "max": 0}]
            msgs = [{"t": "P", "name": "", "sql": t + body, "types": []}] + be * (2 if what == "ext2" else 1) + [{"t": "S"}]
            proto = "ext"
        else:
            msgs = [{"t": "S"}]
            proto = "sync"
        a = self.addr_of(c)
        refused = a == "bad"
        if refused:
            a = None
        ncand = 1 if a is not None else len([y for y in self.w["addrs"] if y["pool"] == x["pool"]])
        to = CT * ncand + HCT + 900
        send = {"op": "send", "c": c, "msgs": msgs}
        recv = {"op": "recv", "c": c, "until": "Z", "timeout_ms": to, "label": lab}
        entry = {"kind": "req", "c": c, "proto": proto, "what": what, "tag": t.split("*/ ")[-1] if "shard" in t else t, "rlabel": lab, "shard": shard}
        if spawn_sample:
            # sample while the client is blocked in pool.get, then again when it is over
            self.steps.append({"op": "spawn", "task": lab, "steps": [send, recv]})
            self.steps.append({"op": "sleep", "ms": 30})
            self.sample({"kind": "req_start", "c": c, "proto": proto, "req": entry})
            self.steps.append({"op": "join", "task": lab, "timeout_ms": to + 1000})
            entry["started"] = True
        else:
            self.steps += [send, recv]
        # guide simulation
        if x["hold"] is None and a is None and not refused and self.w["kind"] == "sharded":
            pass      # any shard may serve (default_shard random / a sharding key): only asked for when nothing is exhausted, nothing is kept
        elif x["hold"] is None:
            served = a is not None and a["backend"] not in self.down and self.hold[a["id"]] < self.pool(x["pool"])["size"]
            if a is not None and self.stale[a["id"]] > 0:
                # a dead idle connection is handed out (also after the backend came back)
                self.stale[a["id"]] -= 1
                self.nconn[a["id"]] -= 1
                if not self.w["hc_always"]:
                    x["alive"] = False    # error receiving data from server -> the client is disconnected
                served = False
                dead = True
            else:
                dead = False
            if served:
                self.nconn[a["id"]] = max(self.nconn[a["id"]], self.hold[a["id"]] + 1)
                keeps = what == "begin" or self.w["mode"] == "session"
                if keeps:
                    x["hold"] = a["id"]
                    self.hold[a["id"]] += 1
                    x["intxn"] = what == "begin"
            elif x["alive"]:
                x["fails"] += 1
                if self.w["limit"] and x["fails"] >= self.w["limit"]:
                    x["alive"] = False
        elif self.w["addrs"][x["hold"]]["backend"] in self.down:
            self._gone(c)                 # its server is dead: the request kills the client
        else:
            if what in ("commit", "rollback"):
                x["intxn"] = False
                if self.w["mode"] != "session":
                    self.hold[x["hold"]] -= 1
                    x["hold"] = None
            elif what == "begin":
                x["intxn"] = True
        self.sample(entry)

    def custom(self, c, sql, shard=None):
        """a router command answered by the pooler itself (no checkout); shard: the value SET SHARD TO asks for"""
        x = self.cl[c]
        lab = "k%d" % len(self.steps)
        self.steps.append({"op": "send", "c": c, "msgs": [{"t": "Q", "sql": sql}]})
        self.steps.append({"op": "recv", "c": c, "until": "Z", "timeout_ms": 1500, "label": lab})
        if shard is not None and shard < self.w.get("shards", 1):
            x["shard"] = shard
        self.sample({"kind": "noop", "c": c, "what": sql, "set_shard": shard, "rlabel": lab})

    def cancel(self, target, how):
        """a CancelRequest connection.  how: valid (the target's pid and key) | wrong (its pid, another key) | unknown"""
        step = {"op": "cancel", "c": "cancel", "timeout_ms": 400}
        if how == "valid":
            step["of"] = target
        elif how == "wrong":
            step.update({"pid_of": target, "key": 123456789})
        else:
            step.update({"pid": 1357911, "key": 24681012})
        self.steps.append(step)
        self.sample({"kind": "cancel", "target": target if how != "unknown" else None, "how": how})

    def run_and_cancel(self, c):
        """c sends a statement that takes 350 ms; while it runs a CancelRequest with c's key arrives"""
        t = self.tag(c)
        lab = "r%d" % len(self.steps)
        self.steps.append({"op": "send", "c": c, "msgs": [{"t": "Q", "sql": SIMPLE_SQL["slow"] % t}]})
        # listen for 60 ms: an early answer (error reply, closed socket) means the statement is NOT running
        self.steps.append({"op": "recv", "c": c, "until": "Z", "timeout_ms": 60, "label": lab + "a"})
        self.sample({"kind": "run_start", "c": c, "tag": t, "rlabel": lab + "a", "rlabel2": lab})
        self.steps.append({"op": "cancel", "c": "cancel", "of": c, "timeout_ms": 400})
        self.sample({"kind": "cancel", "target": c, "how": "valid-running"})
        self.steps.append({"op": "recv", "c": c, "until": "Z", "timeout_ms": 2500, "label": lab})
        self.sample({"kind": "req", "c": c, "proto": "Q", "what": "slow", "tag": t, "rlabel": lab, "shard": None})

    def leave(self, c, how):
        """how: close | term"""
        x = self.cl[c]
        if how == "close":
            self.steps.append({"op": "close", "c": c})
        else:
            self.steps.append({"op": "send", "c": c, "msgs": [{"t": "X"}]})
            self.steps.append({"op": "recv", "c": c, "until": "Z", "timeout_ms": 300})
        self._gone(c)
        self.sample({"kind": "leave", "c": c, "how": how})

    def _gone(self, c):
        x = self.cl[c]
        x["alive"] = False
        if x["hold"] is not None:
            self.hold[x["hold"]] -= 1
            x["hold"] = None
        x["intxn"] = False

    def panic(self, c, which):
        x = self.cl[c]
        hexs = PANICS[which][0]
        lab = "p%d" % len(self.steps)
        self.steps.append({"op": "send", "c": c, "msgs": [{"raw": hexs}]})
        self.steps.append({"op": "recv", "c": c, "until": "Z", "timeout_ms": 400, "label": lab})
        if x["hold"] is not None and x["intxn"]:
            self.nconn[x["hold"]] -= 1    # the unclean connection is closed
        self._gone(c)
        self.sample({"kind": "panic", "c": c, "which": which, "hex": hexs, "rlabel": lab})

    def close_while_waiting(self, c):
        """pool exhausted: c asks, is sampled waiting, closes its socket, is sampled again, and again after the timeout"""
        x = self.cl[c]
        t = self.tag(c)
        lab = "w%d" % len(self.steps)
        self.steps.append({"op": "send", "c": c, "msgs": [{"t": "Q", "sql": "SELECT 1 " + t}]})
        self.steps.append({"op": "recv", "c": c, "until": "Z", "timeout_ms": 40, "label": lab})
        self.sample({"kind": "req", "c": c, "proto": "Q", "what": "select", "tag": t, "rlabel": lab, "maybe_waiting": True})
        self.steps.append({"op": "close", "c": c})
        self.sample({"kind": "leave", "c": c, "how": "close", "maybe_waiting": True})
        self.steps.append({"op": "sleep", "ms": CT + 100})
        self._gone(c)
        self.sample({"kind": "waiting_gone", "c": c})

    def backend(self, b, mode):
        self.steps.append({"op": "backend", "b": b, "mode": mode})
        if mode in ("down", "refuse"):
            self.down.add(b)
            self.fault = True
            self.steps.append({"op": "sleep", "ms": 40})
            for a in self.w["addrs"]:
                if a["backend"] == b:
                    self.stale[a["id"]] = max(0, self.nconn[a["id"]] - self.hold[a["id"]])
        else:
            self.down.discard(b)
        self.sample({"kind": "backend", "b": b, "mode": mode})

    def period_end(self):
        """the statistics Collector ends a period now (a real Collector is started: its first tick is immediate)"""
        self.steps.append({"op": "collector"})
        self.sample({"kind": "period_end"})

    def shutdown(self):
        self.steps.append({"op": "control", "sig": "int"})
        self.admin_only = True
        for c, x in self.cl.items():
            if x["alive"] and not x["admin"] and x["hold"] is None:
                x["alive"] = False
        self.sample({"kind": "shutdown"})

    def scenario(self):
        return {"backends": [{"name": b} for b in self.w["backends"]], "toml": self.w["toml"], "log_out": True,
                "workers": 2, "steps": self.steps}


# =========================================================================================== generators

def random_history(rng, idx, nact):
    kind = rng.choice(["single", "single", "two", "replica", "session", "sharded", "sharded"])
    w = make_world(kind, rng)
    h = Hist(w, "rnd%d-%s" % (idx, kind))
    names = []
    for i in range(nact):
        alive = [c for c in names if h.cl[c]["alive"]]
        acts = []
        if len(names) < 6:
            acts += [("connect", 5 if len(alive) < 2 else 2), ("badlogin", 1)]
        if alive:
            acts += [("request", 10), ("leave", 2), ("panic", 1 if rng.random() < 0.2 else 0)]
        acts += [("admin", 1), ("backend", 1), ("period", 1)]
        if alive:
            acts.append(("cancel", 2))
        kinds, wts = zip(*[(a, x) for a, x in acts if x > 0])
        act = rng.choices(kinds, wts)[0]
        if act == "connect":
            c = "c%d" % (len(names) + 1)
            names.append(c)
            pid = rng.choice(w["pools"])["id"]
            h.connect(c, pid)
            if kind == "replica" and h.cl[c]["alive"] and rng.random() < 0.5:
                h.set_role(c, "replica")
        elif act == "badlogin":
            c = "c%d" % (len(names) + 1)
            names.append(c)
            pid = rng.choice([0] + [p["id"] for p in w["pools"]])
            h.connect(c, pid, "badpw" if pid == 0 else rng.choice(["badpw", "nodb", "badpw"]))
        elif act == "admin":
            c = "c%d" % (len(names) + 1)
            if len(names) < 6:
                names.append(c)
                h.connect(c, 0)
        elif act == "request":
            c = rng.choice(alive)
            x = h.cl[c]
            if x["admin"]:
                if rng.random() < 0.3:
                    h.panic(c, "q-empty")
                else:
                    h.leave(c, rng.choice(["close", "term"]))
                continue
            if kind == "sharded" and x["hold"] is None:
                r = rng.random()
                if r < 0.12:
                    h.custom(c, "SET SHARD TO '%d'" % rng.choice([w["shards"], w["shards"] + 4, 99]), shard=99)
                    continue
                if r < 0.2:
                    k = rng.randrange(w["shards"])
                    h.custom(c, "SET SHARD TO '%d'" % k, shard=k)
                    continue
                if r < 0.25:
                    h.custom(c, "SET SHARDING KEY TO '99999999999999999999'")
                    continue
            sh = None
            if kind == "sharded" and x["hold"] is None:
                r = rng.random()
                free = all(h.hold[y["id"]] < h.pool(1)["size"] for y in w["addrs"])
                if r < 0.3:
                    sh = ("id", rng.randrange(w["shards"]))
                elif r < 0.5:
                    sh = ("id", rng.choice([w["shards"], 7, 123]))          # no such shard
                elif r < 0.62 and free:
                    sh = ("key", rng.randrange(1, 1000))
                if sh is None and shard_addr(w, x["shard"]) is None and not free:
                    sh = ("id", rng.randrange(w["shards"]))                  # any-shard requests only while nothing is exhausted
                if sh is not None:
                    x_shard_after = sh[1] if sh[0] == "id" else "?"
                    a = shard_addr(w, x_shard_after)
                else:
                    a = h.addr_of(c)
                if a == "bad" or a is None:
                    what = rng.choice(["select", "select", "ext", "error", "begin" if a == "bad" else "select"])
                    h.request(c, what, shard=sh)
                    continue
                exhausted = h.hold[a["id"]] >= h.pool(1)["size"]
                what = rng.choice(["select", "select", "begin", "begin", "ext", "error", "ext2", rng.choice(BIG)])
                h.request(c, what, spawn_sample=exhausted and rng.random() < 0.5, shard=sh)
                continue
            a = h.addr_of(c)
            exhausted = x["hold"] is None and a is not None and h.hold[a["id"]] >= h.pool(x["pool"])["size"]
            if exhausted and rng.random() < 0.25:
                h.close_while_waiting(c)
                continue
            if x["hold"] is None:
                what = rng.choice(["select", "begin", "begin", "ext", "error", "ext2", rng.choice(BIG + ["extbig"]), "sync" if (w["kind"] == "single" and h.pool(1)["size"] == 1 and not w["hc_always"]) else "select"])
            elif x["intxn"]:
                what = rng.choice(["select", "ext", "commit", "commit", "rollback", "error", "ext2", rng.choice(BIG + ["extbig"])])
            else:
                what = rng.choice(["select", "ext", "begin", "error", rng.choice(BIG)])
            h.request(c, what, spawn_sample=exhausted and rng.random() < 0.6)
        elif act == "leave":
            c = rng.choice(alive)
            h.leave(c, rng.choice(["close", "term"]))
        elif act == "period":
            h.period_end()
        elif act == "cancel":
            c = rng.choice(alive)
            x = h.cl[c]
            a = h.addr_of(c) if not x["admin"] else None
            if (not x["admin"] and x["hold"] is None and isinstance(a, dict) and a["backend"] not in h.down and w["mode"] != "session"
                    and h.stale[a["id"]] == 0
                    and h.hold[a["id"]] < h.pool(x["pool"])["size"] and rng.random() < 0.4):
                h.nconn[a["id"]] = max(h.nconn[a["id"]], h.hold[a["id"]] + 1)
                h.run_and_cancel(c)
            else:
                h.cancel(c, rng.choice(["valid", "valid", "wrong", "unknown"]))
        elif act == "panic":
            c = rng.choice(alive)
            x = h.cl[c]
            which = "q-empty" if x["hold"] is None else "close-empty"
            if rng.random() < 0.3:
                which = rng.choice(["neg-len", "close-empty"])
            h.panic(c, which)
        elif act == "backend":
            b = rng.choice(w["backends"])
            if b in h.down:
                h.backend(b, "normal")
            else:
                if kind == "sharded":
                    continue          # (any-shard checkouts must stay deterministic: no backend faults in this world)
                aids = [a["id"] for a in w["addrs"] if a["backend"] == b]
                # only when pgcat has at most one connection to it, and either nobody or one client holds it
                if all(h.nconn[a] <= 1 for a in aids) and rng.random() < 0.7:
                    h.backend(b, "refuse")
    if rng.random() < 0.3:
        h.shutdown()
    return h


def directed_histories(rng):
    out = []
    # every confirmed panic input, at idle and (where possible) inside a transaction, in every world kind
    for which, (hexs, where, parser) in PANICS.items():
        for kind in (["single"] if parser else ["single", "two", "session"]):
            w = make_world(kind, rng, parser=parser, limit=None, hc_always=False)
            h = Hist(w, "panic-%s-%s-idle" % (which, kind))
            h.connect("c1", 1)
            h.connect("c2", 1)
            if not (kind == "session" and where == "idle"):
                h.request("c1", "select")     # (a session-mode client that was served sits in the transaction loop)
            h.panic("c1", which)
            h.request("c2", "select")
            h.leave("c2", "term")
            out.append(h)
            if where == "any" and kind != "session":
                h = Hist(make_world(kind, rng, parser=False, limit=None, hc_always=False, size=2), "panic-%s-%s-intxn" % (which, kind))
                h.connect("c1", 1)
                h.connect("c2", 1)
                h.request("c1", "begin")
                h.request("c1", "select")
                h.panic("c1", which)
                h.request("c2", "select")
                h.leave("c2", "close")
                out.append(h)
    # a panicking admin client
    h = Hist(make_world("single", rng, limit=None, hc_always=False), "panic-admin")
    h.connect("c1", 0)
    h.connect("c2", 1)
    h.panic("c1", "q-empty")
    h.request("c2", "select")
    out.append(h)
    # every way of leaving, then everything must be zero
    for kind in ("single", "two", "session", "replica"):
        w = make_world(kind, rng, limit=None, hc_always=False, size=2)
        h = Hist(w, "all-leave-%s" % kind)
        for i, c in enumerate(["c1", "c2", "c3", "c4"]):
            h.connect(c, w["pools"][i % len(w["pools"])]["id"])
        h.request("c1", "begin")
        h.request("c2", "select")
        h.request("c3", "begin")
        h.request("c3", "ext")
        h.leave("c1", "close")      # abrupt, in a transaction
        h.leave("c3", "term")       # clean, in a transaction
        h.leave("c2", "close")      # abrupt, idle
        h.leave("c4", "term")       # clean, idle
        out.append(h)
    # checkout failure limit: the second failure disconnects the client
    w = make_world("single", rng, limit=2, hc_always=False, size=1)
    h = Hist(w, "failure-limit")
    h.connect("c1", 1)
    h.connect("c2", 1)
    h.request("c1", "begin")
    h.request("c2", "select", spawn_sample=True)
    h.request("c2", "select")
    h.request("c1", "commit")
    out.append(h)
    # lone Sync (answered by the pooler, counted as a transaction)
    w = make_world("single", rng, limit=None, hc_always=False, size=1)
    h = Hist(w, "lone-sync")
    h.connect("c1", 1)
    h.request("c1", "sync")
    h.request("c1", "select")
    h.request("c1", "sync")
    out.append(h)
    # shutdown with one client idle and one in a transaction
    w = make_world("single", rng, limit=None, hc_always=False, size=2)
    h = Hist(w, "shutdown")
    h.connect("c1", 1)
    h.connect("c2", 1)
    h.request("c1", "begin")
    h.request("c2", "select")
    h.shutdown()
    h.connect("c3", 1)              # rejected: admin only
    h.request("c1", "commit")       # the transaction may finish; then the client is told to go
    out.append(h)
    # sharded pool: valid / unknown shard ids by comment and by SET SHARD, sharding keys, every default_shard;
    # pool.get refuses an unknown shard BEFORE its candidate loop (client.rs: waiting(), Err arm: idle())
    for dsh in ("shard_0", "shard_1", "random", "random_healthy"):
        w = make_world("sharded", rng, limit=None, hc_always=False, size=2, shards=3, default_shard=dsh)
        h = Hist(w, "shard-refusal-%s" % dsh)
        h.connect("c1", 1)
        h.connect("c2", 1)
        h.request("c1", "select")                            # nothing selected: default_shard decides
        h.request("c1", "select", shard=("id", 2))
        h.request("c1", "select", shard=("id", 7))           # refused: error reply, stays connected, idle
        h.request("c1", "select")                            # the router keeps shard 7: refused again
        h.request("c1", "ext")                               # ... also for a Parse/Bind/Execute/Sync batch
        h.request("c1", "sync")                              # ... and a lone Sync
        h.custom("c1", "SET SHARD TO '9'", shard=9)          # error reply, no checkout, shard 7 stays
        h.request("c1", "begin")                             # still refused
        h.custom("c1", "SET SHARD TO '1'", shard=1)
        h.request("c1", "begin")
        h.request("c1", "select", shard=("id", 7))           # inside a transaction the comment is not looked at
        h.request("c1", "commit")
        h.request("c1", "select", shard=("key", 42))
        h.request("c1", "ext", shard=("id", 5))              # refused at the Sync
        h.custom("c1", "SET SHARDING KEY TO '99999999999999999999'")
        h.request("c2", "select", shard=("id", 0))
        h.leave("c1", "term")
        h.leave("c2", "close")
        out.append(h)
    w = make_world("sharded", rng, limit=2, hc_always=False, size=1, shards=2, default_shard="shard_0")
    h = Hist(w, "shard-refusal-limit")
    h.connect("c1", 1)
    h.connect("c2", 1)
    h.request("c1", "select", shard=("id", 3))
    h.request("c2", "begin", shard=("id", 1))
    h.request("c1", "select", shard=("id", 1), spawn_sample=True)     # shard 1 is exhausted: second failure, disconnected
    h.request("c2", "commit")
    out.append(h)
    # the end of a statistics period (Collector): errors, bytes, transactions counted before it; samples on both sides
    for role in ("replica", "primary"):
        w = make_world("replica", rng, limit=None, hc_always=False, size=1)
        h = Hist(w, "period-end-%s" % role)
        h.period_end()                      # nothing counted yet, no server connection at all
        h.connect("c1", 1)
        h.set_role("c1", role)
        h.connect("c2", 1)
        h.set_role("c2", role)
        h.request("c1", "buffers")
        h.request("c1", "begin")
        h.request("c2", "select", spawn_sample=True)     # pool exhausted: checkout error (replica: ban + client error)
        h.period_end()                      # total_errors / bytes / counts must survive; averages = this period / 15
        h.period_end()                      # an empty period: averages back to 0, totals still there
        h.request("c1", "commit")
        h.request("c2", "select")
        h.backend("b1" if role == "replica" else "b0", "refuse")
        h.request("c2", "select")           # the dead connection: another error class
        h.period_end()
        h.leave("c1", "term")
        h.period_end()
        out.append(h)
    for kind in ("single", "two", "sharded", "session"):
        w = make_world(kind, rng, limit=None, hc_always=False, size=1)
        h = Hist(w, "period-end-%s" % kind)
        h.connect("c1", 1)
        h.connect("c2", w["pools"][-1]["id"])
        h.request("c1", "copyout")
        h.request("c2", "ext2")
        h.period_end()
        h.request("c1", "begin")
        h.request("c2", "select", spawn_sample=(kind == "single"))
        h.period_end()
        h.request("c1", "rollback")
        h.leave("c1", "close")
        h.leave("c2", "term")
        h.period_end()                      # every client gone: the totals stay
        out.append(h)
    # an idle connection that died with its backend is handed out after the backend is back: the client's task ends at
    # once (no reply ever comes); sampled BEFORE the scripted client notices the closed socket
    for hc in (False, True):
        w = make_world("single", rng, limit=None, hc_always=hc, size=1)
        h = Hist(w, "stale-connection-%s" % ("healthcheck" if hc else "plain"))
        h.connect("c1", 1)
        h.request("c1", "select")
        h.backend("b0", "refuse")
        h.backend("b0", "normal")
        h.run_and_cancel("c1")
        h.connect("c2", 1)
        h.request("c2", "select")
        out.append(h)
    # CancelRequest connections: pseudo-clients that are never registered and must change nothing — whoever they name
    for kind in ("single", "session"):
        w = make_world(kind, rng, limit=None, hc_always=False, size=2)
        h = Hist(w, "cancel-%s" % kind)
        h.connect("c1", 1)
        h.connect("c2", 1)
        h.cancel("c1", "valid")             # an idle client: its row must stay
        h.cancel("c1", "wrong")             # its pid with a wrong secret key
        h.cancel("c1", "unknown")
        h.cancel(ADMIN, "valid")
        h.request("c1", "begin")
        h.cancel("c1", "valid")             # holds a server: forwarded to the backend
        h.cancel("c1", "wrong")
        h.request("c1", "select")
        h.request("c1", "commit")
        if kind == "single":
            h.run_and_cancel("c2")          # a statement is running
        h.request("c2", "select")
        h.cancel("c2", "valid")
        h.leave("c1", "term")
        h.cancel("c1", "valid")             # names a client that has gone
        h.leave("c2", "close")
        out.append(h)
    # replies of every size: queries are request cycles, not relay buffers (8196 bytes); several Executes per Sync
    for kind in ("single", "session", "two"):
        w = make_world(kind, rng, limit=None, hc_always=False, size=2)
        h = Hist(w, "reply-sizes-%s" % kind)
        h.connect("c1", 1)
        h.connect("c2", 1)
        for what in ("select", "rows50", "bigrow", "buffers", "copyout", "ext2", "extbig"):
            h.request("c1", what)
        h.request("c2", "begin")
        for what in ("buffers", "copyout", "ext2", "extbig", "bigrow"):
            h.request("c2", what)
        h.request("c2", "commit")
        h.leave("c1", "term")
        h.leave("c2", "term")
        out.append(h)
    # failed health check with a replica (client error counter, ban) and with a primary
    for role in ("replica", "primary"):
        w = make_world("replica", rng, limit=None, hc_always=True, size=1)
        h = Hist(w, "healthcheck-fail-%s" % role)
        h.connect("c1", 1)
        h.set_role("c1", role)
        h.request("c1", "select")
        h.backend("b1" if role == "replica" else "b0", "refuse")
        h.request("c1", "select")
        h.request("c1", "select")
        h.backend("b1" if role == "replica" else "b0", "normal")
        h.request("c1", "select")
        out.append(h)
    # server dies under a client (replica: ban + error; primary: no ban)
    for role in ("replica", "primary"):
        w = make_world("replica", rng, limit=None, hc_always=False, size=1)
        h = Hist(w, "server-dies-%s" % role)
        h.connect("c1", 1)
        h.set_role("c1", role)
        h.connect("c2", 1)
        h.request("c1", "begin")
        h.backend("b1" if role == "replica" else "b0", "refuse")
        h.request("c1", "select")
        h.request("c2", "select")
        out.append(h)
    return out


def special_histories(rng):
    """Histories whose prediction is set-valued or needs extra ops; each returns (Hist, extra) and is handled by kind."""
    out = []
    # F29: both candidates exhausted, default role any: the client waits 2 x connect_timeout; sampled in both waits
    w = make_world("replica", rng, limit=None, hc_always=False, size=1)
    w["keep_any"] = True
    h = Hist(w, "waiting-shown-idle")
    h.connect("c1", 1)
    h.connect("c2", 1)
    h.connect("c3", 1)
    # c1 and c2 take the two connections (whichever candidate is tried first: a busy one costs one connect_timeout)
    for c in ("c1", "c2"):
        t = h.tag(c)
        h.steps.append({"op": "send", "c": c, "msgs": [{"t": "Q", "sql": "BEGIN " + t}]})
        h.steps.append({"op": "recv", "c": c, "until": "Z", "timeout_ms": 2 * CT + 1500, "label": "wsi-" + c})
    t = h.tag("c3")
    h.steps.append({"op": "send", "c": "c3", "msgs": [{"t": "Q", "sql": "SELECT 1 " + t}]})
    h.steps.append({"op": "sleep", "ms": CT // 2})
    h.sample({"kind": "wsi", "phase": 1})
    h.steps.append({"op": "sleep", "ms": CT - SETTLE - 20})
    h.sample({"kind": "wsi", "phase": 2})
    h.steps.append({"op": "recv", "c": "c3", "until": "Z", "timeout_ms": 2 * CT + 1000, "label": "wsi-c3"})
    h.sample({"kind": "wsi", "phase": 3})
    out.append(h)
    # Tested: the health check hangs; the server is shown "tested", the client "waiting"
    w = make_world("single", rng, limit=None, hc_always=True, size=1)
    h = Hist(w, "tested-state")
    h.connect("c1", 1)
    h.request("c1", "select")
    h.steps.append({"op": "backend", "b": "b0", "mode": "hang"})
    t = h.tag("c1")
    h.steps.append({"op": "send", "c": "c1", "msgs": [{"t": "Q", "sql": "SELECT 1 " + t}]})
    h.steps.append({"op": "sleep", "ms": 60})
    h.sample({"kind": "tested", "phase": 1})
    h.steps.append({"op": "recv", "c": "c1", "until": "Z", "timeout_ms": HCT + 1000, "label": "tested-c1"})
    h.sample({"kind": "tested", "phase": 2})
    h.fault = True
    out.append(h)
    # Login: the backend never finishes the startup; the connection attempt stays listed in state login
    w = make_world("single", rng, limit=None, hc_always=False, size=1)
    h = Hist(w, "login-state")
    h.steps.insert(0, {"op": "backend", "b": "b0", "mode": "hang_startup"})
    h.cl["c1"] = {"id": h.next_id, "app": "a%d" % h.next_id, "pool": 1, "alive": False, "hold": None, "intxn": False, "role": None, "admin": False, "n": 0, "fails": 0}
    h.next_id += 1
    h.steps.append({"op": "connect", "c": "c1", "params": {"user": "c18u1", "database": "db1", "application_name": h.cl["c1"]["app"]}, "password": "pw1", "timeout_ms": CT + 1500})
    h.sample({"kind": "connect", "c": "c1", "how": "ok"})
    h.fault = True
    out.append(h)
    return out


# =========================================================================================== ops from a run

class Derive:
    """Turns the plan of a history + what the run showed (client frames, backend logs) into model ops, one
    list per sampled segment.  Nothing is taken from the statistics themselves."""

    def __init__(self, h, res, variant=(False, 0)):
        self.h, self.w, self.res = h, h.w, res
        self.variant = variant   # set-valued histories: (c2 tried the busy candidate first, c3's first candidate)
        self.ev = res["events"]
        self.snaps = {s["label"]: s for s in res["snapshots"]}
        self.bidx = {b: i for i, b in enumerate(self.w["backends"])}
        self.baddr = {a["backend"]: a for a in self.w["addrs"]}
        self.held, self.inchk, self.intxn, self.phase, self.role, self.fails = {}, {}, {}, {}, {}, {}
        self.srv = {}            # sid -> dict(addr, live (as pgcat sees it), balive, holder)
        self.bmode = {b: "normal" for b in self.w["backends"]}
        self.shutdown = False
        self.ledger = {}         # client -> [queries, xacts] counted from its own frames
        self.synth = {a["id"]: 0 for a in self.w["addrs"]}   # lone Syncs answered by the pooler, per address
        self.recv_by_label = {e.get("label"): e for e in self.ev if e.get("ev") == "recv" and e.get("label")}
        self.startup = {e["who"]: e for e in self.ev if e.get("ev") == "startup_done"}
        self.notes = []
        self.outcomes = []
        self.prev_tasks, self.new_tasks = [], []
        self.done_req = set()
        self.sidmap, self.sidinfo = {}, {}
        self.initer = {}         # client -> blocked on a candidate inside pool.get
        self.started_free = set()
        self.lo_seq = -1
        self.shard = {}          # sharded world: client -> the router's shard (None nothing selected, "?" some valid shard)
        self.banned = set()      # replica addresses on the ban list (a checkout that meets a banned address unbans it
                                 # - it is the only replica - and forces a health check: pool.rs try_unban / force_healthcheck)

    def cid(self, c):
        return self.h.cl[c]["id"]

    def sid(self, backend, conn):
        # small ids in order of first appearance (the model's nat is unary)
        key = (backend, int(conn))
        if key not in self.sidmap:
            self.sidmap[key] = len(self.sidmap) + 1
            self.sidinfo[self.sidmap[key]] = key
        return self.sidmap[key]

    def cand(self, c):
        x = self.h.cl[c]
        cands = [a for a in self.w["addrs"] if a["pool"] == x["pool"]]
        if len(cands) == 1:
            return cands[0]
        if self.w["kind"] == "sharded":
            a = shard_addr(self.w, self.shard.get(c))
            return None if a == "bad" else a
        r = self.role.get(c)
        return next((a for a in cands if a["replica"] == (r == "replica")), None)

    def find_server(self, tag):
        for e in self.ev:
            if e.get("ev") == "msg" and tag in (e.get("detail", {}).get("sql") or ""):
                return self.sid(e["who"], e["conn"])
        return None

    def idle_srv(self, a, dead=None):
        out = [s for s, y in self.srv.items() if y["addr"] == a["id"] and y["live"] and y["holder"] is None and y["ready"]
               and (dead is None or (not y["balive"]) == dead)]
        return out

    def after_exit(self, c):
        self.initer[c] = False
        s = self.held.pop(c, None)
        if s is not None:
            self.srv[s]["holder"] = None
        self.phase[c] = "gone"
        self.inchk[c] = False

    def maybe_shutdown_exit(self, c, ops):
        if self.shutdown and not self.h.cl[c]["admin"] and self.phase.get(c) == "handle" and c not in self.held:
            ops.append("ExitOk %d" % self.cid(c))
            self.after_exit(c)

    def segment(self, entry, lo, hi):
        """ops of the segment (events with lo < seq <= hi belong to it)"""
        k = entry["kind"]
        pre, ops, drops = [], [], []
        cur = self.snaps[entry["label"]].get("task_results", [])
        self.new_tasks = cur[len(self.prev_tasks):]      # how the client tasks that ended in this segment ended
        self.prev_tasks = cur
        self.cur_hi, self.lo_seq = hi, lo
        win = [e for e in self.ev if lo < e["seq"] <= hi]
        # server connections opened in this segment
        for e in win:
            if e.get("ev") == "open" and e.get("who") in self.bidx and "conn" in e and str(e.get("params", {}).get("user", "")).startswith("c18u"):
                s = self.sid(e["who"], e["conn"])
                a = self.baddr[e["who"]]
                ready = any(r.get("ev") == "ready" and r.get("who") == e["who"] and r.get("conn") == e["conn"] for r in self.ev)
                self.srv[s] = {"addr": a["id"], "live": True, "balive": True, "holder": None, "ready": ready}
                pre.append("ServerConnect %d %d" % (s, a["id"]))
                if ready:
                    pre.append("ServerReady %d" % s)
        getattr(self, "k_" + k)(entry, ops, drops)
        data = []
        for s, y in self.srv.items():
            if not y["live"] and s not in drops:
                continue
            b, conn = self.sidinfo[s]
            sent = sum(len(e["detail"].get("raw", "")) // 2 for e in win if e.get("ev") == "msg" and e["who"] == b and e["conn"] == conn and e["tag"] != "X")
            recv = sum(e["nbytes"] for e in win if e.get("ev") == "out" and e["who"] == b and e["conn"] == conn)
            if sent or recv:
                data.append("Data %d %d %d" % (s, sent, recv))
        for s in drops:
            self.srv[s]["live"] = False
        return pre + ops + data + ["ServerDrop %d" % s for s in drops]

    # ---- one method per plan entry kind
    def k_noop(self, entry, ops, drops):
        if "role" in entry:
            self.role[entry["c"]] = entry["role"]
        if entry.get("set_shard") is not None:
            # SET SHARD TO 'n': accepted iff n < shards (client.rs handle_custom_protocol), else the old shard stays
            ev = self.recv_by_label.get(entry["rlabel"])
            ok = bool(ev) and not any(f.get("t") == "E" for f in ev["frames"])
            self.outcomes.append(("custom", "SET SHARD", "accepted" if ok else "refused"))
            if ok:
                self.shard[entry["c"]] = entry["set_shard"]
        elif "rlabel" in entry:
            ev = self.recv_by_label.get(entry["rlabel"])
            self.outcomes.append(("custom", entry["what"].split(" TO")[0], "error" if ev and any(f.get("t") == "E" for f in ev["frames"]) else "ok"))

    def k_connect(self, entry, ops, drops):
        c = entry["c"]
        e = self.startup.get(c)
        ok = bool(e and e.get("auth_ok"))
        self.outcomes.append(("connect", entry["how"], ok))
        ops.append("Login %d %d %s" % (self.cid(c), self.h.cl[c]["pool"], "true" if ok else "false"))
        if ok:
            ops.append("HandleStart %d" % self.cid(c))
            self.phase[c] = "handle"
            self.ledger[c] = [0, 0]
        else:
            self.phase[c] = "gone"

    def k_req_start(self, entry, ops, drops):
        c = entry["c"]
        req = entry.get("req")
        if req is not None:
            ev = self.recv_by_label.get(req["rlabel"])
            if ev is not None and ev["seq"] <= self.cur_hi:
                # the reply was there before the sample: the client was not made to wait
                self.k_req(req, ops, drops)
                self.done_req.add(req["rlabel"])
                return
        if c not in self.held and not self.inchk.get(c):
            # client.rs waiting(), then pool.get: the first iteration of the candidate loop (waiting() again) blocks
            # on its candidate
            ops += ["CheckoutStart %d" % self.cid(c), "CandidateTry %d" % self.cid(c)]
            self.inchk[c] = True
            self.initer[c] = True

    def classify(self, ev):
        frames = ev["frames"] if ev else []
        msgs = [f.get("fields", {}).get("M", "") for f in frames if f.get("t") == "E"]
        zs = [f for f in frames if f.get("t") == "Z"]
        if any(m.startswith("could not get connection from the pool") for m in msgs):
            return "poolfail", any(m.startswith("checkout failure limit reached") for m in msgs), zs
        if any(m.startswith("error receiving data from server") for m in msgs) or any(m.startswith("pool statement timeout") for m in msgs):
            return "srvfail", False, zs
        if any(m.startswith("terminating connection due to administrator command") for m in msgs):
            return "shutdown", False, zs
        if zs:
            return "served", False, zs
        return ("closed" if ev and ev.get("outcome", "").startswith("closed") else "silent"), False, zs

    def k_req(self, entry, ops, drops):
        c, cid = entry["c"], self.cid(entry["c"])
        if entry["rlabel"] in self.done_req:
            return
        ev = self.recv_by_label.get(entry["rlabel"])
        cls, limit_hit, zs = self.classify(ev)
        if entry.get("maybe_waiting") and cls == "silent" and ev and ev.get("outcome") == "timeout":
            if self.phase.get(c) == "handle":
                self.k_req_start({"c": c}, ops, drops)    # no answer yet: the task is inside pool.get
            return
        self.outcomes.append(("req", entry["what"], "held" if c in self.held else "free", cls))
        if self.phase.get(c) != "handle":
            return
        txn_mode = self.w["mode"] != "session"
        if entry.get("shard") and c not in self.held and entry["proto"] != "sync":
            # a leading routing comment is read by try_execute_command (outer loop only)
            self.shard[c] = entry["shard"][1] if entry["shard"][0] == "id" else "?"
        msgs_e = [f.get("fields", {}).get("M", "") for f in (ev["frames"] if ev else []) if f.get("t") == "E"]
        refused = cls == "poolfail" and any("InvalidShardId" in m for m in msgs_e)
        a = self.cand(c)
        force_hc = False
        if c not in self.held and a is not None and a["id"] in self.banned:
            force_hc = True
            self.banned.discard(a["id"])
        if c not in self.held and refused:
            # pool.get returns Err(InvalidShardId) BEFORE the candidate loop: client.rs waiting(), then the Err arm: idle()
            if not self.inchk.get(c):
                ops.append("CheckoutStart %d" % cid)
            ops.append("CheckoutGiveUp %d" % cid)
            self.inchk[c] = self.initer[c] = False
            self.fails[c] = self.fails.get(c, 0) + 1
            if "ok" in self.new_tasks and bool(self.w["limit"]) and self.fails[c] >= self.w["limit"]:
                ops.append("ExitOk %d" % cid)
                self.after_exit(c)
            else:
                self.maybe_shutdown_exit(c, ops)
            return
        if c not in self.held:
            self.k_req_start(entry, ops, drops)
            if cls == "served":
                s = self.find_server(entry["tag"]) if entry["proto"] != "sync" else None
                if s is None:
                    idle = self.idle_srv(a) if a else []
                    s = idle[0] if len(idle) == 1 else None
                if s is None:
                    self.notes.append("cannot tell which server served %s" % entry["tag"])
                    return
                ops.append("CheckoutOk %d %d" % (cid, s))
                self.held[c] = s
                self.srv[s]["holder"] = c
                self.inchk[c] = self.initer[c] = False
                if self.shard.get(c) == "?":
                    self.shard[c] = self.w["addrs"][self.srv[s]["addr"]].get("shard", 0)    # where the sharding key landed
            elif cls == "poolfail":
                for a1 in ([a] if a else []):
                    if not self.initer.get(c):
                        ops.append("CandidateTry %d" % cid)     # every further iteration starts with waiting()
                    self.initer[c] = False
                    dead = self.idle_srv(a1, dead=True)
                    if dead and (self.w["hc_always"] or force_hc):
                        ops += ["TestServer %d" % dead[0], "CandidateFail %d %d true" % (cid, a1["id"])]
                        drops.append(dead[0])
                    else:
                        ops.append("CandidateFail %d %d false" % (cid, a1["id"]))
                    if a1["replica"]:
                        self.banned.add(a1["id"])
                if self.initer.get(c):
                    ops.append("CandidateSkip %d" % cid)        # (no candidate at all: not generated)
                    self.initer[c] = False
                ops.append("CheckoutGiveUp %d" % cid)
                self.inchk[c] = False
                self.fails[c] = self.fails.get(c, 0) + 1
                limit_hit = "ok" in self.new_tasks and bool(self.w["limit"]) and self.fails[c] >= self.w["limit"]
                if limit_hit:
                    ops.append("ExitOk %d" % cid)
                    self.after_exit(c)
                else:
                    self.maybe_shutdown_exit(c, ops)
                return
            elif cls in ("srvfail", "closed", "silent"):
                dead = self.idle_srv(a, dead=True) if a else []
                if len(dead) == 1:
                    # a dead connection was handed out.  If the failure shows while the pooler syncs the client's
                    # parameters (client.rs sync_parameters()?: no pool.ban, no message) the socket just closes;
                    # if it shows while relaying (receive_server_message: ban + "error receiving data") the address is charged
                    ops += ["CheckoutOk %d %d" % (cid, dead[0]), "ExitErr %d %s" % (cid, "true" if cls == "srvfail" else "false")]
                    if cls == "srvfail" and a["replica"]:
                        self.banned.add(a["id"])
                    drops.append(dead[0])
                    self.after_exit(c)
                else:
                    self.notes.append("request of %s ended %s with no dead idle connection known" % (c, cls))
                return
            elif cls == "shutdown":
                del ops[-2:]    # no checkout: the task left at the top of its loop
                self.inchk[c] = self.initer[c] = False
                ops.append("ExitOk %d" % cid)
                self.after_exit(c)
                return
        else:
            if cls in ("srvfail", "closed", "silent"):
                s = self.held[c]
                if self.w["addrs"][self.srv[s]["addr"]]["replica"]:
                    self.banned.add(self.srv[s]["addr"])
                ops.append("ExitErr %d true" % cid)
                self.after_exit(c)
                drops.append(s)
                return
        # served
        s = self.held[c]
        if entry["proto"] != "sync":
            nq = 1
            if SELFTEST_QUERY_PER_BUFFER:
                b, conn = self.sidinfo[s]
                out = sum(e["nbytes"] for e in self.ev if e.get("ev") == "out" and e["who"] == b and e["conn"] == conn and self.lo_seq < e["seq"] <= self.cur_hi)
                nq = max(1, -(-out // 8197))
            ops += ["QueryDone %d %d" % (cid, s)] * nq
            self.ledger[c][0] += 1
        status = zs[-1].get("status") if zs else None
        self.intxn[c] = status in ("T", "E")
        if status == "I":
            ops.append("TxnDone %d %d" % (cid, s))
            self.ledger[c][1] += 1
            if entry["proto"] == "sync":
                self.synth[self.srv[s]["addr"]] += 1
            if txn_mode:
                ops.append("Release %d %d" % (cid, s))
                self.srv[s]["holder"] = None
                del self.held[c]
                self.maybe_shutdown_exit(c, ops)

    def k_cancel(self, entry, ops, drops):
        # a pseudo-client: Client::cancel, handle() returns before register; nothing in the statistics may move
        t = entry.get("target")
        self.outcomes.append(("cancel", entry["how"], ("holding" if t in self.held else "free") if t else "-",
                              "forwarded" if any(e.get("ev") == "cancel" and self.lo_seq < e["seq"] <= self.cur_hi for e in self.ev) else "dropped"))
        ops.append("CancelConn %d" % (self.cid(t) if t else 999))

    def k_run_start(self, entry, ops, drops):
        """the statement has reached a backend and is running there: the client owns the server, no reply yet"""
        c, cid = entry["c"], self.cid(entry["c"])
        if self.phase.get(c) != "handle" or c in self.held:
            return
        ev = self.recv_by_label.get(entry["rlabel"])
        if ev is not None and not (ev.get("outcome") == "timeout" and not ev["frames"]):
            # answered (or disconnected) within the 60 ms: an ordinary request that is over already
            self.k_req(dict(entry, kind="req", proto="Q", what="slow", shard=None), ops, drops)
            self.done_req.add(entry["rlabel2"])
            return
        s = self.find_server(entry["tag"])
        if s is None:
            # the statement did not reach a backend.  What became of the client is read off its task: if the task has
            # ENDED by now (a dead idle connection was handed out and the parameter sync / relay failed), the client is
            # gone at this sample already — not only when its script later notices the closed socket
            a = self.cand(c)
            dead = self.idle_srv(a, dead=True) if a else []
            ended = [x for x in self.new_tasks if x.startswith("err")]
            if ended and len(dead) == 1:
                srvfail = "receiving data from server" in ended[0] or "Statement timeout" in ended[0]
                ops += ["CheckoutStart %d" % cid, "CandidateTry %d" % cid, "CheckoutOk %d %d" % (cid, dead[0]),
                        "ExitErr %d %s" % (cid, "true" if srvfail else "false")]
                if srvfail and a["replica"]:
                    self.banned.add(a["id"])
                drops.append(dead[0])
                self.after_exit(c)
                self.outcomes.append(("run_start", "dead-connection", "task ended"))
            elif not self.new_tasks:
                # no answer, no backend, task alive: blocked inside pool.get
                self.k_req_start({"c": c}, ops, drops)
                self.outcomes.append(("run_start", "waiting", "task alive"))
            else:
                self.notes.append("statement %s did not reach a backend and the task ended %s" % (entry["tag"], self.new_tasks))
            return
        ops += ["CheckoutStart %d" % cid, "CandidateTry %d" % cid, "CheckoutOk %d %d" % (cid, s)]
        self.held[c] = s
        self.srv[s]["holder"] = c
        self.started_free.add(entry["tag"])

    def k_period_end(self, entry, ops, drops):
        ops.append("PeriodEnd")

    def k_sleep(self, entry, ops, drops):
        pass

    def k_leave(self, entry, ops, drops):
        c = entry["c"]
        if self.phase.get(c) != "handle":
            return
        if entry.get("maybe_waiting") and self.inchk.get(c):
            return     # the socket is closed but the task is still inside pool.get: nothing changes yet
        s = self.held.get(c)
        if s is not None and self.intxn.get(c) and not self.srv[s]["balive"]:
            # the ROLLBACK of checkin_cleanup() fails on the dead server: handle() returns Err, the server is dropped
            ops.append("ExitErr %d false" % self.cid(c))
            drops.append(s)
        else:
            ops.append(("ExitErr %d false" if entry["how"] == "close" else "ExitOk %d") % self.cid(c))
        self.after_exit(c)

    def k_panic(self, entry, ops, drops):
        """bytes that are expected to kill the task: what really happened is read off the task's JoinHandle"""
        c = entry["c"]
        if self.phase.get(c) != "handle":
            return
        s = self.held.get(c)
        ended = self.new_tasks
        self.outcomes.append(("panic", entry["which"], "held" if s is not None else "free", ",".join(x.split(":")[0] for x in ended) or "survived"))
        if "panic" in ended:
            ops.append("ExitPanic %d" % self.cid(c))
        elif any(x.startswith("err") for x in ended):
            ops.append("ExitErr %d false" % self.cid(c))
        elif "ok" in ended:
            ops.append("ExitOk %d" % self.cid(c))
        else:
            # the task survived the bytes: the message was answered or forwarded like any other request
            e2 = dict(entry, kind="req", proto="Q", what="raw", tag="/*none*/", rlabel=entry["rlabel"])
            return self.k_req(e2, ops, drops)
        if s is not None and self.intxn.get(c):
            drops.append(s)      # returned unclean (open transaction): has_broken closes it
        self.after_exit(c)

    def k_waiting_gone(self, entry, ops, drops):
        c, cid = entry["c"], self.cid(entry["c"])
        a = self.cand(c)
        if self.phase.get(c) != "handle" or not self.inchk.get(c):
            return
        ops += ["CandidateFail %d %d false" % (cid, a["id"]), "CheckoutGiveUp %d" % cid, "ExitErr %d false" % cid]
        self.inchk[c] = False
        if a["replica"]:
            self.banned.add(a["id"])
        self.after_exit(c)

    def k_backend(self, entry, ops, drops):
        self.bmode[entry["b"]] = entry["mode"]
        if entry["mode"] in ("down", "refuse"):
            for s, y in self.srv.items():
                if self.sidinfo[s][0] == entry["b"]:
                    y["balive"] = False

    def k_shutdown(self, entry, ops, drops):
        self.shutdown = True
        for c in list(self.phase):
            self.maybe_shutdown_exit(c, ops)

    # ---- special histories
    def k_wsi(self, entry, ops, drops):
        ph = entry["phase"]
        c3 = self.cid("c3")
        if ph == 1:
            # c1 and c2 each hold one of the two connections (found in the backend logs)
            for c in ("c1", "c2"):
                t = "/*c18:%s:1*/" % self.h.cl[c]["app"]
                s = self.find_server(t)
                cid = self.cid(c)
                ops += ["CheckoutStart %d" % cid, "CandidateTry %d" % cid]
                other = 1 - self.srv[s]["addr"]
                # a client that tried the busy candidate first paid one connect_timeout there
                if c == "c2" and self.variant[0]:
                    ops += ["CandidateFail %d %d false" % (cid, other), "CandidateTry %d" % cid]
                ops += ["CheckoutOk %d %d" % (cid, s), "QueryDone %d %d" % (cid, s)]
                self.held[c] = s
                self.srv[s]["holder"] = c
                self.ledger[c][0] += 1
            ops += ["CheckoutStart %d" % c3, "CandidateTry %d" % c3]
            self.inchk["c3"] = self.initer["c3"] = True
        elif ph == 2:
            # the first candidate failed; the client is blocked on the second one (and must be shown waiting)
            ops += ["CandidateFail %d %d false" % (c3, self.variant[1]), "CandidateTry %d" % c3]
        else:
            self.inchk["c3"] = self.initer["c3"] = False
            ops += ["CandidateFail %d %d false" % (c3, 1 - self.variant[1]), "CheckoutGiveUp %d" % c3]

    def k_tested(self, entry, ops, drops):
        c1 = self.cid("c1")
        s = [s for s, y in self.srv.items() if y["live"]][0]
        if entry["phase"] == 1:
            ops += ["CheckoutStart %d" % c1, "CandidateTry %d" % c1, "TestServer %d" % s]
            self.inchk["c1"] = self.initer["c1"] = True
        else:
            self.inchk["c1"] = self.initer["c1"] = False
            ops += ["CandidateFail %d 0 true" % c1, "CheckoutGiveUp %d" % c1]
            drops.append(s)


def render_ops(ops):
    return "[" + "; ".join(re.sub(r"\b(\d{4,})\b", r"(N.to_nat \1)", o) for o in ops) + "]"


def coq_expr(h, segs):
    cf = "[" + "; ".join("(%d, %s)" % (a["pool"], "true" if a["replica"] else "false") for a in h.w["addrs"]) + "]"
    allops = [o for s in segs for o in s]
    return ("let cf := %s in let segs := [%s] in let ops := concat segs in (map obsN (run_samples cf %d init segs), first_disabled cf init ops 0)"
            % (cf, "; ".join(render_ops(s) for s in segs), len(h.w["pools"])))


# =========================================================================================== observations

def admin_rows(res, label):
    """{SHOW what: list of dict(column -> text)} for one sample"""
    out = {}
    for sh in SHOWS:
        e = next((e for e in res["events"] if e.get("ev") == "recv" and e.get("label") == "%s:%s" % (label, sh)), None)
        if e is None or e.get("outcome") != "ok":
            out[sh] = None
            continue
        names, rows = [], []
        for f in e["frames"]:
            if f["t"] == "T":
                names = f["names"]
            elif f["t"] == "D":
                rows.append(dict(zip(names, f["cols"])))
        out[sh] = rows
    return out


def canon_model(h, obs):
    """model observation -> comparable structure"""
    cl, sv, pools, lists, stats = obs
    app = {x["id"]: x["app"] for x in h.cl.values()}
    pname = {0: "pgcat"}
    pname.update({p["id"]: p["db"] for p in h.w["pools"]})
    aname = {a["id"]: a["name"] for a in h.w["addrs"]}
    return {
        "clients": sorted((app[r[0]], pname[r[1]], CSTATE[r[2]], r[3], r[4], r[5]) for r in cl),
        "servers": sorted((aname[r[1]], SSTATE[r[2]], app[r[3] - 1] if r[3] else None, r[4], r[5], r[6], r[7]) for r in sv),
        "pools": {pname[r[0]]: tuple(r[1:]) for r in pools},
        "lists": tuple(lists),
        "stats": {aname[r[0]]: tuple(r[1:6]) for r in stats},
        "avgs": {aname[r[0]]: tuple(r[6:11]) for r in stats},     # avg_xact_count, avg_query_count, avg_sent, avg_recv, avg_errors
    }


def canon_impl(h, snap, adm):
    """implementation: the registries via the public API (snapshot) and via the admin console"""
    out = {"snap": {}, "adm": {}, "problems": []}
    out["snap"]["clients"] = sorted((c["app"], c["pool"], c["state"], c["xact"], c["query"], c["errors"]) for c in snap["clients"])
    out["snap"]["servers"] = sorted((s["addr"], s["state"], s["xact"], s["query"], s["sent"], s["recv"]) for s in snap["servers"])
    if len({c["id"] for c in snap["clients"]}) != len(snap["clients"]) or len({s["id"] for s in snap["servers"]}) != len(snap["servers"]):
        out["problems"].append("duplicate id in a registry")
    if any(v is None for v in adm.values()):
        out["problems"].append("admin console did not answer: %s" % [k for k, v in adm.items() if v is None])
        return out
    I = int
    out["adm"]["clients"] = sorted((r["application_name"], r["database"], r["state"], I(r["transaction_count"]), I(r["query_count"]), I(r["error_count"])) for r in adm["CLIENTS"])
    out["adm"]["servers"] = sorted((r["address_id"], r["state"], r["application_name"] if r["state"] == "active" else None, I(r["transaction_count"]),
                                    I(r["query_count"]), I(r["bytes_sent"]), I(r["bytes_received"])) for r in adm["SERVERS"])
    if len({r["client_id"] for r in adm["CLIENTS"]}) != len(adm["CLIENTS"]) or len({r["server_id"] for r in adm["SERVERS"]}) != len(adm["SERVERS"]):
        out["problems"].append("duplicate id in SHOW CLIENTS / SHOW SERVERS")
    out["adm"]["pools"] = {r["database"]: (I(r["cl_idle"]), I(r["cl_active"]), I(r["cl_waiting"]), I(r["sv_active"]), I(r["sv_idle"]), I(r["sv_tested"]), I(r["sv_login"]))
                           for r in adm["POOLS"]}
    if len(adm["POOLS"]) != len(out["adm"]["pools"]):
        out["problems"].append("a pool is listed twice in SHOW POOLS")
    lists = {r["list"]: I(r["items"]) for r in adm["LISTS"]}
    out["adm"]["lists"] = (lists.get("free_clients"), lists.get("used_clients"), lists.get("free_servers"), lists.get("used_servers"))
    out["adm"]["stats"] = {r["instance"]: (I(r["total_xact_count"]), I(r["total_query_count"]), I(r["total_sent"]), I(r["total_received"]), I(r["total_errors"])) for r in adm["STATS"]}
    out["adm"]["avgs"] = {r["instance"]: (I(r["avg_xact_count"]), I(r["avg_query_count"]), I(r["avg_sent"]), I(r["avg_recv"]), I(r["avg_errors"])) for r in adm["STATS"]}
    out["adm"]["stats_all"] = {r["instance"]: {k: I(v) for k, v in r.items() if k.startswith("total_")} for r in adm["STATS"]}
    out["adm"]["client_rows"] = {r["client_id"]: (I(r["transaction_count"]), I(r["query_count"]), I(r["error_count"])) for r in adm["CLIENTS"]}
    out["adm"]["server_rows"] = {r["server_id"]: (I(r["transaction_count"]), I(r["query_count"]), I(r["bytes_sent"]), I(r["bytes_received"])) for r in adm["SERVERS"]}
    return out


def diff_sample(h, m, im, fault):
    """list of disagreements between the model observation and the implementation at one sample"""
    d = list(im["problems"])
    if not im["adm"]:
        return d
    def nobytes_srv(rows, has_app):
        return sorted((r[:-2] + (None, None)) for r in rows) if fault else sorted(rows)
    def nobytes_stats(st):
        return {k: (v[0], v[1], None, None, v[4]) if fault else v for k, v in st.items()}
    if m["clients"] != im["snap"]["clients"]:
        d.append("client registry (public API): model %s impl %s" % (m["clients"], im["snap"]["clients"]))
    if m["clients"] != im["adm"]["clients"]:
        d.append("SHOW CLIENTS: model %s impl %s" % (m["clients"], im["adm"]["clients"]))
    ms = [(r[0], r[1]) + r[3:] for r in m["servers"]]
    if nobytes_srv(ms, False) != nobytes_srv(im["snap"]["servers"], False):
        d.append("server registry (public API): model %s impl %s" % (sorted(ms), im["snap"]["servers"]))
    if nobytes_srv(m["servers"], True) != nobytes_srv(im["adm"]["servers"], True):
        d.append("SHOW SERVERS: model %s impl %s" % (m["servers"], im["adm"]["servers"]))
    if m["pools"] != im["adm"]["pools"]:
        d.append("SHOW POOLS (cl_idle, cl_active, cl_waiting, sv_active, sv_idle, sv_tested, sv_login): model %s impl %s" % (m["pools"], im["adm"]["pools"]))
    if m["lists"] != im["adm"]["lists"]:
        d.append("SHOW LISTS (free_clients, used_clients, free_servers, used_servers): model %s impl %s" % (m["lists"], im["adm"]["lists"]))
    if nobytes_stats(m["stats"]) != nobytes_stats(im["adm"]["stats"]):
        d.append("SHOW STATS (xact, query, sent, received, errors): model %s impl %s" % (m["stats"], im["adm"]["stats"]))
    def nobytes_avg(st):
        return {k: (v[0], v[1], None, None, v[4]) if fault else v for k, v in st.items()}
    if nobytes_avg(m["avgs"]) != nobytes_avg(im["adm"]["avgs"]):
        d.append("SHOW STATS averages of the last period (avg_xact_count, avg_query_count, avg_sent, avg_recv, avg_errors): model %s impl %s" % (m["avgs"], im["adm"]["avgs"]))
    if fault:
        for k, v in m["stats"].items():
            iv = im["adm"]["stats"].get(k)
            if iv and (iv[2] < v[2] or iv[3] > v[3]):
                d.append("bytes of %s: the backend received %d and sent %d, the pooler counted sent %d received %d" % (k, v[2], v[3], iv[2], iv[3]))
    return d


def backend_ledger(h, res, upto, last_snap):
    """per address: (client request cycles, completed transactions) the backend itself saw up to seq `upto`"""
    out = {}
    for a in h.w["addrs"]:
        b = a["backend"]
        mine = {e["conn"] for e in res["events"] if e.get("who") == b and e.get("ev") == "open" and str(e.get("params", {}).get("user", "")).startswith("c18u")}
        evs = [e for e in res["events"] if e.get("who") == b and e.get("ev") in ("msg", "close") and e.get("conn") in mine]
        cycles = done = 0
        outs = [e for e in res["events"] if e.get("who") == b and e.get("ev") == "out" and e.get("conn") in mine]
        for i, e in enumerate(evs):
            if e["ev"] != "msg" or e["seq"] > upto:
                continue
            sql = e.get("detail", {}).get("sql") or ""
            if not ((e["tag"] == "Q" and "/*c18:" in sql) or e["tag"] == "S"):
                continue
            if not any(o["seq"] > e["seq"] and o["seq"] <= upto for o in outs if o["conn"] == e["conn"]):
                continue      # still running on the backend (no reply written yet): not a completed cycle
            cycles += 1
            nxt = next((x for x in evs[i + 1:] if x["conn"] == e["conn"] and "state" in x), None)
            if nxt is not None:
                after = nxt["state"]["txn"]
            else:
                opn = {o["conn"]: o["s"] for o in last_snap["backends"].get(b, {}).get("open", [])}
                after = opn.get(e["conn"], {}).get("state", {}).get("txn")
            if after == "I":
                done += 1
        out[a["name"]] = (cycles, done)
    return out


# =========================================================================================== one history

WSI_VARIANTS = [(False, 0), (False, 1), (True, 0), (True, 1)]
SELFTEST_QUERY_PER_BUFFER = False    # self-test only: derive one QueryDone per 8196-byte relay buffer of the reply


def derive_history(h, res, variant=(False, 0)):
    """-> (Derive, segments, per-sample harness ground truth) or (None, reason, None)"""
    if "events" not in res:
        return None, "harness: %s" % (res.get("harness_error") or res.get("start_error") or "no events"), None
    d = Derive(h, res, variant)
    segs, truth, lo = [], [], 0
    for entry in h.plan:
        snap = d.snaps.get(entry["label"])
        if snap is None:
            return None, "snapshot %s missing" % entry["label"], None
        hi = snap["seq"]
        segs.append(d.segment(entry, lo - 1, hi - 1))
        lo = hi
        connected = {}
        for c, ph in d.phase.items():
            if ph == "handle":
                pid = h.cl[c]["pool"]
                connected[pid] = connected.get(pid, 0) + 1
        truth.append({"connected": connected, "ledger": {h.cl[c]["app"]: tuple(v) for c, v in d.ledger.items() if d.phase.get(c) == "handle"},
                      "synth": dict(d.synth), "seq": hi, "holders": sorted(h.cl[c]["app"] for c in d.held),
                      "waiting": sorted(h.cl[c]["app"] for c, v in d.initer.items() if v and d.phase.get(c) == "handle")})
    return d, segs, truth


def judge_history(h, res, d, segs, truth, mval):
    """Compare one history.  -> dict(diffs=[(sample, text)], monitors=[(sample, kind, text)], n, panics, obs)"""
    out = {"diffs": [], "monitors": [], "n": 0, "obs": []}
    samples, disabled = mval
    if disabled is not None:
        allops = [o for s in segs for o in s]
        out["diffs"].append((-1, "op #%d (%s) of the derived history is not executable in the model" % (disabled[1], allops[disabled[1]])))
    pname = {p["id"]: p["db"] for p in h.w["pools"]}
    prev = None
    last_snap = res["snapshots"][-1]
    npanic = 0
    for i, entry in enumerate(h.plan):
        snap = next(s for s in res["snapshots"] if s["label"] == entry["label"])
        adm = admin_rows(res, entry["label"])
        m = canon_model(h, samples[i])
        im = canon_impl(h, snap, adm)
        out["n"] += 1
        out["obs"].append((entry["kind"], entry.get("what") or entry.get("how") or entry.get("which") or "", json.dumps(m, sort_keys=True, default=str)))
        for t in diff_sample(h, m, im, h.fault):
            out["diffs"].append((i, t))
        if entry["kind"] == "panic" and "ExitPanic" in " ".join(segs[i]):
            npanic += 1
        if not im["adm"]:
            continue
        tr = truth[i]
        # (M1) idle + active + waiting = number of clients the harness knows to be connected to the pool
        for pid, db in pname.items():
            row = im["adm"]["pools"].get(db)
            if row is None:
                out["monitors"].append((i, "pool-missing", "pool %s is not listed by SHOW POOLS" % db))
                continue
            tot = row[0] + row[1] + row[2]
            want = tr["connected"].get(pid, 0)
            if tot != want:
                out["monitors"].append((i, "pool-sum" if tot < want else "pool-sum-over", "pool %s: cl_idle+cl_active+cl_waiting = %d but %d clients are connected" % (db, tot, want)))
            if row[1] != row[3]:
                out["monitors"].append((i, "active-mismatch", "pool %s: cl_active %d but sv_active %d" % (db, row[1], row[3])))
        # number of rows of SHOW CLIENTS = connected clients (admin included)
        if len(im["adm"]["clients"]) != sum(tr["connected"].values()):
            out["monitors"].append((i, "client-rows" if len(im["adm"]["clients"]) < sum(tr["connected"].values()) else "client-rows-over", "SHOW CLIENTS lists %d clients, %d are connected" % (len(im["adm"]["clients"]), sum(tr["connected"].values()))))
        # active <=> holds a server (harness: a client whose last ReadyForQuery said T/E, or a session-mode client that was served)
        act = sorted(r[0] for r in im["adm"]["clients"] if r[2] == "active")
        if act != tr["holders"]:
            out["monitors"].append((i, "true-state", "clients shown active %s, clients holding a server %s" % (act, tr["holders"])))
        # waiting <=> blocked on a candidate server inside pool.get (harness: asked, no answer yet, socket may be closed)
        wt = sorted(r[0] for r in im["adm"]["clients"] if r[2] == "waiting")
        if wt != tr["waiting"]:
            out["monitors"].append((i, "waiting-state", "clients shown waiting %s, clients blocked in pool.get %s" % (wt, tr["waiting"])))
        # (b) the clients' own ledger
        rows = {r[0]: r for r in im["adm"]["clients"]}
        for app, (q, x) in tr["ledger"].items():
            r = rows.get(app)
            if r is not None and (r[4], r[3]) != (q, x):
                out["monitors"].append((i, "client-ledger", "client %s was answered %d request cycles and finished %d transactions; SHOW CLIENTS says query_count %d transaction_count %d" % (app, q, x, r[4], r[3])))
        # (c) the backends' own logs
        bl = backend_ledger(h, res, tr["seq"] - 1, last_snap)
        aid = {a["name"]: a["id"] for a in h.w["addrs"]}
        for name, (cycles, done) in bl.items():
            st = im["adm"]["stats"].get(name)
            if st is None:
                out["monitors"].append((i, "stats-missing", "address %s is not listed by SHOW STATS" % name))
                continue
            if not h.fault and (st[1], st[0]) != (cycles, done + tr["synth"][aid[name]]):
                out["monitors"].append((i, "backend-ledger", "backend of %s executed %d client request cycles and completed %d transactions (+%d Sync-only batches answered by the pooler); SHOW STATS says total_query_count %d total_xact_count %d" % (name, cycles, done, tr["synth"][aid[name]], st[1], st[0])))
        # monotone totals and rows
        if prev is not None:
            for name, cols in im["adm"]["stats_all"].items():
                for k, v in cols.items():
                    if v < prev["stats_all"].get(name, {}).get(k, 0):
                        out["monitors"].append((i, "decrease", "SHOW STATS %s.%s went from %d to %d" % (name, k, prev["stats_all"][name][k], v)))
            for key in ("client_rows", "server_rows"):
                for rid, vals in im["adm"][key].items():
                    pv = prev[key].get(rid)
                    if pv and any(a < b for a, b in zip(vals, pv)):
                        out["monitors"].append((i, "decrease", "row %s of %s went from %s to %s" % (rid, key, pv, vals)))
        prev = im["adm"]
    # everything gone?  (no connected client at the end: nothing may be left but idle servers)
    if h.plan:
        tr = truth[-1]
        im_last = canon_impl(h, res["snapshots"][-1], admin_rows(res, h.plan[-1]["label"]))
        if im_last["adm"] and set(tr["connected"]) <= {0}:
            for db, row in im_last["adm"]["pools"].items():
                if row[0] or row[1] or row[2] or row[3]:
                    out["monitors"].append((len(h.plan) - 1, "not-zero", "every client has gone but SHOW POOLS %s says %s" % (db, row)))
    out["npanic"] = npanic
    return out


def parse_model(v):
    samples, disabled = vlib.parse_coq(v)
    return samples, disabled


# =========================================================================================== driver

def real_period_history(rng):
    """thorough tier: the Collector that was started with the pooler ends its first real period 15 s after the start"""
    w = make_world("replica", rng, limit=None, hc_always=False, size=1)
    h = Hist(w, "period-end-real-15s")
    h.connect("c1", 1)
    h.set_role("c1", "replica")
    h.connect("c2", 1)
    h.set_role("c2", "replica")
    h.request("c1", "buffers")
    h.request("c1", "begin")
    h.request("c2", "select")               # exhausted: errors on the replica
    h.steps.append({"op": "sleep", "ms": 15300})
    h.sample({"kind": "period_end"})
    h.request("c1", "commit")
    return h


def build_histories(run, quick):
    rng = run.rng
    hs = directed_histories(rng) + special_histories(rng)
    if not quick:
        hs.append(real_period_history(rng))
    nrand = 150 if quick else 2500
    for i in range(nrand):
        hs.append(random_history(rng, i, rng.randint(8, 14) if quick else rng.randint(8, 22)))
    return hs


def run_histories(wire, hs):
    return W.run_scenarios(wire, [h.scenario() for h in hs], workers=16, timeout=120)


def evaluate(run, hs, results):
    """derive ops, evaluate the model in coqc, judge every history.  -> list of per-history verdict dicts"""
    derived, exprs, owner = [], [], []
    for hi, (h, res) in enumerate(zip(hs, results)):
        variants = WSI_VARIANTS if h.name == "waiting-shown-idle" else [(False, 0)]
        lst = []
        for v in variants:
            d, segs, truth = derive_history(h, res, v)
            lst.append((d, segs, truth, v))
            if d is not None:
                exprs.append(coq_expr(h, segs))
                owner.append((hi, len(lst) - 1))
        derived.append(lst)
    vals = vlib.coq_eval("c18_eval", PREAMBLE, exprs, shard=max(1, (len(exprs) + 15) // 16)) if exprs else []
    mvals = {}
    for (hi, vi), v in zip(owner, vals):
        mvals[(hi, vi)] = parse_model(v)
    verdicts = []
    for hi, (h, res) in enumerate(zip(hs, results)):
        best = None
        for vi, (d, segs, truth, v) in enumerate(derived[hi]):
            if d is None:
                best = {"harness": segs, "diffs": [], "monitors": [], "n": 0, "obs": [], "npanic": 0, "segs": [], "notes": []}
                break
            j = judge_history(h, res, d, segs, truth, mvals[(hi, vi)])
            j["segs"], j["variant"], j["notes"], j["outcomes"] = segs, v, d.notes, d.outcomes
            if best is None or len(j["diffs"]) < len(best["diffs"]):
                best = j
            if not j["diffs"]:
                break
        verdicts.append(best)
    return verdicts


def replay_dict(h, res, verdict, sample):
    lab = h.plan[sample]["label"] if 0 <= sample < len(h.plan) else None
    return {"history": h.name, "world": {k: h.w[k] for k in ("kind", "hc_always", "limit", "parser", "mode")}, "scenario": h.scenario(),
            "plan": h.plan, "ops": verdict.get("segs"), "sample": lab,
            "impl_snapshot": next((s for s in res.get("snapshots", []) if s.get("label") == lab), None),
            "impl_admin": admin_rows(res, lab) if lab and "events" in res else None}


def check(run):
    quick = run.tier == "quick"
    run.assumptions += [
        "Coq 8.16.1 kernel + vm_compute; no axioms (Print Assumptions: closed under the global context for all 15 theorems)",
        "the model transcribes the statistics call sites of src/client.rs, src/pool.rs, src/server.rs, src/stats*.rs at message granularity (validated on every run: model vs registries vs admin console at every quiescent point of every history)",
        "client / server ids (random i32) do not collide (2^-32 per pair): a collision makes client_register ignore the second client",
        "atomics with Ordering::Relaxed and the RwLock-protected registries behave sequentially consistently at op granularity",
        "tokio isolates a panicking task and drops its future (Drop for Client / Server run during unwinding)",
        "timing columns (maxwait, *_time, age) are only checked for monotonicity; of the averages the count-valued ones (avg_xact_count, avg_query_count, avg_sent, avg_recv, avg_errors) are compared with the model, avg_*_time are not checked",
        "bytes: exact equality only in histories without backend faults (sent = bytes the mock backend received, received = bytes it wrote); bounds otherwise",
    ]
    run.cov["trusted_base"] = ["coqc 8.16.1 kernel", "vm_compute", "harness/src/{bin/wire.rs,mockpg.rs,client.rs,pooler.rs}", "props/c18.py (history generator, op derivation, canonicalisers, ledgers)",
                               "Print Assumptions: Closed under the global context (all theorems)"]
    proof_ok, log = vlib.prove(run, COQ_FILES, "Stats/Props.v")
    run.log("proof ok=%s" % proof_ok)
    ok, blog, bins = vlib.cargo_build(["wire"])
    if not ok:
        run.violation("tie-broken", "harness does not build against /repo (API used by the correspondence changed)",
                      {"correspondence": "wire harness build", "log": blog[-3000:]}, found_input=False)
        return
    wire = bins["wire"]
    hs = build_histories(run, quick)
    t0 = time.time()
    results = run_histories(wire, hs)
    run.log("%d histories run in %.1fs" % (len(hs), time.time() - t0))
    # a history whose process failed (harness timeout) is re-run once before it counts
    for i, r in enumerate(results):
        if "events" not in r:
            results[i] = W.run_scenario(wire, hs[i].scenario(), timeout=120)
    if not proof_ok and not run.broken:
        # the model no longer proves: still confront the implementation with the property's monitors below
        pass
    t0 = time.time()
    verdicts = evaluate(run, hs, results)
    run.log("model evaluated and compared in %.1fs" % (time.time() - t0))
    # A monitor hit or a model/implementation disagreement counts only if it shows again on two immediate re-runs of the
    # same history (a defect is deterministic; a sample taken on an overloaded machine before a scripted step's effect
    # arrived is not).  What does not reproduce is counted and logged, not reported.
    suspects = [i for i, v in enumerate(verdicts) if "harness" not in v and (v["diffs"] or v["monitors"])]
    unrepro = []
    if suspects:
        sub = [hs[i] for i in suspects]
        confirmed = {i: 0 for i in suspects}
        for attempt in range(2):
            rr = W.run_scenarios(wire, [h.scenario() for h in sub], workers=4, timeout=120)
            vv = evaluate(run, sub, rr)
            for i, r, v in zip(suspects, rr, vv):
                if "harness" not in v and (v["diffs"] or v["monitors"]):
                    confirmed[i] += 1
                    results[i], verdicts[i] = r, v      # report the latest reproduction
        for i in suspects:
            if confirmed[i] < 2:
                v = verdicts[i]
                first = (v["monitors"][0][2] if v["monitors"] else v["diffs"][0][1] if v["diffs"] else "(gone)")
                unrepro.append({"history": hs[i].name, "reproduced": "%d of 2 re-runs" % confirmed[i], "first": str(first)[:300]})
                run.log("not reproduced (%d of 2 re-runs), not reported: %s: %s" % (confirmed[i], hs[i].name, str(first)[:200]))
                verdicts[i] = dict(v, diffs=[], monitors=[])
    run.cov["unreproduced"] = len(unrepro)
    run.cov["unreproduced_detail"] = unrepro[:10]
    report(run, hs, results, verdicts, proof_ok, log)
    if not quick and proof_ok:
        vlib.coqchk(run, ["PV.Stats.Props"])


def report(run, hs, results, verdicts, proof_ok, log):
    evals = 0
    distinct = set()
    kinds = {}
    harness_fail = 0
    outcome_hist = {}
    samples = []
    notes = 0
    for h, res, v in zip(hs, results, verdicts):
        if "harness" in v:
            harness_fail += 1
            if harness_fail <= 3:
                run.broken.append("history %s did not run: %s" % (h.name, v["harness"]))
            continue
        evals += v["n"]
        notes += len(v["notes"])
        for o in v["obs"]:
            distinct.add((h.w["kind"],) + o)
        for o in v.get("outcomes", []):
            outcome_hist[str(o)] = outcome_hist.get(str(o), 0) + 1
        kinds[h.w["kind"]] = kinds.get(h.w["kind"], 0) + 1
        run.cov["traces_validated_against_impl"] += 1
        # the property's own predicates first (a direct counterexample), then the model
        if v["monitors"]:
            i, kind, text = v["monitors"][0]
            cls = None
            if kind in ("pool-sum-over", "client-rows-over", "not-zero") and v["npanic"]:
                e = h.plan[max([j for j in range(min(i, len(h.plan) - 1) + 1) if h.plan[j]["kind"] == "panic"] or [0])]
                cls = "%s (recurrence of the repaired defect: a panicking client task keeps its row; bytes %s)" % (F_PANIC, e.get("hex"))
            elif kind == "waiting-state":
                cls = "%s (recurrence of the repaired defect if a client retrying its next candidate is shown idle)" % F_WAIT
            run.violation("counterexample", "history %s, sample %d (%s): %s%s" % (h.name, i, kind, text, (" [" + cls + "]") if cls else ""),
                          dict(replay_dict(h, res, v, i), monitor=kind, all_monitors=[list(m) for m in v["monitors"]][:10], **({"class": cls} if cls else {})))
            continue
        if v["diffs"]:
            i, text = v["diffs"][0]
            run.cov["disagreements_checked"] += 1
            run.violation("tie-broken", "history %s, sample %d: model and implementation disagree: %s" % (h.name, i, text[:700]),
                          dict(replay_dict(h, res, v, i), correspondence="Stats/Model.v run_samples vs pooler::snapshot + admin console", all_diffs=[t for _, t in v["diffs"]][:10]),
                          found_input=True)
            continue
        if len(samples) < 6 and h.name in ("panic-q-empty-single-idle", "all-leave-two", "waiting-shown-idle", "rnd0-" + h.w["kind"], "rnd1-" + h.w["kind"], "shutdown"):
            samples.append({"history": h.name, "world": h.w["kind"], "ops": v["segs"], "last_model_obs": v["obs"][-1][2][:600] if v["obs"] else None})
    npanic_hist = sum(1 for v in verdicts if v.get("npanic"))
    run.cov["evaluations"] = evals
    run.cov["distinct_nontrivial"] = len(distinct)
    run.cov["rule"] = ("one evaluation = one quiescent sample (registries via public API + 5 admin SHOW commands) compared with the model; histories: %d directed "
                       "(every confirmed panic input at idle / in transaction / admin, every way of leaving, failure limit, lone Sync, shutdown, health-check failure and server death on primary and replica, "
                       "waiting while retrying the next candidate, tested and login states, CancelRequest connections (valid key of an idle / holding / running client, wrong key, unknown pid, a client that has gone), replies of 1 row / 50 rows / one 9 kB row / 33 kB (several 8196-byte relay buffers) / COPY OUT / two Executes per Sync, sharded pool: shard by comment / SET SHARD / sharding key / default_shard, unknown shard refused before the candidate loop) + seeded random over 5 world shapes (single, two pools, primary+replica, session mode, sharded 2-3 shards; pool_size 1-2, health check always/never, checkout_failure_limit); "
                       "distinct = distinct (world kind, action, detail, canonical model observation)" % (len(hs) - sum(1 for h in hs if h.name.startswith("rnd"))))
    run.cov["samples"] = samples[:6]
    run.cov["input_distribution"] = {"histories": len(hs), "by_world": kinds, "histories_with_panic": npanic_hist, "outcomes": dict(sorted(outcome_hist.items(), key=lambda kv: -kv[1])[:40]),
                                     "derivation_notes": notes, "harness_failures": harness_fail}
    if not proof_ok and not run.violations and not run.broken:
        run.violation("proof-broken", "Stats/Props.v no longer checks; the implementation still agrees with the monitors on every history run", {"theorem": "Stats/Props.v", "coq_log": log[-2500:]}, found_input=False)


def replay(run, path):
    r = json.load(open(path))
    print(json.dumps({k: r[k] for k in r if k not in ("scenario", "impl_snapshot", "impl_admin")}, indent=1)[:4000])
    if "scenario" not in r:
        return 0
    ok, blog, bins = vlib.cargo_build(["wire"])
    res = W.run_scenario(bins["wire"], r["scenario"], timeout=120)
    lab = r.get("sample")
    snap = next((s for s in res.get("snapshots", []) if s.get("label") == lab), None)
    print("replay: task_results", res.get("task_results"))
    if snap:
        print("replay: registries at %s: clients %s servers %s" % (lab, json.dumps(snap["clients"]), json.dumps(snap["servers"])))
        print("replay: admin console at %s: %s" % (lab, json.dumps(admin_rows(res, lab))[:3000]))
    return 1 if snap else 0
