"""C04 — server connections are bounded by pool_size, never leaked; waiters are served.

P : coq/PoolCap/{Model,Proofs,Props}.v — bb8 0.8.6 + tokio Notify environment model and the client
    tasks at hold/release granularity; theorems for every op sequence (induction).
T2: the wire harness (pgcat in-process, mock PostgreSQL, scripted clients).  A python mirror of the
    Coq model PLANS each scenario (which client action is possible next, which environment steps
    follow); the Coq model itself is then evaluated with vm_compute on the very same op sequence
    (vlib.coq_eval) and its per-step views are compared (a) with the mirror (the planner is not
    trusted) and (b) with what pgcat did: bb8's connections/idle counters, the mock backend's open
    sessions and their transaction state, which backend connection served which tagged statement,
    which clients are waiting, how many tasks ended, every reply class.
    Monitors (no model involved): sessions per backend never above pool_size, connections never
    above pool_size, nothing in use when everybody is idle or gone, a final probe of pool_size
    simultaneous transactions.
"""
import json, os, re, time
import vlib
from props import wirelib as W

COQ_FILES = ["PoolCap/Model.v", "PoolCap/Proofs.v", "PoolCap/Props.v"]
PRE = "From PV Require Import PoolCap.Model.\nFrom Coq Require Import List. Import ListNotations.\n"
F14_KEY = "F14-intercept-hold"
F14_TEXT = ("regression of F14 (fixed by a7d476c): an intercepted query sent with the extended protocol (Parse/Bind/Execute/Sync) as the first "
            "message of a transaction takes a server connection and keeps it while the client is idle outside a transaction")
PLUG = """[plugins.intercept]
enabled = true
[plugins.intercept.queries.0]
query = "select 42 as a"
schema = [["a", "text"]]
result = [["fake"]]
"""
def _frame(tag, body):
    return tag + (len(body) + 4).to_bytes(4, "big") + body


# what the server says when IT aborts a COPY FROM STDIN (reported when the client ends the copy): ErrorResponse, ReadyForQuery(I)
COPY_SRVERR_HEX = (_frame(b"E", b"SERROR\0VERROR\0C22P04\0Mmock copy error\0\0") + _frame(b"Z", b"I")).hex()
# first messages after which the transaction is over at once: kind -> expected reply class
RELEASE_KINDS = {"single": "row", "single_err": "sql_error", "copy_out": "copy_out_ok", "copy_out_big": "copy_out_ok",
                 "lone_sync": "sync_only", "close_sync": "close_ok", "parse_sync": "parse_ok", "xbatch": "batch_ok"}
# expected reply classes after which the tagged statement must have reached the backend exactly once / not at all
RAN_ONCE = ("begin_ok", "row", "sql_error", "row_in_txn", "sql_error_in_txn", "aborted_in_txn", "commit_ok", "batch_ok", "batch_ok_in_txn",
            "copy_in_ready", "copy_out_ok")
NEVER_RAN = ("pool_error",)
VALIDATOR = 900   # model client id of ConnectionPool::validate()'s one-off checkout
HOWS = ["XTerminate", "ClientSocketErr", "IdleTimeoutWrite", "DecoderErr", "Panic", "ClientWriteFail",
        "StatementTimeout", "ServerError", "CleanupErr", "PreparedStmtErr"]


def expected_broken(how, ph):
    if how in ("XTerminate", "ClientSocketErr"):
        return False
    if how in ("DecoderErr", "Panic", "PreparedStmtErr"):
        return ph == "InTxn"
    if how in ("StatementTimeout", "ServerError", "CleanupErr"):
        return True
    return None


# ------------------------------------------------------------------ python mirror of Model.v (planner only)
class Mirror:
    def __init__(self, max_size, min_idle=0, fifo=False, session=False):
        self.max, self.min_idle, self.fifo, self.session = max_size, min_idle, fifo, session
        self.num = 0; self.pending = 0; self.idleq = []; self.waiters = []; self.woken = []
        self.permit = False; self.cl = {}; self.held = []; self.dead = []; self.next = 0

    def st(self, c):
        return self.cl.get(c, ("NoServer",))

    def approvals(self, n):
        return min(n, max(0, self.max - (self.num + self.pending)))

    def replenish(self):
        self.pending += self.approvals(max(0, self.min_idle - (len(self.idleq) + self.pending)))

    def notify_one(self):
        if self.waiters:
            self.woken.append(self.waiters.pop(0))
        else:
            self.permit = True

    def put_idle(self, s):
        if self.fifo:
            self.idleq.append(s)
        else:
            self.idleq.insert(0, s)
        self.notify_one()

    def put_back(self, s, broken):
        if broken:
            self.num = max(0, self.num - 1)
            if s in self.dead:
                self.dead.remove(s)
            self.replenish()
            self.notify_one()
        else:
            self.put_idle(s)

    def try_get(self, c, infl):
        if self.idleq:
            s = self.idleq.pop(0)
            self.held.insert(0, (s, c))
            self.cl[c] = ("Holding", s, "Fresh")
            self.replenish()
        else:
            appr = 1 if self.pending < infl else 0
            self.pending += self.approvals(appr)
            if self.permit:
                self.permit = False
                self.woken.append(c)
            else:
                self.waiters.append(c)
            self.cl[c] = ("Waiting",)

    def release(self, c, s, broken, nxt):
        for i, (s2, d) in enumerate(self.held):
            if d == c:
                del self.held[i]
                break
        self.cl[c] = (nxt,)
        self.put_back(s, broken)

    def enabled(self, op):
        k = op[0]
        if k in ("Checkout", "Disconnect"):
            return self.st(op[1])[0] == "NoServer"
        if k == "Retry":
            return op[1] in self.woken
        if k in ("ConnEstablished", "ConnectFailed"):
            return self.pending > 0
        if k == "WaitTimeout":
            return op[1] in self.waiters
        if k in ("Exchange", "TxnEndRelease", "ExitHolding"):
            return self.st(op[1])[0] == "Holding"
        if k == "SessionModeKeep":
            return self.st(op[1])[0] == "Holding" and self.session
        if k == "InterceptHold":
            return False   # mutant op (code before a7d476c): never enabled in the model of the code that exists
        if k == "ConnDied":
            return (op[1] in self.idleq or op[1] in [s for s, _ in self.held]) and op[1] not in self.dead
        if k == "Reap":
            return op[1] in self.idleq
        return False

    def step(self, op):
        if not self.enabled(op):
            return False
        k = op[0]
        if k == "Checkout":
            self.try_get(op[1], len(self.waiters) + len(self.woken) + 1)
        elif k == "Retry":
            self.woken.remove(op[1])
            self.try_get(op[1], len(self.waiters) + len(self.woken) + 1)
        elif k == "ConnEstablished":
            s = self.next
            self.pending -= 1; self.num += 1; self.next += 1
            self.put_idle(s)
        elif k == "ConnectFailed":
            self.pending -= 1
        elif k == "WaitTimeout":
            self.waiters.remove(op[1])
            self.cl[op[1]] = ("Gone",) if op[2] else ("NoServer",)
        elif k == "Exchange":
            self.cl[op[1]] = ("Holding", self.st(op[1])[1], "InTxn")
        elif k == "TxnEndRelease":
            self.release(op[1], self.st(op[1])[1], op[2], "NoServer")
        elif k in ("SessionModeKeep", "InterceptHold"):
            self.cl[op[1]] = ("Holding", self.st(op[1])[1], "IdleHeld")
        elif k == "ExitHolding":
            self.release(op[1], self.st(op[1])[1], op[3], "Gone")
        elif k == "Disconnect":
            self.cl[op[1]] = ("Gone",)
        elif k == "ConnDied":
            self.dead.insert(0, op[1])
        elif k == "Reap":
            self.idleq.remove(op[1])
            self.num = max(0, self.num - 1)
            if op[1] in self.dead:
                self.dead.remove(op[1])
            self.replenish()
        return True

    def view(self, cs):
        def cv(c):
            s = self.st(c)
            return s[0] if len(s) == 1 else s
        return (self.num, self.pending, list(self.idleq), (list(self.waiters), list(self.woken)), [(c, cv(c)) for c in cs], list(self.dead))


def coq_op(op):
    k = op[0]
    b = lambda x: "true" if x else "false"
    if k in ("ConnEstablished", "ConnectFailed"):
        return k
    if k == "WaitTimeout":
        return "WaitTimeout %d %s" % (op[1], b(op[2]))
    if k == "TxnEndRelease":
        return "TxnEndRelease %d %s" % (op[1], b(op[2]))
    if k == "ExitHolding":
        return "ExitHolding %d %s %s" % (op[1], op[2], b(op[3]))
    return "%s %d" % (k, op[1])


def coq_cfg(cfg):
    return "(mkConfig %d %d %s %s false)" % (cfg["pool_size"], cfg.get("min_idle", 0), "Fifo" if cfg["fifo"] else "Lifo", "true" if cfg["session"] else "false")


def _unhash(x):
    if isinstance(x, tuple):
        if len(x) == 2 and x[0] == "#":
            return x[1]
        return tuple(_unhash(y) for y in x)
    if isinstance(x, list):
        return [_unhash(y) for y in x]
    return x


def norm_view(v):
    """parsed Coq view -> the mirror's shape"""
    num, pend, idle, (wt, wk), cl, dead = _unhash(v)
    return (num, pend, list(idle), (list(wt), list(wk)), [(c, s) for c, s in cl], list(dead))


# ------------------------------------------------------------------ scenario planner
class Plan:
    """Builds, side by side, the wire steps, the model op list and the expectations."""

    def __init__(self, cfg, rng, nclients):
        self.cfg, self.rng = cfg, rng
        self.m = Mirror(cfg["pool_size"], cfg.get("min_idle", 0), cfg["fifo"], cfg["session"])
        self.n = nclients
        self.steps = []      # wire steps
        self.ops = []        # model ops
        self.obs = []        # observation points: dict(idx into ops (number of ops so far), label, expect...)
        self.intent = {}     # waiting client -> first-message intent
        self.task = {}       # client -> name of its spawned (blocked) task
        self.deadsock = set()  # clients whose socket is closed while they wait (abandon)
        self.seq = 0
        self.gone_expected = 0
        self.replies = []    # (client name, label, expectation) in the order the recv events of that client appear
        self.tags = {}       # tag -> client idx
        self.backend_up = True
        self.f14 = []        # observation labels at which a client sits in IdleHeld in transaction mode
        self.actions = []
        self.racy = []       # labels after which an implementation choice may legitimately differ
        self.begin_tag = {}  # client -> tag of the BEGIN of its current transaction
        self.last_tag_at = []  # per observation point: copy of begin_tag
        self.failed = set()  # clients whose transaction is in the failed state
        self.nfail = {}      # client -> checkout failures so far (checkout_failure_limit)
        self.intercepted = set()  # clients that got an intercepted reply since the last observation
        self.dirty = set()   # session-mode holders whose server carries a prepared statement (needs_cleanup: is_unclean)
        self.incopy = {}     # client in COPY FROM STDIN -> "plain" | "srverr" (the server will abort it)
        for c in range(nclients):
            self.steps.append({"op": "connect", "c": self.name(c), "params": {"user": "u", "database": "p", "application_name": self.name(c)}, "password": "pw"})
        # the first client to connect makes pgcat validate the pool (pool.rs validate(): one bb8 get(), server
        # parameters copied, guard dropped): one connection exists and is idle before any transaction
        for o in (("Checkout", VALIDATOR), ("ConnEstablished",), ("Retry", VALIDATOR), ("TxnEndRelease", VALIDATOR, False)):
            self.do(o)

    def name(self, c):
        return "c%d" % c

    def tag(self, c):
        self.seq += 1
        t = "t%d_%d" % (c, self.seq)
        self.tags[t] = c
        return t

    def do(self, op):
        ok = self.m.step(op)
        self.ops.append(op)
        if not ok:
            raise RuntimeError("planner emitted a disabled op %r" % (op,))

    # ---- effects of the first message once the checkout returned
    def granted(self, c):
        it = self.intent.pop(c)
        s = self.m.st(c)[1]
        nm = self.name(c)
        if s in self.m.dead:
            self.do(("ExitHolding", c, "ServerError", True))
            self.gone_expected += 1
            if c not in self.deadsock:
                self.replies.append((nm, it["tag"], "server_error"))
            return
        if c in self.deadsock:
            # socket already closed: the statement still runs; the reply is written into the void
            if it["kind"] == "begin":
                self.do(("Exchange", c))
                self.do(("ExitHolding", c, "ClientSocketErr", False))
            else:
                self.do(("TxnEndRelease", c, False))
                self.do(("Disconnect", c))
            self.gone_expected += 1
            self.racy.append(len(self.obs))
            return
        k = it["kind"]
        if k == "begin":
            self.do(("Exchange", c))
            self.replies.append((nm, it["tag"], "begin_ok"))
            self.begin_tag[c] = it["tag"]
        elif k in RELEASE_KINDS:
            if self.m.session:
                self.do(("SessionModeKeep", c))
            else:
                self.do(("TxnEndRelease", c, False))
            self.replies.append((nm, it["tag"], RELEASE_KINDS[k]))
            if k == "parse_sync" and self.m.session:
                self.dirty.add(c)
        elif k in ("copy_in", "copy_in_srverr"):
            # CopyInResponse: the client now sends CopyData; the server is kept (server.in_copy_mode())
            self.do(("Exchange", c))
            self.replies.append((nm, it["tag"], "copy_in_ready"))
            self.begin_tag[c] = it["tag"]
            self.incopy[c] = "srverr" if k == "copy_in_srverr" else "plain"
        elif k == "srvclose":
            self.do(("ExitHolding", c, "ServerError", True))
            self.gone_expected += 1
            self.replies.append((nm, it["tag"], "server_error"))
        elif k == "hcfail":
            # pool.rs get(): the health check `;` times out: mark_bad, the guard is dropped inside get() (closed, slot freed),
            # no candidate left: the client gets a pool error at once and stays at the outer loop
            self.do(("TxnEndRelease", c, True))
            self.replies.append((nm, it["tag"], "pool_error"))

    def settle(self):
        progress = True
        while progress:
            progress = False
            while self.m.pending > 0 and self.backend_up:
                self.do(("ConnEstablished",)); progress = True
            while self.m.woken:
                c = self.m.woken[0]
                self.do(("Retry", c)); progress = True
                if self.m.st(c)[0] == "Holding":
                    self.granted(c)
                    if c in self.task and c not in self.deadsock:
                        self.steps.append({"op": "join", "task": self.task.pop(c), "timeout_ms": 4000})

    def observe(self, label, extra=None):
        held = len(self.m.held)
        m = self.m
        live = set(m.idleq) | {s for s, _ in m.held}
        open_now = len(live - set(m.dead))
        self.steps += [{"op": "wait_tasks", "n": self.gone_expected, "timeout_ms": 2500},
                       {"op": "wait_inuse", "n": held, "timeout_ms": 2500},
                       {"op": "wait_event", "ev": "ready", "who": "b0", "count": m.next, "timeout_ms": 2500},
                       {"op": "wait_event", "ev": "close", "who": "b0", "count": m.next - open_now, "timeout_ms": 2500},
                       {"op": "wait_waiting", "n": len(m.waiters) + len(m.woken), "timeout_ms": 1500},
                       {"op": "sleep", "ms": 25}, {"op": "snapshot", "label": label}]
        o = {"label": label, "nops": len(self.ops), "gone": self.gone_expected}
        if self.intercepted:
            o["f14"] = sorted(self.intercepted)   # regression point of F14: nothing may be in use on their behalf
            self.intercepted = set()
        if extra:
            o.update(extra)
        self.obs.append(o)
        self.last_tag_at.append(dict(self.begin_tag))

    def arm_slow_healthcheck(self, on=True):
        self.steps.append({"op": "backend", "b": "b0", "slow_exact": {"sql": ";", "ms": 600 if on else 0, "count": 1 if on else 0}})

    def pause(self):
        self.steps += [{"op": "wait_inuse", "n": len(self.m.held), "timeout_ms": 2500}, {"op": "sleep", "ms": 20}]

    # ---- client actions
    def first_message(self, c, kind):
        nm, t = self.name(c), self.tag(c)
        if kind == "begin":
            msgs = [{"t": "Q", "sql": "BEGIN /*%s*/" % t}]
        elif kind == "single":
            msgs = [{"t": "Q", "sql": "SELECT 1 /*%s*/" % t}]
        elif kind == "single_err":
            msgs = [{"t": "Q", "sql": "SELECT 1 /*mock: error*/ /*%s*/" % t}]
        elif kind == "srvclose":
            msgs = [{"t": "Q", "sql": "SELECT 1 /*mock: close*/ /*%s*/" % t}]
        elif kind == "hcfail":
            msgs = [{"t": "Q", "sql": "SELECT 1 /*%s*/" % t}]
        elif kind == "intercept":
            msgs = [{"t": "P", "name": "", "sql": "select 42 as a"}, {"t": "B", "portal": "", "name": ""}, {"t": "E", "portal": "", "max": 0}, {"t": "S"}]
        elif kind == "copy_out":
            msgs = [{"t": "Q", "sql": "COPY data TO STDOUT /*mock: rows=3*/ /*%s*/" % t}]
        elif kind == "copy_out_big":
            msgs = [{"t": "Q", "sql": "COPY data TO STDOUT /*mock: rows=40, size=500*/ /*%s*/" % t}]   # > 8196 bytes: several recv() rounds
        elif kind == "copy_in":
            msgs = [{"t": "Q", "sql": "COPY data FROM STDIN /*%s*/" % t}]
        elif kind == "copy_in_srverr":
            msgs = [{"t": "Q", "sql": "COPY data FROM STDIN /*mock: copy_reply_raw=%s*/ /*%s*/" % (COPY_SRVERR_HEX, t)}]
        elif kind == "xbatch":
            # an extended-protocol batch: exactly these four messages must reach the backend, once, iff the checkout succeeds
            msgs = [{"t": "P", "name": "", "sql": "INSERT INTO data VALUES (1) /*%s*/" % t}, {"t": "B", "portal": "", "name": ""},
                    {"t": "E", "portal": "", "max": 0}, {"t": "S"}]
        elif kind == "lone_sync":
            msgs = [{"t": "S"}]
        elif kind == "close_sync":
            msgs = [{"t": "C", "kind": "S", "name": "st1"}, {"t": "S"}]
        elif kind == "parse_sync":
            # statement cache on: the same name and text every time (second use = cache hit, nothing goes to the server);
            # cache off / session mode: the Parse is forwarded, so a fresh name each time
            nmst = "st1" if (self.cfg.get("cache") and not self.m.session) else "s%d" % self.seq   # (session mode: statements are not cached)
            msgs = [{"t": "P", "name": nmst, "sql": "SELECT 7"}, {"t": "S"}]
        until = "GZ" if kind in ("copy_in", "copy_in_srverr") else "Z"
        holding = self.m.st(c)[0] == "Holding"   # IdleHeld (session mode): no checkout
        if kind == "intercept":
            # answered at its Sync: by the outer loop without a checkout (client.rs 1077-1085), or, by a session-mode
            # holder, inside the transaction loop of the connection it keeps anyway: no model op either way
            self.steps += [{"op": "send", "c": nm, "msgs": msgs}, {"op": "recv", "c": nm, "until": "Z", "timeout_ms": 3000, "label": t}]
            self.replies.append((nm, t, "fake"))
            self.intercepted.add(c)
            return
        if holding:
            self.intent[c] = {"kind": kind, "tag": t}
            self.steps += [{"op": "send", "c": nm, "msgs": msgs}, {"op": "recv", "c": nm, "until": until, "timeout_ms": 3000, "label": t}]
            it = self.intent.pop(c)
            s = self.m.st(c)[1]
            if s in self.m.dead:
                self.do(("ExitHolding", c, "ServerError", True)); self.gone_expected += 1
                self.replies.append((nm, t, "server_error"))
            elif kind == "begin":
                self.do(("Exchange", c)); self.replies.append((nm, t, "begin_ok")); self.begin_tag[c] = t
            elif kind in RELEASE_KINDS:
                if self.m.session:
                    self.do(("SessionModeKeep", c))
                else:
                    self.do(("TxnEndRelease", c, False))
                self.replies.append((nm, t, RELEASE_KINDS[kind]))
                if kind == "parse_sync" and self.m.session:
                    self.dirty.add(c)
            elif kind in ("copy_in", "copy_in_srverr"):
                self.do(("Exchange", c)); self.replies.append((nm, t, "copy_in_ready")); self.begin_tag[c] = t
                self.incopy[c] = "srverr" if kind == "copy_in_srverr" else "plain"
            elif kind == "srvclose":
                self.do(("ExitHolding", c, "ServerError", True)); self.gone_expected += 1
                self.replies.append((nm, t, "server_error"))
            self.settle()
            return
        self.intent[c] = {"kind": kind, "tag": t}
        self.do(("Checkout", c))
        if self.m.st(c)[0] == "Holding":
            self.steps += [{"op": "send", "c": nm, "msgs": msgs}, {"op": "recv", "c": nm, "until": until, "timeout_ms": 3000, "label": t}]
            self.granted(c)
            self.settle()
            return
        tk = "task_%s_%d" % (nm, self.seq)
        self.steps.append({"op": "spawn", "task": tk, "steps": [{"op": "send", "c": nm, "msgs": msgs},
                                                                  {"op": "recv", "c": nm, "until": until, "timeout_ms": 20000, "label": t}]})
        self.task[c] = tk
        nwait = len(self.m.waiters) + len(self.m.woken)
        self.settle()
        if self.m.st(c)[0] == "Waiting":
            # really waits: make sure it is registered (FIFO order of the wait list = order of these steps)
            self.steps += [{"op": "wait_waiting", "n": nwait, "timeout_ms": 2000}, {"op": "sleep", "ms": 20}]
        else:
            self.steps.append({"op": "sleep", "ms": 50})

    def abandon(self, c):
        """BEGIN that has to wait, then the client closes its socket while still waiting."""
        nm, t = self.name(c), self.tag(c)
        self.intent[c] = {"kind": "begin", "tag": t}
        self.do(("Checkout", c))
        assert self.m.st(c)[0] == "Waiting"
        tk = "task_%s_%d" % (nm, self.seq)
        self.steps.append({"op": "spawn", "task": tk, "steps": [{"op": "send", "c": nm, "msgs": [{"t": "Q", "sql": "BEGIN /*%s*/" % t}]},
                                                                  {"op": "recv", "c": nm, "until": "Z", "timeout_ms": 120, "label": t},
                                                                  {"op": "close", "c": nm}]})
        self.replies.append((nm, t, "nothing"))
        self.deadsock.add(c)
        self.steps += [{"op": "wait_waiting", "n": len(self.m.waiters) + len(self.m.woken), "timeout_ms": 2000},
                       {"op": "join", "task": tk, "timeout_ms": 1500}, {"op": "sleep", "ms": 20}]
        self.settle()

    def in_txn(self, c, kind):
        nm, t = self.name(c), self.tag(c)
        s, ph = self.m.st(c)[1], self.m.st(c)[2]
        deadsrv = s in self.m.dead
        send = lambda msgs: self.steps.append({"op": "send", "c": nm, "msgs": msgs})
        recv = lambda to=3000: self.steps.append({"op": "recv", "c": nm, "until": "Z", "timeout_ms": to, "label": t})
        copying = c in self.incopy
        if kind in ("copy_done", "copy_fail"):
            variant = self.incopy.pop(c)
            data = [{"t": "d", "data": "1\tone\n"}, {"t": "d", "data": "2\ttwo\n"}]
            send(data + ([{"t": "c"}] if kind == "copy_done" else [{"t": "f", "msg": "client gives up"}])); recv()
            if deadsrv:
                self.do(("ExitHolding", c, "ServerError", True)); self.gone_expected += 1
                self.replies.append((nm, t, "server_error"))
            else:
                # CommandComplete, or ErrorResponse (CopyFail, or the server's own error), then ReadyForQuery(I): the copy and the
                # implicit transaction are over, the server goes back
                self.do(("SessionModeKeep", c) if self.m.session else ("TxnEndRelease", c, False))
                self.replies.append((nm, t, "copy_srverr" if variant == "srverr" else ("copy_ok" if kind == "copy_done" else "copy_failed")))
            self.begin_tag.pop(c, None)
        elif kind == "xstmt":
            send([{"t": "P", "name": "", "sql": "INSERT INTO data VALUES (2) /*%s*/" % t}, {"t": "B", "portal": "", "name": ""},
                  {"t": "E", "portal": "", "max": 0}, {"t": "S"}]); recv()
            if deadsrv:
                self.do(("ExitHolding", c, "ServerError", True)); self.gone_expected += 1
                self.replies.append((nm, t, "server_error"))
            else:
                self.do(("Exchange", c))
                self.replies.append((nm, t, "aborted_in_txn" if c in self.failed else "batch_ok_in_txn"))
        elif kind in ("stmt", "stmt_err", "commit"):
            sql = {"stmt": "SELECT 2 /*%s*/", "stmt_err": "SELECT 2 /*mock: error*/ /*%s*/", "commit": "COMMIT /*%s*/"}[kind] % t
            send([{"t": "Q", "sql": sql}]); recv()
            if deadsrv:
                self.do(("ExitHolding", c, "ServerError", True)); self.gone_expected += 1
                self.replies.append((nm, t, "server_error"))
            elif kind == "commit":
                self.do(("SessionModeKeep", c) if self.m.session else ("TxnEndRelease", c, False))
                self.replies.append((nm, t, "commit_ok"))
                self.failed.discard(c)
            else:
                self.do(("Exchange", c))
                if kind == "stmt_err":
                    self.replies.append((nm, t, "sql_error_in_txn"))   # the mock's error directive wins over the failed-transaction rule
                else:
                    self.replies.append((nm, t, "aborted_in_txn" if c in self.failed else "row_in_txn"))
                if kind == "stmt_err":
                    self.failed.add(c)
        elif kind == "abort":
            self.steps.append({"op": "close", "c": nm})
            if deadsrv and (ph == "InTxn" or c in self.dirty) and not copying:   # checkin_cleanup has something to send, to a dead server
                self.do(("ExitHolding", c, "CleanupErr", True))
            else:
                # a server in COPY mode cannot be cleaned up: checkin_cleanup marks it bad (server.rs checkin_cleanup)
                self.do(("ExitHolding", c, "ClientSocketErr", copying))
            self.gone_expected += 1
            self.incopy.pop(c, None)
        elif kind == "X":
            send([{"t": "X"}]); self.steps.append({"op": "close", "c": nm})
            if deadsrv and (ph == "InTxn" or c in self.dirty) and not copying:   # checkin_cleanup has something to send, to a dead server
                self.do(("ExitHolding", c, "CleanupErr", True))
            else:
                self.do(("ExitHolding", c, "XTerminate", copying))
            self.gone_expected += 1
            self.incopy.pop(c, None)
        elif kind == "badclose":
            send([{"raw": "43" + "00000005" + "53"}])
            # no cleanup on this way out: has_broken = is_unclean = in a transaction, or session state left on the server
            self.do(("ExitHolding", c, "Panic", ph == "InTxn" or c in self.dirty))
            self.gone_expected += 1
            self.steps.append({"op": "recv", "c": nm, "until": "Z", "timeout_ms": 1500, "label": t})
            self.replies.append((nm, t, "closed"))
        elif kind == "srvclose":
            send([{"t": "Q", "sql": "SELECT 3 /*mock: close*/ /*%s*/" % t}]); recv()
            self.do(("ExitHolding", c, "ServerError", True)); self.gone_expected += 1
            self.replies.append((nm, t, "server_error"))
        elif kind == "midreply":
            # the backend writes half of the reply, then closes the connection
            self.steps.append({"op": "backend", "b": "b0", "mode": "close_mid_reply"})
            send([{"t": "Q", "sql": "SELECT 5 /*mock: rows=3*/ /*%s*/" % t}]); recv()
            self.steps.append({"op": "backend", "b": "b0", "mode": "normal"})
            self.do(("ExitHolding", c, "ServerError", True)); self.gone_expected += 1
            self.replies.append((nm, t, "server_error"))
        elif kind == "stmt_timeout":
            send([{"t": "Q", "sql": "SELECT 4 /*mock: hang*/ /*%s*/" % t}]); recv(2500)
            if deadsrv:
                self.do(("ExitHolding", c, "ServerError", True)); self.replies.append((nm, t, "server_error"))
            else:
                self.do(("ExitHolding", c, "StatementTimeout", True)); self.replies.append((nm, t, "stmt_timeout"))
            self.gone_expected += 1
        self.settle()

    def outer(self, c, kind):
        nm = self.name(c)
        if kind == "X":
            self.steps += [{"op": "send", "c": nm, "msgs": [{"t": "X"}]}, {"op": "close", "c": nm}]
        elif kind == "abort":
            self.steps.append({"op": "close", "c": nm})
        elif kind == "badclose":
            self.steps.append({"op": "send", "c": nm, "msgs": [{"raw": "43" + "00000005" + "53"}]})
        self.do(("Disconnect", c)); self.gone_expected += 1

    def timeout_waiters(self):
        to = self.cfg["connect_timeout"]
        self.steps.append({"op": "sleep", "ms": to + 200})
        if not self.backend_up:
            # add_connection gives up after connection_timeout (+ its last back-off)
            self.steps.append({"op": "sleep", "ms": to})
        for c in list(self.m.waiters):
            self.nfail[c] = self.nfail.get(c, 0) + 1
            fatal = bool(self.cfg.get("checkout_failure_limit")) and self.nfail[c] >= self.cfg["checkout_failure_limit"]
            self.do(("WaitTimeout", c, fatal))
            if fatal:
                self.gone_expected += 1
            it = self.intent.pop(c)
            self.replies.append((self.name(c), it["tag"], "pool_error"))
            if c in self.task:
                self.steps.append({"op": "join", "task": self.task.pop(c), "timeout_ms": 3000})
        if not self.backend_up:
            while self.m.pending > 0:
                self.do(("ConnectFailed",))

    def blip(self):
        self.steps += [{"op": "backend", "b": "b0", "mode": "refuse"}, {"op": "sleep", "ms": 80},
                       {"op": "backend", "b": "b0", "mode": "normal"}, {"op": "sleep", "ms": 50}]
        for s in sorted(set(self.m.idleq) | {s for s, _ in self.m.held}):
            if s not in self.m.dead:
                self.do(("ConnDied", s))

    def reset(self):
        """the database host resets (TCP RST, SO_LINGER 0) every connection it has with the pooler; the listener stays up.
        For the pool a reset connection is a dead one: the first use fails (in send() already), that marks it bad, it is dropped."""
        self.steps += [{"op": "backend", "b": "b0", "reset_sessions": True}, {"op": "sleep", "ms": 70}]
        for s in sorted(set(self.m.idleq) | {s for s, _ in self.m.held}):
            if s not in self.m.dead:
                self.do(("ConnDied", s))

    # ---- random walk
    def choices(self):
        m, cfg = self.m, self.cfg
        short = cfg["connect_timeout"] < 1000
        out = []
        for c in range(self.n):
            st = m.st(c)
            if c in self.deadsock or st[0] == "Gone":
                continue
            if st[0] == "NoServer":
                free_now = bool(m.idleq) or (m.num + m.pending < m.max)
                out += [("first", c, "begin")] * (6 if free_now or short else 8) + [("first", c, "single")] * 2 + [("first", c, "single_err")]
                out += [("first", c, "copy_in")] * 2 + [("first", c, k) for k in ("copy_in_srverr", "copy_out", "copy_out_big")]
                out += [("first", c, "xbatch")] * 3
                if not m.dead:
                    # batches that may need nothing from the server do not notice a dead one: keep them out of worlds with dead connections
                    out += [("first", c, k) for k in ("lone_sync", "close_sync", "parse_sync")]
                if free_now:
                    out += [("first", c, "srvclose")]
                if cfg["plugin"]:
                    out += [("first", c, "intercept")] * 2
                if not free_now and not short and not m.idleq:
                    out += [("abandon", c)] * 3
                out += [("outer", c, self.rng.choice(["X", "abort", "badclose"]))]
            elif st[0] == "Holding" and c in self.incopy:
                out += [("txn", c, "copy_done")] * 4 + [("txn", c, "copy_fail")] * 3 + [("txn", c, "abort")]
            elif st[0] == "Holding" and st[2] == "InTxn":
                out += [("txn", c, "stmt")] * 2 + [("txn", c, "xstmt")] * 2 + [("txn", c, "stmt_err")] + [("txn", c, "commit")] * 4
                out += [("txn", c, "abort")] * 2 + [("txn", c, "X"), ("txn", c, "badclose"), ("txn", c, "badclose"), ("txn", c, "srvclose")]
                if st[1] not in m.dead and not m.waiters and not m.woken:
                    out += [("txn", c, "midreply")]   # the fault mode is global to the backend: only while nobody else is about to use it
                if len(m.waiters) >= 2:
                    out += [("txn", c, "badclose")] * 3 + [("txn", c, "commit")] * 2
                if cfg.get("statement_timeout"):
                    out += [("txn", c, "stmt_timeout")] * 2
            elif st[0] == "Holding" and st[2] == "IdleHeld":
                out += [("first", c, "begin")] * 3 + [("first", c, "single")] * 2 + [("txn", c, "abort"), ("txn", c, "X"), ("txn", c, "badclose")]
                out += [("first", c, k) for k in ("copy_in", "copy_in_srverr", "copy_out", "copy_out_big", "xbatch")]
                if not m.dead:
                    out += [("first", c, k) for k in ("lone_sync", "close_sync", "parse_sync")]
                if cfg["plugin"]:
                    out += [("first", c, "intercept")]
        if cfg.get("blips") and not m.waiters and not m.woken and m.pending == 0 and m.num > len(m.dead):
            out += [("blip",), ("reset",), ("reset",)]
        return out

    def walk(self, nactions):
        for i in range(nactions):
            ch = self.choices()
            if not ch:
                break
            a = self.rng.choice(ch)
            self.actions.append(a)
            lab = "a%d" % i
            if a[0] == "first":
                self.first_message(a[1], a[2])
            elif a[0] == "abandon":
                self.abandon(a[1])
            elif a[0] == "txn":
                self.in_txn(a[1], a[2])
            elif a[0] == "outer":
                self.outer(a[1], a[2])
            elif a[0] == "blip":
                self.blip()
            elif a[0] == "reset":
                self.reset()
            if self.m.waiters and self.cfg["connect_timeout"] < 1000:
                self.observe(lab + "w")
                self.timeout_waiters()
                self.actions.append(("timeout",))
                self.settle()
            self.observe(lab)

    def finish(self):
        """everybody leaves; then the capacity probe"""
        m = self.m
        guard = 0
        while True:
            guard += 1
            holders = [c for c in range(self.n) if m.st(c)[0] == "Holding" and c not in self.deadsock]
            if not holders or guard > 50:
                break
            c = holders[0]
            self.actions.append(("final-X", c))
            self.in_txn(c, "X")
            self.observe("f%d" % guard)
        if m.waiters:
            # only possible when nothing can be released any more (e.g. capacity eaten by F14 holders that are gone): let them time out
            self.timeout_waiters(); self.settle()
        for c in range(self.n):
            if m.st(c)[0] == "NoServer" and c not in self.deadsock:
                self.outer(c, "X")
        self.observe("quiet", {"quiet": True})
        rounds = 2 if m.dead else 1
        base = self.n
        for r in range(rounds):
            cs = list(range(base, base + m.max))
            base += m.max
            for c in cs:
                self.steps.append({"op": "connect", "c": self.name(c), "params": {"user": "u", "database": "p", "application_name": self.name(c)}, "password": "pw"})
            ok = []
            for c in cs:
                self.actions.append(("probe-begin", c))
                self.first_message(c, "begin")
                if m.st(c)[0] == "Holding":
                    ok.append(c)
            last = (r == rounds - 1)
            self.observe("probe%d" % r, {"probe": last, "probe_ok": len(ok)})
            for c in ok:
                self.in_txn(c, "stmt")
            for c in ok:
                self.in_txn(c, "X")
                self.pause()
            self.observe("end%d" % r, {"quiet": True})
        self.n = base


def make_toml(cfg):
    general = {"connect_timeout": cfg["connect_timeout"], "server_round_robin": cfg["fifo"], "worker_threads": 2}
    user = {"pool_size": cfg["pool_size"]}
    if cfg.get("statement_timeout"):
        user["statement_timeout"] = cfg["statement_timeout"]
    mode = "session" if cfg["session"] else "transaction"
    opts = {"pool_mode": mode, "query_parser_enabled": bool(cfg["plugin"])}
    if cfg.get("user_mode_override"):
        # the pool says the opposite; the user-level setting is the one that counts (pool.rs from_config: user.pool_mode first)
        opts["pool_mode"] = "transaction" if cfg["session"] else "session"
        user["pool_mode"] = mode
    elif cfg.get("user_mode_same"):
        user["pool_mode"] = mode
    if cfg.get("hc"):
        general.update({"healthcheck_delay": 0, "healthcheck_timeout": 250})
    if cfg.get("checkout_failure_limit"):
        opts["checkout_failure_limit"] = cfg["checkout_failure_limit"]
    if cfg.get("cache"):
        opts["prepared_statements_cache_size"] = 50
    pool = {"opts": opts,
            "users": [user], "shards": [{"servers": [["b0", "primary"]]}]}
    if cfg["plugin"]:
        pool["plugins"] = PLUG
    return W.make_toml(general, {"p": pool})


def scenario_of(plan):
    return {"backends": [{"name": "b0"}], "toml": make_toml(plan.cfg), "workers": 2, "steps": plan.steps}


# ------------------------------------------------------------------ reading the implementation's trace
def classify(frames, outcome):
    ts = [f["t"] for f in frames]
    errs = [f.get("fields", {}).get("M", "") for f in frames if f["t"] == "E"]
    z = [f.get("status") for f in frames if f["t"] == "Z"]
    if errs:
        e = errs[0]
        if e.startswith("could not get connection from the pool"):
            return "pool_error" if (ts == ["E", "Z"] and z == ["I"] and outcome == "ok") else "pool_error?"
        if e.startswith("error receiving data from server") or e.startswith("error sending") or "server" in e and "receiv" in e:
            return "server_error"
        if e == "pool statement timeout":
            return "stmt_timeout"
        if e.startswith("current transaction is aborted"):
            return "aborted_in_txn" if z == ["E"] else "aborted?"
        if e == "COPY from stdin failed":
            return "copy_failed" if z == ["I"] else "copy_failed?"
        if e == "mock copy error":
            return "copy_srverr" if z == ["I"] else "copy_srverr?"
        if e == "mock error":
            return "sql_error" if z == ["I"] else ("sql_error_in_txn" if z == ["E"] else "sql_error?")
        return "error:" + e[:60]
    if outcome in ("closed", "closed-in-frame") and not frames:
        return "closed"
    if outcome == "timeout" and not frames:
        return "nothing"
    if ts == ["G"]:
        return "copy_in_ready"
    if "H" in ts:
        nd = ts.count("d")
        return "copy_out_ok" if (z == ["I"] and "c" in ts and "C" in ts and nd in (3, 40)) else "copy_out?%d/%s" % (nd, z)
    if ts == ["Z"]:
        return "sync_only" if z == ["I"] else "sync_only?"
    if ts == ["3", "Z"]:
        return "close_ok" if z == ["I"] else "close_ok?"
    if ts == ["1", "2", "C", "Z"]:
        return {"I": "batch_ok", "T": "batch_ok_in_txn"}.get(z[0], "batch?")
    if ts == ["1", "Z"]:
        return "parse_ok" if z == ["I"] else "parse_ok?"
    if "D" in ts:
        cols = [f.get("cols") for f in frames if f["t"] == "D"][0]
        if cols == ["fake"]:
            return "fake" if z == ["I"] else "fake?"
        return "row" if z == ["I"] else ("row_in_txn" if z == ["T"] else "row?")
    tags = [f.get("tag") or "" for f in frames if f["t"] == "C"]
    if tags == ["BEGIN"] and z == ["T"]:
        return "begin_ok"
    if tags and tags[0] in ("COMMIT", "ROLLBACK") and z == ["I"]:
        return "commit_ok"
    if tags and tags[0].startswith("COPY") and z == ["I"]:
        return "copy_ok"
    return "other:%s/%s/%s" % ("".join(ts), outcome, z)


def server_error_like(cls):
    return cls in ("server_error", "closed") or cls.startswith("error:")


def compare(plan_d, coq_views, res):
    """Strict first; if that fails and the scenario contains a step whose outcome is the implementation's
    legitimate choice (an abandoned waiter is granted: does the write to its closed socket fail at once?),
    the observation points after that step are compared up to that choice."""
    problems, f14, info = compare1(plan_d, coq_views, res, False)
    if problems and plan_d["racy"]:
        problems, f14, info = compare1(plan_d, coq_views, res, True)
    return problems, f14, info


def compare1(plan_d, coq_views, res, tolerant):
    """plan_d: dict form of a plan (cfg, ops, obs, replies, tags...). Returns (problems, f14_seen, info)."""
    problems, info = [], {}
    cfg = plan_d["cfg"]
    if "harness_error" in res or "start_error" in res:
        return [("harness", str(res.get("harness_error") or res.get("start_error")))], [], info
    snaps = {s["label"]: s for s in res.get("snapshots", [])}
    events = res.get("events", [])
    # which backend connection executed which tagged statement
    tag_conn = {}
    for e in events:
        if e.get("ev") == "msg" and e.get("who") == "b0":
            sql = (e.get("detail") or {}).get("sql") or ""
            for t in re.findall(r"/\*(t\d+_\d+)\*/", sql):
                tag_conn[t] = e["conn"]
    # how often each tagged statement reached the backend (as a Query or as a Parse)
    tag_count = {}
    for e in events:
        if e.get("ev") == "msg" and e.get("who") == "b0" and e.get("tag") in ("Q", "P"):
            for t in re.findall(r"/\*(t\d+_\d+)\*/", (e.get("detail") or {}).get("sql") or ""):
                tag_count[t] = tag_count.get(t, 0) + 1
    for nm, lab, want in plan_d["replies"]:
        n = tag_count.get(lab, 0)
        if want in NEVER_RAN and n != 0:
            problems.append(("monitor-refused-ran", "%s %s was refused at checkout (pool error), yet its statement reached the backend %d time(s)" % (nm, lab, n)))
        elif want in RAN_ONCE and n != 1:
            problems.append(("monitor-ran-once", "%s %s (%s): its statement reached the backend %d times, must be exactly once" % (nm, lab, want, n)))
    # replies, per client in order
    per_client = {}
    for e in events:
        if e.get("ev") == "recv" and e.get("label"):
            per_client.setdefault(e["who"], []).append((e["label"], classify(e["frames"], e["outcome"]), e))
    for nm, lab, want in plan_d["replies"]:
        got = [x for x in per_client.get(nm, []) if x[0] == lab]
        if not got:
            problems.append(("reply-missing", "%s %s: expected %s, no recv event" % (nm, lab, want)))
            continue
        g = got[0][1]
        if want == "server_error":
            okk = server_error_like(g)
        elif want == "closed":
            okk = g in ("closed", "nothing") or g.startswith("other:")
        else:
            okk = (g == want)
        if not okk:
            problems.append(("reply", "%s %s: expected %s, got %s" % (nm, lab, want, g)))
    # per observation point
    bij, rbij = {}, {}
    soft = []
    f14_seen = []
    psize = cfg["pool_size"]
    racy_from = min(plan_d["racy"]) if (plan_d["racy"] and tolerant) else None
    for oi, o in enumerate(plan_d["obs"]):
        s = snaps.get(o["label"])
        if s is None:
            problems.append(("snapshot-missing", o["label"]))
            continue
        srv = s["pools"][0]["servers"][0]
        be = s["backends"]["b0"]
        nops = o["nops"]
        if nops == 0:
            continue
        en, v = coq_views[nops - 1]
        num, pend, idle, (wt, wk), cl, dead = v
        held = {c: st for c, st in cl if isinstance(st, tuple) and st[0] == "Holding"}
        lab = o["label"]
        # monitors (no model)
        if srv["connections"] > psize:
            problems.append(("monitor-bound", "%s: bb8 connections %d > pool_size %d" % (lab, srv["connections"], psize)))
        if be["max_open_settled"] > psize or len(be["open"]) > psize:
            problems.append(("monitor-bound", "%s: %d backend sessions open (settled max %d) > pool_size %d" % (lab, len(be["open"]), be["max_open_settled"], psize)))
        if "inuse_must_be" in o and srv["connections"] - srv["idle"] != o["inuse_must_be"]:
            problems.append(("monitor-idle-hold", "%s: %d connections in use although the clients concerned are idle outside a transaction, must be %d" % (lab, srv["connections"] - srv["idle"], o["inuse_must_be"])))
        if o.get("quiet") and srv["connections"] != srv["idle"]:
            problems.append(("monitor-leak", "%s: all clients gone, yet %d of %d connections in use" % (lab, srv["connections"] - srv["idle"], srv["connections"])))
        if o.get("probe") and (o["probe_ok"] != psize or srv["connections"] - srv["idle"] != psize):
            problems.append(("monitor-capacity", "%s: capacity probe: %d of %d transactions open (model %d)" % (lab, srv["connections"] - srv["idle"], psize, o["probe_ok"])))
        if racy_from is not None and oi >= racy_from:
            # an abandoned waiter was granted: whether its connection survives is the implementation's choice;
            # accept either for the counters that depend on it, keep the monitors
            alt_ok = srv["connections"] <= psize and srv["connections"] - srv["idle"] == len(held)
            if not alt_ok:
                problems.append(("diff", "%s: in use %d, model %d (after a legitimately racy step)" % (lab, srv["connections"] - srv["idle"], len(held))))
            info["racy_tail"] = info.get("racy_tail", 0) + 1
            continue
        # differential
        if srv["connections"] != num:
            problems.append(("diff", "%s: bb8 connections %d, model %d" % (lab, srv["connections"], num)))
        if srv["idle"] != len(idle):
            problems.append(("diff", "%s: bb8 idle %d, model %d" % (lab, srv["idle"], len(idle))))
        live = set(idle) | {st[1] for st in held.values()}
        want_open = len(live - set(dead))
        if len(be["open"]) != want_open:
            problems.append(("diff", "%s: %d backend sessions open, model %d" % (lab, len(be["open"]), want_open)))
        waiting_impl = sorted(c["app"] for c in s["clients"] if c["state"] == "waiting")
        waiting_model = sorted("c%d" % c for c in (list(wt) + list(wk)))
        if waiting_impl != waiting_model:
            # redundant with the counters and the replies (a client served too early shows up there), and it depends on
            # when the snapshot is taken relative to a 300 ms timeout: counted, reported only together with another difference
            soft.append(("diff", "%s: waiting clients %s, model %s" % (lab, waiting_impl, waiting_model)))
        if len(s["task_results"]) < o["gone"]:
            problems.append(("diff", "%s: %d client tasks ended, model %d" % (lab, len(s["task_results"]), o["gone"])))
        elif len(s["task_results"]) > o["gone"]:
            # a stray connection to the pooler's port (another process re-using an ephemeral port) also ends a task
            soft.append(("diff", "%s: %d client tasks ended, model %d" % (lab, len(s["task_results"]), o["gone"])))
        # holders in a transaction <-> backend sessions in a transaction, with a consistent renaming of connections
        intxn_model = {c: st[1] for c, st in held.items() if st[2] == "InTxn"}
        intxn_impl = sorted(x["conn"] for x in be["open"] if x["s"]["state"]["txn"] in ("T", "E") or x["s"]["state"].get("copy"))
        last_tag = plan_d["last_tag_at"][oi]
        for c, sid_ in sorted(intxn_model.items()):
            if sid_ in dead:
                continue
            t = last_tag.get(str(c)) or last_tag.get(c)
            k = tag_conn.get(t)
            if k is None:
                problems.append(("diff", "%s: client c%d should be in a transaction on connection #%d; its statement %s never reached the backend" % (lab, c, sid_, t)))
                continue
            if bij.setdefault(sid_, k) != k or rbij.setdefault(k, sid_) != sid_:
                problems.append(("diff", "%s: client c%d is on backend connection %d; the model says connection #%d, which was backend connection %s before (idle-queue order / waiter order differs)" % (lab, c, k, sid_, bij.get(sid_))))
            if k not in intxn_impl:
                problems.append(("diff", "%s: backend connection %d (client c%d) is not in a transaction" % (lab, k, c)))
        n_model_intxn = len([1 for c, sd in intxn_model.items() if sd not in dead])
        if len(intxn_impl) != n_model_intxn:
            problems.append(("diff", "%s: %d backend sessions in a transaction, model %d" % (lab, len(intxn_impl), n_model_intxn)))
        if o.get("f14") and srv["connections"] - srv["idle"] > len(held):
            f14_seen.append((lab, o["f14"]))
    info["soft_waiting_mismatch"] = len(soft)   # waiting-set and extra-task observations
    if problems:
        problems += soft
    return problems, f14_seen, info


# ------------------------------------------------------------------ generation
def gen_plans(run, quick):
    rng = run.rng
    plans = []
    cfgs = []
    for ps in (1, 2, 3):
        for session in (False, True):
            for fifo in (False, True):
                for to in (6000, 300):
                    cfgs.append({"pool_size": ps, "session": session, "fifo": fifo, "connect_timeout": to, "plugin": False})
    reps = 6 if quick else 40
    for cfg in cfgs:
        for r in range(reps):
            c = dict(cfg)
            v = rng.random()
            if v < 0.3:
                c["plugin"] = True
            elif v < 0.5:
                c["statement_timeout"] = 300
            elif v < 0.7:
                c["blips"] = True
            if rng.random() < 0.4:
                c["cache"] = True
            u = rng.random()
            if u < 0.35:
                c["user_mode_override"] = True
            elif u < 0.45:
                c["user_mode_same"] = True
            n = rng.randint(max(2, c["pool_size"]), 2 * c["pool_size"] + 1)
            if rng.random() < 0.4:
                n = 2 * c["pool_size"] + 1
            p = Plan(c, rng, n)
            p.walk(rng.randint(9, 16) if c["connect_timeout"] >= 1000 else rng.randint(5, 8))
            p.finish()
            plans.append(p)
    return plans


def scripted_plans(run):
    """hand-written corner cases"""
    rng = run.rng
    out = []
    # rotation on a closed connection: pool 1, [c1; c2] wait, c0 panics inside its transaction
    for fifo in (False, True):
        p = Plan({"pool_size": 1, "session": False, "fifo": fifo, "connect_timeout": 6000, "plugin": False}, rng, 3)
        p.actions = ["rotation"]
        p.first_message(0, "begin"); p.observe("s0")
        p.first_message(1, "begin"); p.observe("s1")
        p.first_message(2, "begin"); p.observe("s2")
        p.in_txn(0, "badclose"); p.observe("s3")
        p.in_txn(2, "commit"); p.observe("s4")
        p.finish(); out.append(p)
    # F14 regression (fixed by a7d476c): intercepted batches take no server; the next client is served at once
    for ps in (1, 2):
        p = Plan({"pool_size": ps, "session": False, "fifo": False, "connect_timeout": 300, "plugin": True}, rng, ps + 1)
        p.actions = ["f14"]
        for c in range(ps):
            p.first_message(c, "intercept"); p.observe("i%d" % c, {"inuse_must_be": 0})
        p.first_message(ps, "single"); p.observe("b", {"inuse_must_be": 0})     # client b is served, not timed out
        p.first_message(ps, "begin"); p.observe("b2")
        p.first_message(0, "intercept"); p.observe("i", {"inuse_must_be": 1})
        p.in_txn(ps, "commit"); p.observe("u", {"inuse_must_be": 0})
        p.finish(); out.append(p)
    # COPY: however a COPY ends, the server is back once the client is idle outside a transaction, and a waiter gets it
    for start, end in (("copy_in", "copy_done"), ("copy_in", "copy_fail"), ("copy_in_srverr", "copy_done"), ("copy_in_srverr", "copy_fail")):
        for cache in (False, True):
            p = Plan({"pool_size": 1, "session": False, "fifo": False, "connect_timeout": 6000, "plugin": False, "cache": cache}, rng, 2)
            p.actions = ["copy:%s/%s" % (start, end)]
            p.first_message(0, start); p.observe("k0", {"inuse_must_be": 1})
            p.first_message(1, "begin"); p.observe("k1", {"inuse_must_be": 1})          # has to wait for the copier
            p.in_txn(0, end); p.observe("k2", {"inuse_must_be": 1})                      # copier idle again: the waiter has the server
            p.in_txn(1, "commit"); p.observe("k3", {"inuse_must_be": 0})
            p.first_message(0, start); p.observe("k4"); p.in_txn(0, end); p.observe("k5", {"inuse_must_be": 0})
            p.finish(); out.append(p)
    for kind in ("copy_out", "copy_out_big", "lone_sync", "close_sync", "parse_sync"):
        for cache in (False, True):
            p = Plan({"pool_size": 1, "session": False, "fifo": False, "connect_timeout": 6000, "plugin": False, "cache": cache}, rng, 2)
            p.actions = ["release:%s" % kind]
            p.first_message(0, "begin"); p.observe("r0")
            p.first_message(1, kind); p.observe("r1", {"inuse_must_be": 1})             # waits
            p.in_txn(0, "commit"); p.observe("r2", {"inuse_must_be": 0})                 # waiter served, done, server back
            p.first_message(1, kind); p.observe("r3", {"inuse_must_be": 0})              # second use (statement cache hit when caching is on)
            p.first_message(0, kind); p.observe("r4", {"inuse_must_be": 0})
            p.finish(); out.append(p)
    # the database host resets idle server connections (TCP RST): each is broken on its first use and replaced; capacity stays usable
    for ps, fifo in ((1, False), (2, False), (2, True)):
        p = Plan({"pool_size": ps, "session": False, "fifo": fifo, "connect_timeout": 300, "plugin": False}, rng, ps + 3)
        p.actions = ["reset-idle"]
        for c in range(ps):
            p.first_message(c, "begin")
        p.observe("x0")
        for c in range(ps):
            p.in_txn(c, "commit"); p.pause()
        p.observe("x1", {"inuse_must_be": 0})
        p.reset(); p.observe("x2", {"inuse_must_be": 0})
        for c in range(ps):                      # one client fails on each reset connection, once
            p.first_message(c, "single"); p.observe("x3_%d" % c, {"inuse_must_be": 0})
        for c in range(ps, ps + 3):              # everybody after that is served by fresh connections
            p.first_message(c, "single"); p.observe("x4_%d" % c, {"inuse_must_be": 0})
        p.finish(); out.append(p)
    # user-level pool_mode overrides the pool's, both directions: 3 clients taking turns on a pool of 1
    p = Plan({"pool_size": 1, "session": False, "fifo": False, "connect_timeout": 300, "plugin": False, "user_mode_override": True}, rng, 3)
    p.actions = ["user-mode:transaction-over-session"]
    for r in range(2):
        for c in range(3):
            p.first_message(c, "single"); p.observe("m%d_%d" % (r, c), {"inuse_must_be": 0})
    p.finish(); out.append(p)
    p = Plan({"pool_size": 1, "session": True, "fifo": False, "connect_timeout": 300, "plugin": False, "user_mode_override": True}, rng, 3)
    p.actions = ["user-mode:session-over-transaction"]
    p.first_message(0, "single"); p.observe("n0", {"inuse_must_be": 1})        # session mode: keeps its server
    p.first_message(1, "single"); p.observe("n1w"); p.timeout_waiters(); p.settle(); p.observe("n1", {"inuse_must_be": 1})
    p.in_txn(0, "X"); p.observe("n2", {"inuse_must_be": 0})
    p.first_message(1, "single"); p.observe("n3", {"inuse_must_be": 1})
    p.first_message(2, "single"); p.observe("n4w"); p.timeout_waiters(); p.settle(); p.observe("n4", {"inuse_must_be": 1})
    p.finish(); out.append(p)
    # a health check that times out at checkout closes that connection; the client is refused at once, stays usable, capacity comes back
    for ps in (1, 2):
        p = Plan({"pool_size": ps, "session": False, "fifo": False, "connect_timeout": 6000, "plugin": False, "hc": True}, rng, 3)
        p.actions = ["healthcheck-timeout"]
        p.first_message(0, "single"); p.observe("h0", {"inuse_must_be": 0})
        p.arm_slow_healthcheck(); p.first_message(0, "hcfail"); p.arm_slow_healthcheck(False)
        p.observe("h1", {"inuse_must_be": 0})
        p.first_message(1, "single"); p.observe("h2", {"inuse_must_be": 0})       # fresh connection
        p.first_message(0, "begin"); p.observe("h3", {"inuse_must_be": 1})        # the refused client is usable
        # (a waiter that is handed a connection the instant it is released gets no health check: last_activity is < 1 ms old)
        p.in_txn(0, "commit"); p.observe("h5", {"inuse_must_be": 0})
        p.arm_slow_healthcheck(); p.first_message(1, "hcfail"); p.arm_slow_healthcheck(False)
        p.observe("h5b", {"inuse_must_be": 0})
        p.first_message(2, "begin"); p.observe("h6", {"inuse_must_be": 1})
        p.in_txn(2, "commit"); p.observe("h7", {"inuse_must_be": 0})
        p.finish(); out.append(p)
    # a batch refused at checkout leaves nothing behind: the client's later batches and queries get exactly their own replies, the backend
    # sees exactly the accepted statements, once each
    for cache in (False, True):
        p = Plan({"pool_size": 1, "session": False, "fifo": False, "connect_timeout": 300, "plugin": False, "cache": cache}, rng, 2)
        p.actions = ["refused-batch:exhausted"]
        p.first_message(0, "begin"); p.observe("e0")
        for k in range(2):
            p.first_message(1, "xbatch"); p.observe("e1w%d" % k); p.timeout_waiters(); p.settle(); p.observe("e1_%d" % k, {"inuse_must_be": 1})
        p.in_txn(0, "xstmt"); p.observe("e2")
        p.in_txn(0, "commit"); p.observe("e3", {"inuse_must_be": 0})
        for k, kind in enumerate(("xbatch", "single", "xbatch", "lone_sync", "xbatch")):
            p.first_message(1, kind); p.observe("e4_%d" % k, {"inuse_must_be": 0})
        p.first_message(1, "begin"); p.in_txn(1, "xstmt"); p.in_txn(1, "commit"); p.observe("e5", {"inuse_must_be": 0})
        p.finish(); out.append(p)
    # checkout_failure_limit: the second failed checkout ends the client task; nothing is held by it
    p = Plan({"pool_size": 1, "session": False, "fifo": False, "connect_timeout": 300, "plugin": False, "checkout_failure_limit": 2}, rng, 2)
    p.actions = ["failure_limit"]
    p.first_message(0, "begin"); p.observe("l0")
    p.first_message(1, "single"); p.observe("l1w"); p.timeout_waiters(); p.settle(); p.observe("l1")
    p.first_message(1, "single"); p.observe("l2w"); p.timeout_waiters(); p.settle(); p.observe("l2")
    p.in_txn(0, "commit"); p.observe("l3")
    p.finish(); out.append(p)
    # backend down: checkout times out, the connection attempt gives up, later everything works again
    for ps, kind in ((1, "single"), (2, "single"), (1, "xbatch"), (2, "xbatch")):
        p = Plan({"pool_size": ps, "session": False, "fifo": False, "connect_timeout": 300, "plugin": False}, rng, 2)
        p.actions = ["down"]
        p.first_message(0, "single"); p.observe("d0")
        p.steps += [{"op": "backend", "b": "b0", "mode": "refuse"}, {"op": "sleep", "ms": 60}]
        p.backend_up = False
        for s in list(p.m.idleq):
            p.do(("ConnDied", s))
        p.first_message(0, "single")      # gets the dead idle connection: server error, task ends
        p.observe("d1")
        p.first_message(1, kind)          # nothing idle, connect fails, times out
        p.observe("d2w"); p.timeout_waiters(); p.settle(); p.observe("d2")
        p.steps += [{"op": "backend", "b": "b0", "mode": "normal"}, {"op": "sleep", "ms": 60}]
        p.backend_up = True
        p.first_message(1, kind); p.observe("d3", {"inuse_must_be": 0})     # served: exactly its own reply
        p.first_message(1, "begin"); p.observe("d3b")
        p.in_txn(1, "xstmt" if kind == "xbatch" else "stmt"); p.in_txn(1, "commit"); p.observe("d4", {"inuse_must_be": 0})
        p.finish(); out.append(p)
    return out


def plan_dict(p):
    return {"cfg": p.cfg, "ops": [list(o) for o in p.ops], "obs": p.obs, "replies": [list(r) for r in p.replies], "racy": p.racy,
            "actions": [list(a) if isinstance(a, tuple) else a for a in p.actions], "nclients": p.n, "last_tag_at": p.last_tag_at}


def eval_views(plans, name="c04_eval"):
    exprs = []
    for p in plans:
        cs = "[" + "; ".join(str(c) for c in range(p.n)) + "]"
        ops = "[" + "; ".join(coq_op(o) for o in p.ops) + "]"
        exprs.append("run_views %s init %s %s" % (coq_cfg(p.cfg), ops, cs))
    vals = vlib.coq_eval(name, PRE, exprs, shard=max(4, (len(exprs) + 15) // 16))
    out = []
    for v in vals:
        parsed = vlib.parse_coq(v)
        out.append([(en, norm_view(vw)) for en, vw in parsed])
    return out


def mirror_views(p):
    m = Mirror(p.cfg["pool_size"], p.cfg.get("min_idle", 0), p.cfg["fifo"], p.cfg["session"])
    out = []
    for o in p.ops:
        en = m.step(tuple(o))
        out.append((en, m.view(list(range(p.n)))))
    return out


def canon_view(v):
    num, pend, idle, (wt, wk), cl, dead = v
    return (num, pend, tuple(idle), (tuple(wt), tuple(wk)), tuple((c, tuple(s) if isinstance(s, (tuple, list)) else s) for c, s in cl), tuple(dead))


# ------------------------------------------------------------------ replica-only routing with every replica banned (monitor only)
def ban_world_scenario():
    """primary b0 + replica b1, default_role = replica, pool_size 1.  The replica dies under a client (=> banned), comes back;
    the next checkout must reopen it at once (pool.rs try_unban: all replicas banned => unban all) instead of refusing the client
    for ban_time although the capacity is there."""
    toml = W.make_toml({"connect_timeout": 300, "ban_time": 60},
                       {"p": {"opts": {"pool_mode": "transaction", "default_role": "replica"}, "users": [{"pool_size": 1}],
                              "shards": [{"servers": [["b0", "primary"], ["b1", "replica"]]}]}})
    def conn(c):
        return {"op": "connect", "c": c, "params": {"user": "u", "database": "p", "application_name": c}, "password": "pw"}
    def q(c, lab):
        return [{"op": "send", "c": c, "msgs": [{"t": "Q", "sql": "SELECT 1 /*%s*/" % lab}]}, {"op": "recv", "c": c, "until": "Z", "timeout_ms": 3000, "label": lab}]
    steps = [conn("c0"), conn("c1")] + q("c0", "w0") + [{"op": "backend", "b": "b1", "mode": "refuse"}, {"op": "sleep", "ms": 80}] + q("c0", "w1")
    steps += [{"op": "sleep", "ms": 40}, {"op": "snapshot", "label": "banned"}, {"op": "backend", "b": "b1", "mode": "normal"}, {"op": "sleep", "ms": 50}]
    steps += q("c1", "w2") + q("c1", "w3") + [{"op": "sleep", "ms": 30}, {"op": "snapshot", "label": "end"}]
    return {"backends": [{"name": "b0"}, {"name": "b1"}], "toml": toml, "workers": 2, "steps": steps}


def check_ban_world(res):
    if "harness_error" in res or "start_error" in res:
        return [("harness", str(res)[:300])], {}
    rep = {}
    for e in res.get("events", []):
        if e.get("ev") == "recv" and e.get("label"):
            cls = classify(e["frames"], e["outcome"])
            be = [f["cols"][0] for f in e["frames"] if f["t"] == "D" and f.get("cols")]
            rep[e["label"]] = (cls, be[0] if be else None)
    snaps = {s["label"]: s for s in res.get("snapshots", [])}
    banned = any(x["banned"] for x in snaps.get("banned", {"pools": [{"servers": []}]})["pools"][0]["servers"] if x["role"] == "Replica")
    info = {"replica_banned_before": banned, "replies": {k: list(v) for k, v in rep.items()}}
    probs = []
    if rep.get("w0") != ("row", "b1"):
        probs.append(("harness", "replica-only world: the first query was not answered by the replica: %s" % (rep.get("w0"),)))
    elif banned:
        for lab in ("w2", "w3"):
            if rep.get(lab) != ("row", "b1"):
                probs.append(("monitor-capacity", "every replica banned, the replica is back and idle, yet client c1's query %s got %s instead of a row from it "
                                                  "(the unban-all valve of try_unban did not open): waiters refused although capacity exists" % (lab, rep.get(lab),)))
                break
    return probs, info


# ------------------------------------------------------------------ the capacity bound across PAUSE / RELOAD / RESUME (monitor only)
def reload_world_scenario(changed=True, ps=1, new_ps=None):
    """pool_size ps.  PAUSE; a client arrives and is parked; the configuration is reloaded (the pool object is replaced when `changed`);
    RESUME.  The parked client must work on the pool that is current when it wakes up: together with the other clients it may never
    hold more than pool_size server connections, counted over ALL live sessions of the backend (old and new pool objects)."""
    def toml(extra_user=None, size=ps):
        u = {"pool_size": size}
        u.update(extra_user or {})
        return W.make_toml({"connect_timeout": 300}, {"p": {"users": [u], "shards": [{"servers": [["b0", "primary"]]}]}})
    def conn(c, db="p", user="u", pw="pw"):
        return {"op": "connect", "c": c, "params": {"user": user, "database": db, "application_name": c}, "password": pw}
    def q(c, sql, lab, to=3000):
        return [{"op": "send", "c": c, "msgs": [{"t": "Q", "sql": sql}]}, {"op": "recv", "c": c, "until": "Z", "timeout_ms": to, "label": lab}]
    names = ["c%d" % i for i in range(ps + 1)]
    steps = [conn(n) for n in names] + [conn("adm", "pgcat", "admin", "adminpw")]
    steps += q(names[0], "SELECT 1 /*w0*/", "w0") + q("adm", "PAUSE", "pause")
    for i in range(ps):        # ps clients arrive while the pool is paused
        steps += [{"op": "spawn", "task": "park%d" % i, "steps": q(names[1 + i] if i + 1 <= ps else names[0], "BEGIN /*p%d*/" % i, "p%d" % i, 6000)}, {"op": "sleep", "ms": 40}]
    steps += [{"op": "sleep", "ms": 60}, {"op": "snapshot", "label": "parked"}]
    steps += [{"op": "write_config", "toml": toml({"statement_timeout": 30000} if changed else None, new_ps or ps)}, {"op": "reload"}, {"op": "sleep", "ms": 60}]
    steps += q("adm", "RESUME", "resume")
    steps += [{"op": "join", "task": "park%d" % i, "timeout_ms": 4000} for i in range(ps)]
    steps += [{"op": "sleep", "ms": 40}, {"op": "snapshot", "label": "woken"}]
    steps += q(names[0], "BEGIN /*x*/", "extra", 2000)          # one client more than the pool has room for: must be refused
    steps += [{"op": "sleep", "ms": 30}, {"op": "snapshot", "label": "full"}]
    for i in range(ps):
        steps += q(names[1 + i], "COMMIT /*c%d*/" % i, "c%d" % i)
    steps += q(names[0], "BEGIN /*y*/", "again") + q(names[0], "COMMIT /*z*/", "done") + [{"op": "sleep", "ms": 80}, {"op": "snapshot", "label": "end"}]
    return {"backends": [{"name": "b0"}], "toml": toml(), "workers": 2, "steps": steps, "pool_size": ps}


def check_reload_world(scn, res):
    ps = scn["pool_size"]
    if "harness_error" in res or "start_error" in res:
        return [("harness", str(res)[:300])], {}
    rep = {e["label"]: classify(e["frames"], e["outcome"]) for e in res.get("events", []) if e.get("ev") == "recv" and e.get("label")}
    snaps = {s["label"]: s for s in res.get("snapshots", [])}
    info = {"replies": rep}
    probs = []
    if not snaps.get("parked", {}).get("pools") or not snaps["parked"]["pools"][0]["paused"]:
        probs.append(("harness", "reload world: the pool was not paused when the clients arrived"))
    for i in range(ps):
        if rep.get("p%d" % i) != "begin_ok":
            probs.append(("monitor-capacity", "PAUSE/RELOAD/RESUME: parked client %d was not served after RESUME: %s" % (i, rep.get("p%d" % i))))
    for lab in ("woken", "full", "end"):
        s = snaps.get(lab)
        if not s:
            probs.append(("harness", "reload world: snapshot %s missing" % lab)); continue
        open_ = s["backends"]["b0"]["open"]
        intxn = [o for o in open_ if o["s"]["state"]["txn"] in ("T", "E")]
        info[lab] = {"open": len(open_), "in_txn": len(intxn), "pools": [(x["connections"], x["idle"]) for p_ in s["pools"] for x in p_["servers"]]}
        if len(intxn) > ps:
            probs.append(("monitor-bound", "PAUSE/RELOAD/RESUME, %s: %d server sessions are inside a transaction at once, pool_size is %d (a client works on a pool object that was replaced)" % (lab, len(intxn), ps)))
        if lab in ("full", "end") and len(open_) > ps:
            probs.append(("monitor-bound", "PAUSE/RELOAD/RESUME, %s: %d live server sessions for one (pool, user), pool_size is %d" % (lab, len(open_), ps)))
    if rep.get("extra") != "pool_error":
        probs.append(("monitor-bound", "PAUSE/RELOAD/RESUME: with %d transactions open on a pool of %d a further BEGIN got %s instead of a pool error" % (ps, ps, rep.get("extra"))))
    if rep.get("again") != "begin_ok" or rep.get("done") != "commit_ok":
        probs.append(("monitor-capacity", "PAUSE/RELOAD/RESUME: capacity not back after the commits: %s / %s" % (rep.get("again"), rep.get("done"))))
    e = snaps.get("end")
    if e and any(x["connections"] != x["idle"] for p_ in e["pools"] for x in p_["servers"]):
        probs.append(("monitor-leak", "PAUSE/RELOAD/RESUME: connections still in use at the end"))
    return probs, info


# ------------------------------------------------------------------ waiters are served or refused within the configured connect_timeout
# connect_timeout / idle_timeout / server_lifetime can each be set in [general], in the pool section and at the user; the most specific
# level wins (pool.rs from_config).  Nine pairwise distinct values, so that a field read from the wrong level or the wrong setting
# shows as a wrong time-to-refusal.  "long" flavour: idle/lifetime far above connect_timeout (a swap delays the refusal);
# "short" flavour: idle/lifetime below connect_timeout (a swap refuses waiters early; and the settings themselves must not).
TIMEOUT_VALUES = {"connect_timeout": {"g": 700, "p": 450, "u": 250},
                  "long": {"idle_timeout": {"g": 5000, "p": 4000, "u": 3000}, "server_lifetime": {"g": 9000, "p": 8000, "u": 7000}},
                  "short": {"idle_timeout": {"g": 190, "p": 160, "u": 130}, "server_lifetime": {"g": 200, "p": 170, "u": 140}}}
PLACEMENTS = ("g", "gp", "gu", "gpu")       # where a setting is written: always in [general], optionally in the pool, optionally at the user


def selected(vals, placement):
    """the value the precedence rule user > pool > general selects"""
    return vals["u"] if "u" in placement else (vals["p"] if "p" in placement else vals["g"])


def timeout_world(flavour, pl_ct, pl_idle, pl_life):
    vals = {"connect_timeout": TIMEOUT_VALUES["connect_timeout"], "idle_timeout": TIMEOUT_VALUES[flavour]["idle_timeout"],
            "server_lifetime": TIMEOUT_VALUES[flavour]["server_lifetime"]}
    place = {"connect_timeout": pl_ct, "idle_timeout": pl_idle, "server_lifetime": pl_life}
    general, opts, user = {}, {"pool_mode": "transaction"}, {"pool_size": 1}
    for k in vals:
        general[k] = vals[k]["g"]
        if "p" in place[k]:
            opts[k] = vals[k]["p"]
        if "u" in place[k]:
            user[k] = vals[k]["u"]
    toml = W.make_toml(general, {"p": {"opts": opts, "users": [user], "shards": [{"servers": [["b0", "primary"]]}]}})
    T = selected(vals["connect_timeout"], pl_ct)
    def conn(c):
        return {"op": "connect", "c": c, "params": {"user": "u", "database": "p", "application_name": c}, "password": "pw"}
    def q(c, sql, lab, to=3000):
        return [{"op": "send", "c": c, "msgs": [{"t": "Q", "sql": sql, "label": lab}]}, {"op": "recv", "c": c, "until": "Z", "timeout_ms": to, "label": lab}]
    steps = [conn("c0"), conn("c1")] + q("c0", "BEGIN /*hold*/", "hold")
    steps += q("c1", "SELECT 1 /*refused*/", "refused", T + 1500)                       # nothing is released: told after connect_timeout
    steps += [{"op": "spawn", "task": "w", "steps": q("c1", "SELECT 1 /*served*/", "served", T + 1500)},
              {"op": "wait_waiting", "n": 1, "timeout_ms": 1000}, {"op": "sleep", "ms": int(T * 0.6)}]
    steps += q("c0", "COMMIT /*release*/", "release") + [{"op": "join", "task": "w", "timeout_ms": T + 2000}]   # released within connect_timeout: served
    steps += q("c1", "SELECT 1 /*after*/", "after") + [{"op": "sleep", "ms": 30}, {"op": "snapshot", "label": "end"}]
    return {"backends": [{"name": "b0"}], "toml": toml, "workers": 2, "timing": True, "steps": steps,
            "meta": {"flavour": flavour, "placement": place, "connect_timeout_selected": T,
                     "idle_timeout_selected": selected(vals["idle_timeout"], pl_idle), "server_lifetime_selected": selected(vals["server_lifetime"], pl_life)}}


def timeout_worlds(quick, rng):
    out = []
    for fl in ("long", "short"):
        combos = [(a, b, c) for a in PLACEMENTS for b in PLACEMENTS for c in PLACEMENTS]
        if quick:
            # every connect_timeout placement x every idle_timeout placement; the server_lifetime placement rotates; plus a seeded few of the rest
            base = [(a, b, PLACEMENTS[(i + j) % 4]) for i, a in enumerate(PLACEMENTS) for j, b in enumerate(PLACEMENTS)]
            rest = [x for x in combos if x not in base]
            combos = base + rng.sample(rest, 4)
        out += [timeout_world(fl, *x) for x in combos]
    return out


def check_timeout_world(scn, res):
    m = scn["meta"]
    T = m["connect_timeout_selected"]
    if "harness_error" in res or "start_error" in res:
        return [("harness", str(res)[:300])], {}
    sent, got = {}, {}
    for e in res.get("events", []):
        if e.get("ev") == "sent" and e.get("msgs") and e["msgs"][0].get("label"):
            sent[e["msgs"][0]["label"]] = e.get("t_us", 0)
        elif e.get("ev") == "recv" and e.get("label"):
            got[e["label"]] = (classify(e["frames"], e["outcome"]), e.get("t_us", 0))
    where = "connect_timeout %s, idle_timeout %s, server_lifetime %s (%s values)" % (m["placement"]["connect_timeout"], m["placement"]["idle_timeout"], m["placement"]["server_lifetime"], m["flavour"])
    probs = []
    if got.get("hold", ("",))[0] != "begin_ok":
        return [("harness", "timeout world: the holder's BEGIN failed: %s" % (got.get("hold"),))], {}
    cls, t1 = got.get("refused", ("missing", 0))
    dt = (t1 - sent.get("refused", 0)) / 1000.0
    info = {"T": T, "refused_after_ms": round(dt), "refused": cls, "served": got.get("served", ("missing",))[0]}
    lo, hi = 0.85 * T, T + 600
    if cls != "pool_error":
        probs.append(("monitor-timeout", "settings at [%s]: a client beyond capacity got %s instead of the pool error within connect_timeout %d ms (+600): neither served nor told" % (where, cls, T)))
    elif not (lo <= dt <= hi):
        probs.append(("monitor-timeout", "settings at [%s]: the pool error came after %d ms; the precedence rule (user > pool > general) selects connect_timeout = %d ms "
                                         "(idle_timeout %d, server_lifetime %d)" % (where, dt, T, m["idle_timeout_selected"], m["server_lifetime_selected"])))
    if got.get("served", ("missing",))[0] != "row":
        probs.append(("monitor-timeout", "settings at [%s]: a waiter whose connection was released after %d ms (connect_timeout %d ms) got %s instead of being served" % (where, int(T * 0.6), T, got.get("served", ("missing",))[0])))
    if got.get("after", ("missing",))[0] != "row":
        probs.append(("monitor-capacity", "settings at [%s]: the client is not usable after the refusal: %s" % (where, got.get("after", ("missing",))[0])))
    for s_ in res.get("snapshots", []):
        srv = s_["pools"][0]["servers"][0]
        if srv["connections"] > 1 or srv["connections"] != srv["idle"] or s_["backends"]["b0"]["max_open_settled"] > 1:
            probs.append(("monitor-bound", "settings at [%s]: end: connections %d idle %d, settled backend sessions %d (pool_size 1)" % (where, srv["connections"], srv["idle"], s_["backends"]["b0"]["max_open_settled"])))
    return probs, info


# ------------------------------------------------------------------ static anchors
def anchors():
    """the structural facts of /repo the model was written from; returns list of problems"""
    bad = []
    try:
        cl = open(os.path.join(vlib.REPO, "src", "client.rs")).read()
        po = open(os.path.join(vlib.REPO, "src", "pool.rs")).read()
    except OSError as e:
        return ["cannot read source: %s" % e]
    if not re.search(r"\.max_size\(\s*user\.pool_size\s*\)", po):
        bad.append("pool.rs: Pool::builder() no longer has .max_size(user.pool_size)")
    hb = re.search(r"fn has_broken\(.*?\n    \}\n", po, re.S)
    if not hb or "is_unclean()" not in hb.group(0) or "is_bad()" not in hb.group(0):
        bad.append("pool.rs: has_broken no longer consults is_bad() and is_unclean()")
    if "let mut reference = connection.0;" not in cl:
        bad.append("client.rs: the checked-out guard is no longer the local `let mut reference = connection.0;`")
    for pat in ("mem::forget", "ManuallyDrop", "Box::leak", ".leak()"):
        if pat in cl:
            bad.append("client.rs: %s appears (a guard could outlive its task)" % pat)
    a, b = cl.find("// Check on plugin results."), cl.find("pool.wait_paused().await;")
    if not (0 < a < b and "PluginOutput::Intercept" in cl[a:b] and "continue;" in cl[a:b]):
        bad.append("client.rs: an Intercept verdict stored at Parse is no longer answered before wait_paused()/the checkout (F14 repair a7d476c)")
    i = cl.find("let mut reference = connection.0;")
    j = cl.find("Releasing server back into the pool", i)
    if i > 0 and j > i:
        n = len(re.findall(r"\bcontinue;", cl[i:j]))
        if n != 7:
            bad.append("client.rs: %d `continue;` inside the transaction loop (the model knows 7: Deny and Intercept at Q, Sync during COPY, Deny and Intercept at S, "
                       "one in the buffer drain, CopyDone/CopyFail outside COPY inside a transaction) — each is a way to stay in the loop holding the server" % n)
    return bad


# ------------------------------------------------------------------ soak (thorough tier)
def soak_scenario(rng, ps, seconds, nclients=32):
    toml = make_toml({"pool_size": ps, "session": False, "fifo": rng.random() < 0.5, "connect_timeout": 1000, "plugin": False})
    steps = []
    tasks = []
    for c in range(nclients):
        nm = "k%d" % c
        st = [{"op": "connect", "c": nm, "params": {"user": "u", "database": "p", "application_name": nm}, "password": "pw"}]
        t = 0
        i = 0
        while t < seconds * 1000:
            i += 1
            r = rng.random()
            tag = "/*s%d_%d*/" % (c, i)
            if r < 0.55:
                st += [{"op": "send", "c": nm, "msgs": [{"t": "Q", "sql": "BEGIN " + tag}]}, {"op": "recv", "c": nm, "until": "Z", "timeout_ms": 2500},
                       {"op": "send", "c": nm, "msgs": [{"t": "Q", "sql": "SELECT 1 " + tag}]}, {"op": "recv", "c": nm, "until": "Z", "timeout_ms": 2500},
                       {"op": "sleep", "ms": rng.randint(0, 15)},
                       {"op": "send", "c": nm, "msgs": [{"t": "Q", "sql": "COMMIT " + tag}]}, {"op": "recv", "c": nm, "until": "Z", "timeout_ms": 2500}]
                t += 60
            elif r < 0.7:
                st += [{"op": "send", "c": nm, "msgs": [{"t": "Q", "sql": "SELECT 1 " + tag}]}, {"op": "recv", "c": nm, "until": "Z", "timeout_ms": 2500}]
                t += 25
            else:
                # abort at a random point: before / inside a transaction / while (possibly) waiting / malformed Close
                k = rng.choice(["idle", "txn", "waiting", "badclose", "txn"])
                if k == "txn":
                    st += [{"op": "send", "c": nm, "msgs": [{"t": "Q", "sql": "BEGIN " + tag}]}, {"op": "recv", "c": nm, "until": "Z", "timeout_ms": 2500}]
                elif k == "waiting":
                    st += [{"op": "send", "c": nm, "msgs": [{"t": "Q", "sql": "BEGIN " + tag}]}, {"op": "sleep", "ms": rng.randint(0, 30)}]
                elif k == "badclose":
                    st += [{"op": "send", "c": nm, "msgs": [{"t": "Q", "sql": "BEGIN " + tag}]}, {"op": "recv", "c": nm, "until": "Z", "timeout_ms": 2500},
                           {"op": "send", "c": nm, "msgs": [{"raw": "43" + "00000005" + "53"}]}, {"op": "sleep", "ms": 10}]
                st += [{"op": "close", "c": nm}, {"op": "sleep", "ms": rng.randint(0, 20)},
                       {"op": "connect", "c": nm, "params": {"user": "u", "database": "p", "application_name": nm}, "password": "pw"}]
                t += 70
        st += [{"op": "close", "c": nm}]
        steps.append({"op": "spawn", "task": "T" + nm, "steps": st})
        tasks.append("T" + nm)
    for k in range(int(seconds * 4)):
        steps += [{"op": "sleep", "ms": 250}, {"op": "snapshot", "label": "m%d" % k}]
    for tk in tasks:
        steps.append({"op": "join", "task": tk, "timeout_ms": 60000})
    steps += [{"op": "sleep", "ms": 1500}, {"op": "wait_inuse", "n": 0, "timeout_ms": 5000}, {"op": "sleep", "ms": 100}, {"op": "snapshot", "label": "quiet"}]
    for c in range(ps):
        nm = "p%d" % c
        steps += [{"op": "connect", "c": nm, "params": {"user": "u", "database": "p", "application_name": nm}, "password": "pw"},
                  {"op": "send", "c": nm, "msgs": [{"t": "Q", "sql": "BEGIN /*probe%d*/" % c}]}, {"op": "recv", "c": nm, "until": "Z", "timeout_ms": 1500, "label": "probe%d" % c}]
    steps += [{"op": "sleep", "ms": 50}, {"op": "snapshot", "label": "probe"}]
    return {"backends": [{"name": "b0"}], "toml": toml, "workers": 4, "steps": steps, "pool_size": ps}


def check_soak(scn, res):
    ps = scn["pool_size"]
    probs = []
    if "harness_error" in res or "start_error" in res:
        return [("harness", str(res))], {}
    stats = {"snapshots": 0, "max_inuse": 0, "max_open_instant": 0, "tasks": 0}
    for s in res.get("snapshots", []):
        srv = s["pools"][0]["servers"][0]
        be = s["backends"]["b0"]
        stats["snapshots"] += 1
        stats["max_inuse"] = max(stats["max_inuse"], srv["connections"] - srv["idle"])
        stats["max_open_instant"] = max(stats["max_open_instant"], be["max_open"])
        stats["tasks"] = len(s["task_results"])
        if srv["connections"] > ps:
            probs.append(("monitor-bound", "%s: bb8 connections %d > pool_size %d" % (s["label"], srv["connections"], ps)))
        if be["max_open_settled"] > ps:
            probs.append(("monitor-bound", "%s: %d backend sessions persisted > pool_size %d" % (s["label"], be["max_open_settled"], ps)))
        if s["label"] == "quiet" and srv["connections"] != srv["idle"]:
            probs.append(("monitor-leak", "after the soak: %d of %d connections still in use with no client left" % (srv["connections"] - srv["idle"], srv["connections"])))
        if s["label"] == "probe" and srv["connections"] - srv["idle"] != ps:
            probs.append(("monitor-capacity", "after the soak: only %d of %d probe transactions hold a connection" % (srv["connections"] - srv["idle"], ps)))
    tr = res.get("task_results", [])
    stats["client_tasks_ended"] = len(tr)
    stats["client_tasks_panicked"] = sum(1 for x in tr if x == "panic")
    stats["backend_connections_opened"] = sum(1 for e in res.get("events", []) if e.get("who") == "b0" and e.get("ev") == "open")
    stats["pool_errors_seen_by_clients"] = sum(1 for e in res.get("events", []) if e.get("ev") == "recv" and any(
        f.get("t") == "E" and f.get("fields", {}).get("M", "").startswith("could not get connection") for f in e.get("frames", [])))
    for e in res.get("events", []):
        if e.get("ev") == "recv" and str(e.get("label", "")).startswith("probe"):
            if classify(e["frames"], e["outcome"]) != "begin_ok":
                probs.append(("monitor-capacity", "after the soak: probe %s got %s" % (e["label"], classify(e["frames"], e["outcome"]))))
    return probs, stats


# ------------------------------------------------------------------ check
def f14_status():
    for e in vlib.known_findings("C04"):
        if e.get("id") == F14_KEY:
            return e.get("status", "known")
    return None


def check(run):
    quick = run.tier == "quick"
    run.assumptions += [
        "Coq 8.16.1 kernel + vm_compute; no axioms (Print Assumptions: closed under the global context for all 11 theorems; c04_no_idle_hold is stated for the code that exists (f14_mutant = false), the pre-a7d476c code is the mutant op InterceptHold with c04_no_idle_hold_mutant_refuted)",
        "bb8 0.8.6 (inner.rs get/put_back/add_connection, internals.rs PoolInternals/approvals/Getting) behaves as coq/PoolCap/Model.v's environment model: exercised, not proved",
        "tokio 1.29.1 Notify: FIFO wait list, one stored permit, notification passed on when a notified waiter is dropped; tokio::time::timeout polls the inner future first",
        "Rust drops the local `reference: PooledConnection` on every return / ? / unwind of Client::handle (language semantics); tokio isolates a panicking task",
        "message-granularity atomicity of the client task between two blocking points (DESIGN.md §3)",
        "harness: mock PostgreSQL backend, scripted client, in-process accept loop; python planner (mirror of the model) is cross-checked against the Coq model on every op",
    ]
    run.cov["trusted_base"] = ["coqc 8.16.1 kernel", "vm_compute", "bb8 0.8.6 internals (environment model)", "tokio 1.29.1 Notify / timeout / task panic isolation (environment model)",
                               "harness/src/{mockpg,client,pooler}.rs + bin/wire.rs", "props/c04.py (planner, trace reader, monitors)",
                               "Print Assumptions: Closed under the global context (all theorems)"]
    proof_ok, log = vlib.prove(run, COQ_FILES, "PoolCap/Props.v")
    run.log("proof ok=%s" % proof_ok)
    ok, blog, bins = vlib.cargo_build(["wire"])
    if not ok:
        run.violation("tie-broken", "wire harness does not build against /repo", {"correspondence": "wire harness build", "log": blog[-3000:]}, found_input=False)
        return
    wire = bins["wire"]

    plans = scripted_plans(run) + gen_plans(run, quick)
    run.log("planned %d scenarios, %d model ops, %d observation points" % (len(plans), sum(len(p.ops) for p in plans), sum(len(p.obs) for p in plans)))
    t0 = time.time()
    results = W.run_scenarios(wire, [scenario_of(p) for p in plans], workers=16, timeout=120)
    run.log("implementation runs done in %.1fs" % (time.time() - t0))

    coq_views = None
    if proof_ok:
        try:
            coq_views = eval_views(plans)
        except Exception as e:
            run.broken.append("coq_eval failed: %s" % str(e)[-400:])
    # the planner against the Coq model
    evals = 0
    distinct = set()
    f14_confirmed = []
    hist = {}
    samples = []
    set_valued = 0
    wh, rel = {}, {}
    soft_total = 0
    for pi, (p, res) in enumerate(zip(plans, results)):
        d = plan_dict(p)
        mv = mirror_views(p)
        views = mv
        if coq_views is not None:
            cv = coq_views[pi]
            for k, ((e1, v1), (e2, v2)) in enumerate(zip(mv, cv)):
                evals += 1
                if not e2 or canon_view(v1) != canon_view(v2):
                    run.violation("tie-broken", "python planner and Coq model disagree at op %d (%s) of a scenario: planner %s / model enabled=%s %s" % (k, p.ops[k], v1, e2, v2),
                                  {"correspondence": "props/c04.py Mirror vs PoolCap/Model.v step", "plan": d, "op_index": k}, found_input=False)
                    break
            views = cv
            run.cov["traces_validated_against_impl"] += 1
        problems, f14, info = compare(d, views, res)
        set_valued += info.get("racy_tail", 0)
        soft_total += info.get("soft_waiting_mismatch", 0)
        evals += len(p.obs)
        for a in p.actions:
            a = tuple(a) if isinstance(a, (list, tuple)) else (a,)
            key = a[0] if a[0] in ("blip", "reset", "timeout", "abandon", "rotation", "f14", "down", "failure_limit") or str(a[0]).startswith(("copy:", "release:", "reset-", "user-mode", "healthcheck", "refused-batch")) else (a[0], a[-1])
            hist[str(key)] = hist.get(str(key), 0) + 1
        for k, o in enumerate(p.ops):
            distinct.add((p.cfg["pool_size"], p.cfg["session"], p.cfg["fifo"], tuple(o[:1] + o[2:]) if len(o) > 2 else o[:1], canon_view(views[k][1])[0:2], len(views[k][1][3][0])))
        for o in p.obs:
            if o["nops"] > 0:
                vw = views[o["nops"] - 1][1]
                nw = len(vw[3][0]) + len(vw[3][1])
                wh[min(nw, 3)] = wh.get(min(nw, 3), 0) + 1
        for k, o in enumerate(p.ops):
            if o[0] in ("TxnEndRelease", "ExitHolding") and k > 0:
                prev = views[k - 1][1]
                key = ("broken" if o[-1] else "clean") + "-release-with-%s-waiters" % min(len(prev[3][0]), 2)
                rel[key] = rel.get(key, 0) + 1
        if f14:
            f14_confirmed.append((pi, f14))
        monitor_hits = [x for x in problems if x[0].startswith("monitor")]
        if problems:
            kind = "counterexample" if monitor_hits else "tie-broken"
            what = "; ".join("%s: %s" % x for x in (monitor_hits or problems)[:3])
            run.violation(kind, "pool_size %d %s mode: %s" % (p.cfg["pool_size"], "session" if p.cfg["session"] else "transaction", what),
                          {"correspondence": "PoolCap/Model.v run_views vs pgcat (wire harness)", "plan": d, "scenario": scenario_of(p), "problems": problems[:10]},
                          found_input=True)
        if len(samples) < 4 and p.actions and pi >= 6:
            samples.append({"cfg": p.cfg, "actions": [str(a) for a in p.actions][:14], "ops": [coq_op(o) for o in p.ops][:25], "final_view": str(views[-1][1])})
    # F14 (fixed): seeing it again is a violation unless known_findings still lists it as open
    if f14_confirmed:
        pi, f14 = f14_confirmed[0]
        if f14_status() == "known":
            run.known_finding(F14_TEXT, key=F14_KEY)
        else:
            run.violation("counterexample", F14_TEXT, {"plan": plan_dict(plans[pi]), "scenario": scenario_of(plans[pi]), "where": f14})
    run.cov["f14_regressions_seen"] = len(f14_confirmed)
    run.cov["f14_regression_points_checked"] = sum(1 for p in plans for o in p.obs if o.get("f14"))

    # replica-only routing, every replica banned
    bscn = ban_world_scenario()
    bres = W.run_scenario(wire, bscn, timeout=60)
    bprobs, binfo = check_ban_world(bres)
    run.cov["ban_world"] = binfo
    evals += 3
    real = [x for x in bprobs if x[0] != "harness"]
    if real:
        run.violation("counterexample", "; ".join("%s: %s" % x for x in real[:2]), {"ban_world": True, "scenario": bscn, "problems": real}, found_input=True)
    elif bprobs:
        run.broken.append("ban world did not run as scripted: %s" % (bprobs[0][1],))

    # waiters are served or refused within the configured connect_timeout, wherever the three timeouts are written
    tw = timeout_worlds(quick, run.rng)
    t0 = time.time()
    tinfo, nbad = [], 0
    for tscn, tres in zip(tw, W.run_scenarios(wire, tw, workers=16, timeout=90)):
        tprobs, ti = check_timeout_world(tscn, tres)
        evals += 4
        distinct.add(("timeouts", tscn["meta"]["flavour"]) + tuple(sorted(tscn["meta"]["placement"].items())))
        if ti:
            tinfo.append((tscn["meta"]["flavour"], tscn["meta"]["placement"]["connect_timeout"], ti["T"], ti["refused_after_ms"]))
        real = [x for x in tprobs if x[0] != "harness"]
        if real:
            nbad += 1
            if nbad <= 3:
                run.violation("counterexample", "; ".join("%s: %s" % x for x in real[:2]), {"timeout_world": True, "scenario": tscn, "problems": real}, found_input=True)
        elif tprobs:
            run.broken.append("timeout world did not run as scripted: %s" % (tprobs[0][1],))
    run.log("timeout-placement worlds: %d in %.1fs, %d failing" % (len(tw), time.time() - t0, nbad))
    over = [r - T for _, _, T, r in tinfo]
    run.cov["timeout_worlds"] = {"worlds": len(tw), "failing": nbad, "refusal_minus_selected_connect_timeout_ms": {"min": min(over) if over else None, "max": max(over) if over else None},
                                 "samples": tinfo[:6]}

    # the bound across PAUSE / RELOAD / RESUME
    rscns = [reload_world_scenario(True, 1), reload_world_scenario(False, 1), reload_world_scenario(True, 2)]
    rinfo = []
    for rscn, rres in zip(rscns, W.run_scenarios(wire, rscns, workers=3, timeout=90)):
        rprobs, ri = check_reload_world(rscn, rres)
        rinfo.append(ri)
        evals += 6
        real = [x for x in rprobs if x[0] != "harness"]
        if real:
            run.violation("counterexample", "; ".join("%s: %s" % x for x in real[:2]), {"reload_world": True, "scenario": rscn, "problems": real}, found_input=True)
        elif rprobs:
            run.broken.append("reload world did not run as scripted: %s" % (rprobs[0][1],))
    run.cov["reload_worlds"] = rinfo

    # soak
    soak_stats = []
    if not quick and not run.violations:
        # 8 s of scripted client time per client = 25-30 s wall (32 clients compete for 1-4 connections)
        scns = [soak_scenario(run.rng, ps, 8) for ps in (1, 2, 3, 4)]
        t0 = time.time()
        sres = W.run_scenarios(wire, scns, workers=4, timeout=240)
        run.log("soak done in %.1fs" % (time.time() - t0))
        for scn, res in zip(scns, sres):
            pr = check_soak(scn, res)
            probs, stats = pr if isinstance(pr, tuple) else (pr, {})
            stats["pool_size"] = scn["pool_size"]
            stats["wall_s_all_four"] = round(time.time() - t0, 1)
            soak_stats.append(stats)
            evals += stats.get("snapshots", 0)
            if probs:
                run.violation("counterexample", "soak, pool_size %d: %s" % (scn["pool_size"], "; ".join("%s: %s" % x for x in probs[:3])),
                              {"soak": True, "pool_size": scn["pool_size"], "scenario": scn, "problems": probs[:10]}, found_input=True)
        run.cov["soak"] = soak_stats

    # static anchors (the exits the model was written from)
    abad = anchors()
    run.cov["anchors_checked"] = 6
    if abad and not run.violations:
        run.violation("tie-broken", "the code the model was written from changed shape: " + "; ".join(abad) + " — no failing history found by the monitors",
                      {"correspondence": "source anchors of PoolCap/Model.v", "anchors": abad}, found_input=False)

    run.cov["evaluations"] = evals
    run.cov["distinct_nontrivial"] = len(distinct)
    run.cov["set_valued_observations"] = set_valued
    run.cov["soft_waiting_mismatches_ignored"] = soft_total
    run.cov["observation_points_by_waiters"] = {("%d%s" % (k, "+" if k == 3 else "")): v for k, v in sorted(wh.items())}
    run.cov["releases"] = rel
    run.cov["scenarios"] = len(plans)
    run.cov["model_ops"] = sum(len(p.ops) for p in plans)
    run.cov["observation_points"] = sum(len(p.obs) for p in plans)
    run.cov["rule"] = ("scenarios = 36 scripted corner cases (wait-list rotation on a closed connection under LIFO and FIFO, the F14 regression case with pool 1 and 2, extended-protocol batches refused at checkout (pool exhausted, server refusing connections) followed by further batches and queries of the same client (cache on/off), idle server connections reset by the database host (TCP RST) with pool 1 and 2, user-level pool_mode overriding the pool's in both directions (3 clients taking turns on a pool of 1), a health check that times out at checkout (healthcheck_delay 0, healthcheck_timeout 250, `;` answered after 600 ms), COPY FROM STDIN ended by CopyDone / CopyFail / a server error x statement cache on/off with a waiter, COPY TO STDOUT (small, > 8196 bytes) / lone Sync / named Close / named Parse (cache hit) with a waiter, checkout_failure_limit, backend refusing connections + connect timeout + recovery) "
                       "+ seeded random walks over {pool_size 1,2,3} x {transaction, session} x {LIFO, FIFO} x {connect_timeout 6000 ms, 300 ms}, up to 2*pool_size+1 clients, "
                       "actions chosen among those the model allows in the current state (BEGIN / single statement / COPY FROM STDIN (then CopyDone, CopyFail, socket close; the server may abort it) / COPY TO STDOUT / extended-protocol batch Parse-Bind-Execute-Sync outside and inside a transaction / lone Sync / Close+Sync / Parse+Sync, statement cache on in 40% of the worlds, user-level pool_mode set in 45% of the worlds (35% contradicting the pool's) / statement error / intercepted batch / COMMIT / statement inside a transaction / "
                       "socket close idle, inside a transaction, while waiting / Terminate / malformed Close / server closes mid-query / server closes after half a reply / statement timeout / backend blip (refuse + graceful close) / abortive reset of every server connection / waiter timeout); "
                       "backend-side monitor on every scenario: a statement refused at checkout never reaches the backend, an accepted one exactly once; plus three PAUSE -> clients arrive -> RELOAD (pool replaced / kept) -> RESUME worlds with the bound counted over all live backend sessions; plus one replica-only world (default_role replica, every replica banned, must be reopened at the next checkout); every scenario ends with everybody leaving and a probe of pool_size simultaneous transactions.  evaluations = model ops compared planner-vs-Coq + observation points compared Coq-vs-pgcat; "
                       "distinct = distinct (pool_size, mode, strategy, op kind, (connections, pending) after the op, waiters) tuples")
    run.cov["samples"] = samples
    run.cov["input_distribution"] = hist
    if not proof_ok and not run.violations and not run.broken:
        run.violation("proof-broken", "PoolCap/Props.v no longer checks; the monitors found no failing history", {"theorem": "PoolCap/Props.v", "coq_log": log[-2500:]}, found_input=False)
    if not quick and proof_ok:
        vlib.coqchk(run, ["PV.PoolCap.Props"])


def replay(run, path):
    r = json.load(open(path))
    print(json.dumps({k: r[k] for k in r if k not in ("scenario", "plan")}, indent=1)[:2500])
    ok, blog, bins = vlib.cargo_build(["wire"])
    if not ok:
        print("harness does not build"); return 2
    if r.get("timeout_world"):
        probs, info = check_timeout_world(r["scenario"], W.run_scenario(bins["wire"], r["scenario"], timeout=90))
        print("replay (timeout placement world):", probs, info)
        return 1 if probs else 0
    if r.get("reload_world"):
        probs, info = check_reload_world(r["scenario"], W.run_scenario(bins["wire"], r["scenario"], timeout=90))
        print("replay (reload world):", probs, info)
        return 1 if probs else 0
    if r.get("ban_world"):
        probs, info = check_ban_world(W.run_scenario(bins["wire"], r["scenario"], timeout=60))
        print("replay (ban world):", probs, info)
        return 1 if probs else 0
    if r.get("soak"):
        res = W.run_scenario(bins["wire"], r["scenario"], timeout=240)
        probs, stats = check_soak(r["scenario"], res)
        print("replay (soak):", probs[:5], stats)
        return 1 if probs else 0
    if "scenario" not in r or "plan" not in r:
        print("nothing to re-run (static finding)"); return 0
    d = r["plan"]
    res = W.run_scenario(bins["wire"], r["scenario"], timeout=120)
    m = Mirror(d["cfg"]["pool_size"], d["cfg"].get("min_idle", 0), d["cfg"]["fifo"], d["cfg"]["session"])
    views = []
    for o in d["ops"]:
        en = m.step(tuple(o))
        views.append((en, m.view(list(range(d["nclients"])))))
    d["replies"] = [tuple(x) for x in d["replies"]]
    problems, f14, info = compare(d, views, res)
    print("replay: problems =", problems[:8], "f14 =", f14[:3])
    return 1 if (problems or (r.get("where") and f14)) else 0
