"""Drive harness/src/bin/router.rs: JSON lines in, JSON lines out, 16-way parallel."""
import json, subprocess
from concurrent.futures import ThreadPoolExecutor


def _run_chunk(router, cases):
    inp = "\n".join(json.dumps(c) for c in cases).encode() + b"\n"
    p = subprocess.run([router], input=inp, stdout=subprocess.PIPE, stderr=subprocess.PIPE, timeout=900)
    lines = p.stdout.decode().splitlines()
    if p.returncode != 0 or len(lines) != len(cases):
        raise RuntimeError("router harness failed rc=%s: got %d/%d lines; stderr: %s" % (p.returncode, len(lines), len(cases), p.stderr.decode()[-800:]))
    return [json.loads(l) for l in lines]


def run_router(router, cases, workers=16):
    if len(cases) <= 8:
        return _run_chunk(router, cases)
    size = max(1, (len(cases) + workers - 1) // workers)
    chunks = [cases[i:i + size] for i in range(0, len(cases), size)]
    with ThreadPoolExecutor(max_workers=workers) as ex:
        outs = list(ex.map(lambda ch: _run_chunk(router, ch), chunks))
    return [r for o in outs for r in o]
