"""C10 — a cancel request reaches only the requester's own running server session.

P : coq/Cancel/{Model,Proofs,Props}.v — theorems over every schedule of the atomic accesses to
    client_server_map (checkout+claim, release, 'X', the two accesses of an error exit, the lookup
    of a CancelRequest and the drop of the value that served it).
T2: wire harness.  pgcat in-process, mock PostgreSQL backends that log every CancelRequest they
    receive (pid, key, which of their sessions exist / execute what at that instant), scripted
    clients holding gated (long-running) statements, cancel requests with valid / stale / foreign /
    random keys at every timing relative to checkout and release, servers changing hands on pools
    of size 1-2, two pools on two backends whose sessions carry identical (pid, key).
    Three views of every scenario are compared:
      impl    what the backends received in the window of each cancel request;
      monitor the property's own predicate, evaluated on the trace alone (who holds which session
              is read off the tagged statements the backends saw and the ReadyForQuery status the
              clients got): the request's key must belong to the client that holds the contacted
              session at that instant, the packet must carry that session's own (pid, key) and go
              to its backend; a key whose owner holds nothing contacts nobody; a holder's key does
              contact its session;
      model   coq/Cancel/Model.v run (vm_compute in coqc) on the op sequence abstracted from the
              same trace, under Model.code_variant: outcome of every Cancel and the size of the
              map at every snapshot.
    With the schedule point `client_exit:before_drop` (/repo/src/client.rs, --cfg pgcat_verif) the
    exit window is held open: the departing client's task is parked after handle() returned and
    before the Client value is dropped while another client takes the server and the departing
    client's key is used for a cancel.
"""
import copy, json, os, random, re
import vlib
from props import wirelib as WL

COQ_FILES = ["Cancel/Model.v", "Cancel/Proofs.v", "Cancel/Props.v"]
HOOK_POINT = "client_exit:before_drop"
BAD = {
    # 'Q' whose length field is 3: read_message answers Err("Unexpected length value") -> the task ends on the
    # "client disconnected" path (inside the transaction loop: checkin_cleanup, then return Err)
    "badlen": {"raw": "5100000003"},
    # Close ('C') with body "S" and no name: Close::try_from panics (slice of an empty read_until) -> unwinding
    "panic": {"raw": "430000000553"},
    # Bind of a statement the client never parsed, statement cache on (transaction mode): error_response, return Err
    "bindunk": {"t": "B", "portal": "", "name": "nosuch", "fmts": [], "params": [], "rfmts": []},
}
KNOWN = {
    "F28": "F28-cancel-drop-removes-target-entry",
    "F13": "F13-exit-window-stale-entry",
}


# --------------------------------------------------------------------------- scenario builder

class Builder:
    """Builds the wire steps of one scenario and keeps just enough bookkeeping to emit valid
    client programs and synchronisation steps (it predicts nothing that is judged)."""

    def __init__(self, mode, psize, nclients, two_pools=False, label=""):
        self.mode, self.psize, self.two = mode, psize, two_pools
        self.label = label
        self.steps, self.actions = [], []
        self.accepted = 0      # connections accepted by pgcat so far (accept index of the next one - 1)
        self.ended = 0         # client tasks that have ended (for wait_tasks)
        self.n = 0
        self.cl = {}
        self.order = []
        self.pools = {}
        self.parked = {}       # client -> actor id
        self.randkeys = []
        self.reloads = []      # per reload: names of the backends whose existing sessions belong to a replaced pool
        self.spare = "bx"      # a backend no pool points to at the start (reload targets)
        self.uses_reload = False
        self.keys = ""         # BackendKeyData scheme of the mock backends ("" | neg | zero | min | max)
        self.real_signals = False
        self.shutting = False
        self.unsynced = 0      # refused cancel requests whose pooler task is not waited for (see cancel(refused=True))
        self.admin = None
        self._rng = random.Random(len(label) * 7919 + psize)
        pools = ["dba", "dbb"] if two_pools else ["dba"]
        for i, p in enumerate(pools):
            self.pools[p] = {"backend": "b%d" % i, "servers": ["b%d" % i], "in_use": 0, "waiter": None}
        self._initial_toml = self.toml()
        self._initial_backends = [d["backend"] for d in self.pools.values()]
        for i in range(nclients):
            self.connect("c%d" % i, pools[i % len(pools)])

    # -- config
    def toml(self):
        pools = {}
        for p, d in self.pools.items():
            servers = [[b, "primary" if i == 0 else "replica"] for i, b in enumerate(d["servers"])]
            pools[p] = {"opts": {"pool_mode": self.mode, "prepared_statements_cache_size": 16 if self.mode == "transaction" else 0}, "users": [{"pool_size": self.psize}],
                        "shards": [{"database": "db_" + p, "servers": servers}]}
        return WL.make_toml({"worker_threads": 4, "shutdown_timeout": 30000}, pools)

    def backends(self):
        return self._initial_backends + ([self.spare] if self.uses_reload else [])

    def scenario(self):
        return {"backends": [dict({"name": b}, **({"keys": self.keys} if self.keys else {})) for b in self.backends()],
                "toml": self._initial_toml, "workers": 4, "real_signals": self.real_signals,
                "steps": self.steps + [{"op": "sleep", "ms": 40}, {"op": "snapshot", "label": "end"}]}

    def meta(self):
        return {"mode": self.mode, "psize": self.psize, "two_pools": self.two, "label": self.label, "keys": self.keys, "shutdown": self.shutting,
                "clients": list(self.order), "pool_of": {c: self.cl[c]["pool"] for c in self.order},
                "accept": {c: self.cl[c]["accept"] for c in self.order}, "parked": dict(self.parked),
                "backends": self.backends(), "reloads": list(self.reloads), "actions": list(self.actions),
                "contended": getattr(self, "contended", 0)}

    # -- helpers
    def _snap(self):
        self.steps.append({"op": "snapshot", "label": "s%d" % len(self.steps)})

    def _tag(self, c):
        self.n += 1
        return "%d /*c=%s*/" % (self.n, c)

    def _free(self, pool):
        return self.pools[pool]["in_use"] < self.psize

    def _take(self, c):
        st = self.cl[c]
        if not st["holds"]:
            st["holds"] = True
            self.pools[st["pool"]]["in_use"] += 1

    def _release(self, c):
        st = self.cl[c]
        if not st["holds"]:
            return
        st["holds"] = False
        P = self.pools[st["pool"]]
        if st.get("old_pool"):
            st["old_pool"] = False     # the connection belonged to a pool that a reload replaced
            return
        P["in_use"] -= 1
        w = P["waiter"]
        if w is not None:
            P["waiter"] = None
            ws = self.cl[w]
            ws["waiting"] = False
            self._take(w)
            self.steps.append({"op": "wait_event", "ev": "msg", "contains": "gate=%s*/" % ws["running"], "timeout_ms": 6000})

    def _txn_end(self, c):
        """c just got ReadyForQuery('I') (or left): in transaction mode the server goes back."""
        st = self.cl[c]
        if self.mode == "transaction" and st["holds"] and not st["in_txn"]:
            self.steps.append({"op": "wait_csm", "of": c, "present": False, "timeout_ms": 1000})
            self._release(c)
            if self.shutting and st["alive"]:
                # back in the outer loop the client is told to go ("terminating connection due to administrator command")
                st["alive"] = False
                self.ended += 1
                self.steps.append({"op": "wait_tasks", "n": self.ended, "timeout_ms": 6000})

    # -- actions (each returns False if not applicable in the current bookkeeping state)
    def connect(self, c, pool):
        self.steps.append({"op": "connect", "c": c, "params": {"user": "u", "database": pool}, "password": "pw"})
        self.accepted += 1
        self.cl[c] = {"alive": True, "in_txn": False, "running": None, "waiting": False, "holds": False,
                      "pool": pool, "accept": self.accepted}
        self.order.append(c)

    def can(self, act, c):
        st = self.cl[c]
        P = self.pools[st["pool"]]
        idle = st["alive"] and st["running"] is None
        avail = st["holds"] or self._free(st["pool"])
        someone_waits = any(p["waiter"] is not None for p in self.pools.values())
        if act == "begin":
            return idle and not st["in_txn"] and avail
        if act == "stmt":
            return idle and avail
        if act == "long":
            return idle and (avail or P["waiter"] is None)
        if act == "finish":
            return st["alive"] and st["running"] is not None and not st["waiting"]
        if act == "commit":
            return idle and st["in_txn"]
        if act in ("term", "drop", "bad"):
            return idle and not someone_waits
        return False

    def begin(self, c):
        self.actions.append(["begin", c])
        self.steps += [{"op": "send", "c": c, "msgs": [{"t": "Q", "sql": "BEGIN /*c=%s*/" % c}]},
                       {"op": "recv", "c": c, "until": "Z", "timeout_ms": 8000}]
        self._take(c)
        self.cl[c]["in_txn"] = True
        self._snap()

    def stmt(self, c):
        self.actions.append(["stmt", c])
        self.steps += [{"op": "send", "c": c, "msgs": [{"t": "Q", "sql": "SELECT " + self._tag(c)}]},
                       {"op": "recv", "c": c, "until": "Z", "timeout_ms": 8000}]
        self._take(c)
        self._txn_end(c)
        self._snap()

    def long(self, c):
        st = self.cl[c]
        self.n += 1
        g = "G%d" % self.n
        self.actions.append(["long", c])
        self.steps.append({"op": "send", "c": c, "msgs": [{"t": "Q", "sql": "SELECT %d /*c=%s*/ /*mock:gate=%s*/" % (self.n, c, g)}]})
        st["running"] = g
        if st["holds"] or self._free(st["pool"]):
            self._take(c)
            self.steps.append({"op": "wait_event", "ev": "msg", "contains": "gate=%s*/" % g, "timeout_ms": 6000})
        else:
            st["waiting"] = True
            self.pools[st["pool"]]["waiter"] = c
            self.steps.append({"op": "sleep", "ms": 30})
        self._snap()

    def finish(self, c):
        st = self.cl[c]
        self.actions.append(["finish", c])
        # (the statement runs wherever the pool sent it: open its gate on every backend)
        self.steps += [{"op": "backend", "b": b, "open_gate": st["running"]} for b in self.backends()[:-1]]
        self.steps += [{"op": "backend", "b": self.backends()[-1], "open_gate": st["running"]},
                       {"op": "recv", "c": c, "until": "Z", "timeout_ms": 8000}]
        st["running"] = None
        self._txn_end(c)
        self._snap()

    def commit(self, c):
        self.actions.append(["commit", c])
        self.steps += [{"op": "send", "c": c, "msgs": [{"t": "Q", "sql": "COMMIT /*c=%s*/" % c}]},
                       {"op": "recv", "c": c, "until": "Z", "timeout_ms": 8000}]
        self.cl[c]["in_txn"] = False
        self._txn_end(c)
        self._snap()

    def _exit(self, c, park):
        st = self.cl[c]
        st["alive"] = False
        st["in_txn"] = False
        if park:
            self.parked[c] = st["accept"]
            self.steps.append({"op": "hook_wait", "actor": st["accept"], "timeout_ms": 6000})
        else:
            self.ended += 1
            if self.unsynced:
                self.steps += [{"op": "wait_csm", "of": c, "present": False, "timeout_ms": 2000}, {"op": "sleep", "ms": 40}]
            else:
                self.steps.append({"op": "wait_tasks", "n": self.ended, "timeout_ms": 6000})
        self._release(c)
        self._snap()

    def term(self, c):
        self.actions.append(["term", c])
        self.steps.append({"op": "send", "c": c, "msgs": [{"t": "X"}]})
        self._exit(c, False)

    def contend(self, ms=250):
        """environment only (no model op): the map's mutex is kept busy by a foreign thread for ms milliseconds, so that
        an access that would be skipped when the mutex is busy (try_lock) shows; lock() is merely delayed"""
        self.steps.append({"op": "contend", "ms": ms})
        self.steps.append({"op": "sleep", "ms": 3})
        self.contended = getattr(self, "contended", 0) + 1

    def drop(self, c, park=False, contend=False):
        self.actions.append(["drop", c, park])
        if contend:
            self.contend()
        self.steps.append({"op": "close", "c": c})
        self._exit(c, park)

    def bad(self, c, park=False, kind="badlen", contend=False):
        if kind == "bindunk" and self.mode != "transaction":
            kind = "badlen"
        self.actions.append(["bad", c, park, kind])
        if contend:
            self.contend()
        self.steps.append({"op": "send", "c": c, "msgs": [dict(BAD[kind], bad=kind)]})
        self._exit(c, park)

    def can_reload(self):
        return not any(p["waiter"] is not None for p in self.pools.values())

    def reload(self, kind, pool="dba", via="api"):
        """kind: same (configuration unchanged) | move (the pool now points to the spare backend, or back) |
        add (a second server is added to / removed from the pool).  via: api (write_config + reload_config)
        | admin (write_config + RELOAD on the admin console) | sighup (the SIGHUP arm of main.rs)."""
        self.uses_reload = True
        P = self.pools[pool]
        old = list(P["servers"])
        if kind == "move":
            P["servers"] = [self.spare] if old != [self.spare] else [P["backend"]]
        elif kind == "add":
            P["servers"] = [old[0], self.spare if old[0] != self.spare else P["backend"]] if len(old) == 1 else [old[0]]
        changed = P["servers"] != old
        self.actions.append(["reload", kind, pool, via])
        if via == "admin" and self.admin is None:
            self.admin = "adm"
            self.steps.append({"op": "connect", "c": "adm", "params": {"user": "admin", "database": "pgcat"}, "password": "adminpw"})
            self.accepted += 1
        self.steps.append({"op": "write_config", "toml": self.toml()})
        if via == "admin":
            self.steps += [{"op": "send", "c": "adm", "msgs": [{"t": "Q", "sql": "RELOAD"}]},
                           {"op": "recv", "c": "adm", "until": "Z", "timeout_ms": 8000}]
        elif via == "sighup":
            self.steps += [{"op": "control", "sig": "hup"}, {"op": "sleep", "ms": 150}]
        else:
            self.steps.append({"op": "reload"})
        self.reloads.append(old if changed else [])
        self.steps.append({"op": "mark_events", "ev": "reload", "mark": "reloaded:%d" % (len(self.reloads) - 1)})
        if changed:
            # the pool object is new: nothing of it is in use; holders keep their old connections
            P["in_use"] = 0
            for c in self.order:
                if self.cl[c]["pool"] == pool and self.cl[c]["holds"]:
                    self.cl[c]["old_pool"] = True
        self._snap()

    def hook(self, park_clients):
        self.actions.append(["hook", list(park_clients)])
        self.steps.append({"op": "hook", "arm": True, "park": [self.cl[c]["accept"] for c in park_clients]})

    def unpark(self, c):
        self.actions.append(["unpark", c])
        self.steps.append({"op": "hook_release", "actor": self.parked[c]})
        self.ended += 1
        self.steps.append({"op": "wait_tasks", "n": self.ended, "timeout_ms": 6000})
        self._snap()

    def refuse(self, backend, on):
        """new connections to this backend are refused by the kernel (established sessions keep working) / accepted again"""
        self.actions.append(["refuse", backend, on])
        self.steps.append({"op": "backend", "b": backend, "refuse_new": bool(on)})

    def settle(self, ms=1600):
        """nothing happens for `ms`: a CancelRequest that arrives now was sent long ago (its window is judged too)"""
        self.actions.append(["settle", ms])
        self.steps += [{"op": "mark_events", "ev": "cancel", "mark": "late:%d" % len(self.steps)}, {"op": "sleep", "ms": ms}]
        if self.unsynced:
            # from here on every pooler task of a refused request has ended whatever the pooler does with it
            self.unsynced = 0
            self.steps.append({"op": "wait_tasks", "n": self.ended, "timeout_ms": 6000})
        self._snap()

    def shutdown(self, via="sig"):
        """a graceful shutdown begins: SIGINT arm of main.rs (via the harness control) or SHUTDOWN on the admin
        console (which sends SIGINT to the process: needs real_signals).  Clients that hold nothing are told to go,
        transactions in progress may finish."""
        self.actions.append(["shutdown", via])
        if via == "admin":
            self.real_signals = True
            if self.admin is None:
                self.admin = "adm"
                self.steps.append({"op": "connect", "c": "adm", "params": {"user": "admin", "database": "pgcat"}, "password": "adminpw"})
                self.accepted += 1
            self.steps += [{"op": "send", "c": "adm", "msgs": [{"t": "Q", "sql": "SHUTDOWN"}]},
                           {"op": "recv", "c": "adm", "until": "Z", "timeout_ms": 8000}]
        else:
            self.steps.append({"op": "control", "sig": "int"})
        self.shutting = True
        for c in self.order:
            st = self.cl[c]
            if st["alive"] and not st["holds"] and not st["waiting"]:
                st["alive"] = False
                self.ended += 1
        # a new client must be turned away from now on (shows that the shutdown is really in progress)
        self.steps.append({"op": "connect", "c": "probe", "params": {"user": "u", "database": "dba"}, "password": "pw", "timeout_ms": 3000})
        self.accepted += 1
        self.ended += 1
        self.steps += [{"op": "wait_tasks", "n": self.ended, "timeout_ms": 6000},
                       {"op": "mark_events", "ev": "control", "mark": "shutdown"}]
        self._snap()

    def stall(self):
        """the pooler's main loop stops reading the client accounting (drain) channel and the channel is full:
        every client task that reaches a drain.send(..).await waits there — a CancelRequest's task between
        accept and handle()"""
        self.actions.append(["stall"])
        self.steps.append({"op": "drain_stall", "on": True})

    def unstall(self, pause_ms=250):
        self.actions.append(["unstall"])
        self.steps.append({"op": "drain_stall", "on": False})
        if self.unsynced:
            self.unsynced = 0
            self.steps.append({"op": "wait_tasks", "n": self.ended, "timeout_ms": 6000})
        # whatever the released request does arrives now: its window stays open for pause_ms
        self.steps += [{"op": "wait_event", "ev": "cancel", "above_mark": "k", "count": 1, "timeout_ms": 80}, {"op": "sleep", "ms": pause_ms}]
        self._snap()

    def cancel(self, target, rng=None, refused=False, parked=False):
        """target: client name (the key issued to it) | ["pid_of", c] (right pid, wrong secret) | "random".
        refused: the server's listener is refusing connections right now (the pooler's task is not waited for:
        a pooler that retried would still be busy).  parked: the drain channel is stalled, the request's task
        waits between accept and handle() until unstall()."""
        rng = rng or self._rng
        self.actions.append(["cancel", target] + (["refused"] if refused else []) + (["parked"] if parked else []))
        self.steps.append({"op": "mark_events", "ev": "cancel", "mark": "k"})
        if refused or parked:
            self.steps.append({"op": "cancel", "c": "canceller", "of": target, "timeout_ms": 150})
            self.accepted += 1
            self.ended += 1
            self.unsynced += 1
            self.steps.append({"op": "wait_event", "ev": "cancel", "above_mark": "k", "count": 1, "timeout_ms": 60})
            self._snap()
            return
        if isinstance(target, str) and target in self.cl:
            self.steps.append({"op": "cancel", "c": "canceller", "of": target, "timeout_ms": 1000})
        else:
            i = len(self.randkeys)
            self.randkeys.append(target)
            if target == "random":
                pid, key = rng.randint(-2**31, 2**31 - 1), rng.randint(-2**31, 2**31 - 1)
                self.steps.append({"op": "cancel", "c": "canceller", "pid": pid, "key": key, "timeout_ms": 1000})
            else:
                self.steps.append({"op": "cancel", "c": "canceller", "pid_of": target[1], "key": 12345 + i, "timeout_ms": 1000})
        self.accepted += 1
        self.ended += 1
        if not self.unsynced:     # (the cancel step itself returns when the pooler closed the request's connection)
            self.steps.append({"op": "wait_tasks", "n": self.ended, "timeout_ms": 6000})
        self.steps.append({"op": "wait_event", "ev": "cancel", "above_mark": "k", "count": 1, "timeout_ms": 60})
        self._snap()

    def drain(self):
        """let every running statement finish (keeps the scenario short: no 15 s gate time-outs)."""
        for _ in range(4):
            for c in self.order:
                if self.can("finish", c):
                    self.finish(c)


# --------------------------------------------------------------------------- scenario families

def systematic(hook):
    out = []

    def mk(mode, psize, n, two=False, label=""):
        return Builder(mode, psize, n, two, label)
    for mode in ("transaction", "session"):
        for psize in (1, 2):
            for two in (False, True):
                tag = "%s/p%d/%s" % (mode[:4], psize, "2pools" if two else "1pool")
                # T1 every timing of one client's own key, other clients' keys as foreign keys
                b = mk(mode, psize, 2, two, tag + "/own-key-timings")
                b.cancel("c0"); b.cancel("random"); b.cancel(["pid_of", "c0"])
                b.long("c0"); b.cancel("c0"); b.cancel("c1"); b.cancel("c0"); b.cancel(["pid_of", "c0"])
                b.finish("c0"); b.cancel("c0")
                b.begin("c0"); b.cancel("c0"); b.stmt("c0"); b.cancel("c0"); b.long("c0"); b.cancel("c0"); b.finish("c0")
                b.commit("c0"); b.cancel("c0")
                b.stmt("c0"); b.cancel("c0")
                b.term("c0"); b.cancel("c0")
                out.append(b)
                # T2 a server changes hands between c0 and c1 (same pool when one pool)
                b = mk(mode, psize, 2 if not two else 4, two, tag + "/hand-over")
                o = "c1" if not two else "c2"          # the other client of c0's pool
                b.long("c0"); b.cancel(o); b.cancel("c0")
                if mode == "transaction" or psize == 2:
                    b.long(o)                           # waits for the pool when psize == 1
                    b.cancel(o); b.cancel("c0")
                    b.finish("c0"); b.cancel("c0"); b.cancel(o)
                    b.finish(o) if b.can("finish", o) else None
                    b.cancel(o); b.cancel("c0")
                else:
                    b.finish("c0"); b.term("c0"); b.cancel("c0")
                    b.long(o); b.cancel("c0"); b.cancel(o); b.finish(o); b.cancel(o)
                b.drain()
                out.append(b)
                # T3 error exits: socket closed / malformed message, in and outside a transaction, then reuse
                for how in ("drop", "badlen", "panic", "bindunk"):
                    if how == "bindunk" and mode != "transaction":
                        continue
                    for intxn in (True, False):
                        b = mk(mode, psize, 2 if not two else 4, two, tag + "/exit-%s-%s" % (how, "txn" if intxn else "idle"))
                        o = "c1" if not two else "c2"
                        if intxn:
                            b.begin("c0")
                        else:
                            b.stmt("c0")
                        b.cancel("c0")
                        b.drop("c0") if how == "drop" else b.bad("c0", kind=how)
                        b.cancel("c0")
                        b.long(o); b.cancel("c0"); b.cancel(o); b.finish(o); b.cancel(o); b.cancel("c0")
                        b.drain()
                        out.append(b)
    # R: a configuration reload while a statement is running (the pool moves to another backend | a server is
    # added | nothing changes; through reload_config or the admin console), cancels before and after
    for mode in ("transaction", "session"):
        for psize in (1, 2):
            for via in ("api", "admin"):
                for kind in ("move", "add", "same"):
                    if kind == "add" and psize == 1:
                        continue      # (a second server with pool_size 1 makes who-waits-where depend on the shuffle)
                    for two in ((False, True) if (via == "api" and kind == "move") else (False,)):
                        b = mk(mode, psize, 2 if not two else 4, two, "%s/p%d/%s/reload-%s-%s" % (mode[:4], psize, "2pools" if two else "1pool", kind, via))
                        o = "c1" if not two else "c2"      # the other client of c0's pool
                        b.cancel("c0")
                        b.long("c0"); b.cancel("c0")
                        if two:
                            b.long("c1"); b.cancel("c1")   # a holder in the pool that does not change
                        b.reload(kind, "dba", via)
                        b.cancel("c0"); b.cancel(o); b.cancel("c0")
                        if two:
                            b.cancel("c1")
                        b.long(o); b.cancel(o); b.cancel("c0")
                        if b.can_reload():
                            b.reload("move" if kind == "same" else kind, "dba", via)   # and once more (back) with both running
                            b.cancel("c0"); b.cancel(o)
                        b.finish("c0"); b.cancel("c0"); b.cancel(o)
                        b.stmt("c0") if b.can("stmt", "c0") else None
                        b.long("c0") if b.can("long", "c0") else None
                        b.cancel("c0"); b.cancel(o)
                        b.drain()
                        b.cancel("c0"); b.cancel(o)
                        out.append(b)
    out += refusal_family()
    out += parked_family()
    out += shutdown_family()
    # K: the standard scenarios on backends whose BackendKeyData is unusual (a pooler in front of PostgreSQL hands
    # out arbitrary i32 values): negative pid and secret, pid 0, i32::MIN / i32::MAX; equal across the two backends
    base = {b.label: b for b in out}
    for scheme in ("neg", "zero", "min", "max"):
        for lab in ("tran/p1/1pool/own-key-timings", "sess/p2/2pools/hand-over", "tran/p1/1pool/reload-move-api", "tran/p2/2pools/hand-over"):
            b = copy.deepcopy(base[lab])
            b.keys = scheme
            b.label = lab + "/keys-" + scheme
            out.append(b)
    if hook:
        for mode in ("transaction", "session"):
            for psize in (1, 2):
                for how, intxn in (("drop", True), ("drop", False), ("badlen", False), ("badlen", True), ("bindunk", True)):
                    if mode == "transaction" and not intxn:
                        continue      # nothing is held between transactions in transaction mode
                    if how == "bindunk" and mode != "transaction":
                        continue
                    for pre in ("pre", "nopre", "late"):
                        b = mk(mode, psize, 2, False, "%s/p%d/window-%s-%s-%s" % (mode[:4], psize, how, "txn" if intxn else "idle", pre))
                        if intxn:
                            b.begin("c0")
                        else:
                            b.stmt("c0")
                        if pre == "pre":
                            b.cancel("c0")    # (without it the departing key has never been used before the window)
                        b.hook(["c0"])
                        # c0's task ends on an error path and is parked between handle() returning and the drop of Client
                        b.drop("c0", park=True) if how == "drop" else b.bad("c0", park=True, kind=how)
                        if pre != "late":
                            b.cancel("c0")
                        b.long("c1"); b.cancel("c0"); b.cancel("c1"); b.cancel("c0")
                        b.unpark("c0")
                        b.cancel("c0"); b.cancel("c1")
                        b.finish("c1"); b.cancel("c1")
                        out.append(b)
    return out


def refusal_family():
    """D: the throw-away connection of the CancelRequest itself fails: the backend's listener refuses new
    connections (established sessions keep working) while the request is made; the requester's statement ends,
    another client takes the same server session, the listener comes back, and nothing happens for 1.6 s.
    No CancelRequest may arrive at a session whose current borrower is not the requester — however late."""
    out = []
    # A transaction mode, pool of 1: the session changes hands between two clients
    b = Builder("transaction", 1, 2, False, "tran/p1/refused-handover")
    b.long("c0"); b.cancel("c0"); b.refuse("b0", True); b.cancel("c0", refused=True)
    b.finish("c0"); b.long("c1"); b.refuse("b0", False); b.settle()
    b.cancel("c1"); b.cancel("c0"); b.finish("c1"); b.cancel("c1")
    out.append(b)
    # B pool of 2, both sessions open before the listener goes away, both requests refused, sessions re-dealt
    b = Builder("transaction", 2, 2, False, "tran/p2/refused-both")
    b.long("c0"); b.long("c1"); b.refuse("b0", True); b.cancel("c0", refused=True); b.cancel("c1", refused=True)
    b.finish("c0"); b.finish("c1"); b.long("c1"); b.long("c0"); b.refuse("b0", False); b.settle()
    b.cancel("c0"); b.cancel("c1"); b.drain()
    out.append(b)
    # C session mode: the requester leaves with X, the next client gets its session
    b = Builder("session", 1, 2, False, "sess/p1/refused-then-X")
    b.stmt("c0"); b.long("c0"); b.refuse("b0", True); b.cancel("c0", refused=True)
    b.finish("c0"); b.term("c0"); b.long("c1"); b.refuse("b0", False); b.settle()
    b.cancel("c0"); b.cancel("c1"); b.finish("c1")
    out.append(b)
    # D inside a transaction block
    b = Builder("transaction", 1, 2, False, "tran/p1/refused-in-txn")
    b.begin("c0"); b.long("c0"); b.refuse("b0", True); b.cancel("c0", refused=True)
    b.finish("c0"); b.commit("c0"); b.begin("c1"); b.long("c1"); b.refuse("b0", False); b.settle()
    b.cancel("c1"); b.finish("c1"); b.commit("c1"); b.cancel("c1")
    out.append(b)
    # E the requester keeps its session through the whole settle time
    b = Builder("session", 1, 2, False, "sess/p1/refused-still-holding")
    b.long("c0"); b.refuse("b0", True); b.cancel("c0", refused=True); b.refuse("b0", False); b.settle()
    b.cancel("c0"); b.finish("c0"); b.cancel("c0")
    out.append(b)
    # F two pools: only one backend refuses; the other pool's request goes through at once
    b = Builder("transaction", 1, 4, True, "tran/p1/2pools/refused-one-backend")
    b.long("c0"); b.long("c1"); b.refuse("b0", True); b.cancel("c0", refused=True); b.cancel("c1")
    b.finish("c0"); b.long("c2"); b.refuse("b0", False); b.settle()
    b.cancel("c2"); b.cancel("c1"); b.cancel("c0"); b.drain()
    out.append(b)
    return out


def shutdown_family():
    """S: a graceful shutdown (SIGINT / admin SHUTDOWN) begins while statements run: the clients whose transactions
    are allowed to finish must still be able to cancel them, exactly as without the shutdown."""
    out = []
    for via in ("sig", "admin"):
        b = Builder("transaction", 2, 3, False, "tran/p2/shutdown-%s" % via)
        b.long("c0"); b.begin("c1"); b.cancel("c0")
        b.shutdown(via)                       # c2 holds nothing: it is told to go
        b.cancel("c0"); b.cancel("c1"); b.cancel("c2"); b.cancel("c0")
        b.finish("c0")                        # c0's transaction ends: released, then told to go
        b.cancel("c0"); b.long("c1"); b.cancel("c1"); b.finish("c1"); b.cancel("c1")
        out.append(b)
        b = Builder("session", 1, 2, False, "sess/p1/shutdown-%s" % via)
        b.long("c0"); b.shutdown(via); b.cancel("c0"); b.cancel("c1"); b.cancel("c0")
        b.finish("c0"); b.cancel("c0"); b.long("c0"); b.cancel("c0"); b.finish("c0"); b.cancel("c0")
        out.append(b)
    b = Builder("transaction", 1, 4, True, "tran/p1/2pools/shutdown-sig")
    b.long("c0"); b.long("c1"); b.shutdown("sig"); b.cancel("c0"); b.cancel("c1"); b.cancel("c2")
    b.finish("c0"); b.cancel("c0"); b.cancel("c1")
    out.append(b)
    return out


def parked_family():
    """P: the CancelRequest's task is held up between accept and handle() (the accounting channel is stalled and
    full, client_entrypoint waits in drain.send(1).await) while the requester's statement ends and another
    client takes the same server session; then the task is released.  The lookup must be the one of THAT
    instant: no packet may arrive at a session whose borrower is not the requester."""
    out = []
    b = Builder("transaction", 1, 2, False, "tran/p1/parked-handover")
    b.long("c0"); b.cancel("c0"); b.stall(); b.cancel("c0", parked=True)
    b.finish("c0"); b.long("c1"); b.unstall()
    b.cancel("c1"); b.cancel("c0"); b.finish("c1"); b.cancel("c1")
    out.append(b)
    b = Builder("session", 1, 2, False, "sess/p1/parked-then-X")
    b.stmt("c0"); b.long("c0"); b.stall(); b.cancel("c0", parked=True)
    b.finish("c0"); b.term("c0"); b.long("c1"); b.unstall()
    b.cancel("c0"); b.cancel("c1"); b.finish("c1")
    out.append(b)
    b = Builder("transaction", 1, 2, False, "tran/p1/parked-in-txn")
    b.begin("c0"); b.long("c0"); b.stall(); b.cancel("c0", parked=True)
    b.finish("c0"); b.commit("c0"); b.begin("c1"); b.long("c1"); b.unstall()
    b.cancel("c1"); b.finish("c1"); b.commit("c1"); b.cancel("c1")
    out.append(b)
    # the requester still runs its statement when the task is released: the lookup of that instant finds it
    b = Builder("session", 1, 2, False, "sess/p1/parked-still-holding")
    b.long("c0"); b.stall(); b.cancel("c0", parked=True); b.unstall()
    b.cancel("c0"); b.finish("c0"); b.cancel("c0")
    out.append(b)
    # pool of 2: both sessions are re-dealt while the task waits; the requester holds A session when it is released
    b = Builder("transaction", 2, 2, False, "tran/p2/parked-redealt")
    b.long("c0"); b.long("c1"); b.stall(); b.cancel("c0", parked=True)
    b.finish("c0"); b.finish("c1"); b.long("c1"); b.long("c0"); b.unstall()
    b.cancel("c0"); b.cancel("c1"); b.drain()
    out.append(b)
    # accepted before the requester holds anything, handled while it runs a statement
    b = Builder("transaction", 1, 2, False, "tran/p1/parked-before-checkout")
    b.stall(); b.cancel("c0", parked=True); b.long("c0"); b.unstall()
    b.cancel("c0"); b.finish("c0"); b.cancel("c0")
    out.append(b)
    return out


def parked_program(rng, idx):
    """randomised variant of the parked family (thorough tier)."""
    mode = rng.choice(["transaction", "session"])
    psize = rng.choice([1, 2])
    b = Builder(mode, psize, 2, False, "random-parked#%d" % idx)
    x, y = rng.sample(["c0", "c1"], 2)
    if rng.random() < 0.5:
        b.begin(x) if rng.random() < 0.5 else b.stmt(x)
    if rng.random() < 0.8:
        b.long(x)
    if psize == 2 and rng.random() < 0.5:
        b.long(y)
    b.stall()
    b.cancel(x, parked=True)
    for _ in range(rng.randint(1, 5)):
        acts = [(a, c) for c in b.order for a in ("begin", "stmt", "long", "finish", "finish", "commit") if b.can(a, c)]
        if mode == "session":
            acts += [("term", c) for c in b.order if b.can("term", c)]
        acts = [(a, c) for a, c in acts if not (a in ("long", "begin", "stmt") and not (b.cl[c]["holds"] or b._free("dba")))]
        if not acts:
            break
        a, c = rng.choice(acts)
        getattr(b, a)(c)
    b.unstall()
    b.cancel(y); b.cancel(x)
    b.drain()
    b.cancel(x)
    return b


def refusal_program(rng, idx):
    """randomised variant of the refusal family (thorough tier)."""
    mode = rng.choice(["transaction", "session"])
    psize = rng.choice([1, 2])
    b = Builder(mode, psize, 2, False, "random-refused#%d" % idx)
    x, y = rng.sample(["c0", "c1"], 2)
    if rng.random() < 0.5:
        b.begin(x) if rng.random() < 0.5 else b.stmt(x)
    b.long(x)
    if psize == 2 and rng.random() < 0.5:
        b.long(y)
    if rng.random() < 0.5:
        b.cancel(x)
    b.refuse("b0", True)
    b.cancel(x, refused=True)
    if rng.random() < 0.3:
        b.cancel(x, refused=True)
    b.finish(x)
    if b.cl[x]["in_txn"]:
        b.commit(x)
    if mode == "session":
        b.term(x) if rng.random() < 0.5 else b.drop(x)
    if b.can("finish", y):
        b.finish(y)
    if b.can("long", y) and (b.cl[y]["holds"] or b._free("dba")) and (psize == 1 or b.cl[y]["holds"]):
        b.long(y)
    b.refuse("b0", False)
    b.settle(rng.choice([1600, 2700]))
    b.cancel(y); b.cancel(x)
    b.drain()
    b.cancel(y)
    return b


def random_program(rng, idx, big):
    mode = rng.choice(["transaction", "transaction", "session"])
    psize = rng.choice([1, 1, 2])
    two = rng.random() < 0.25
    n = rng.choice([2, 3] if not big else [2, 3, 4])
    if two:
        n = max(n, 3)
    b = Builder(mode, psize, n, two, "random#%d" % idx)
    if rng.random() < 0.3:
        b.keys = rng.choice(["neg", "zero", "min", "max"])
    length = rng.randint(8, 14) if not big else rng.randint(12, 24)
    for _ in range(length):
        if not random_step(b, rng):
            break
    b.cancel(rng.choice(b.order))
    b.drain()
    b.cancel(rng.choice(b.order))
    return b


def random_step(b, rng, favour=None):
    if rng.random() < 0.42:
        r = rng.random()
        if favour is not None and r < 0.45:
            b.cancel(favour)
        elif r < 0.8:
            b.cancel(rng.choice(b.order))
        elif r < 0.9:
            b.cancel("random", rng)
        else:
            b.cancel(["pid_of", rng.choice(b.order)])
        return True
    if rng.random() < 0.09 and b.can_reload() and not b.parked:
        pool = rng.choice(sorted(b.pools))
        kinds = ["move", "move", "same"] + (["add"] if b.psize == 2 and sum(1 for c in b.order if b.cl[c]["pool"] == pool) <= 2 else [])
        b.reload(rng.choice(kinds), pool, "admin" if rng.random() < 0.3 else "api")
        return True
    acts = [(a, c) for c in b.order for a in ("begin", "stmt", "long", "long", "finish", "finish", "commit", "term", "drop", "bad") if b.can(a, c)]
    if not acts:
        return False
    a, c = rng.choice(acts)
    if a == "bad":
        b.bad(c, kind=rng.choice(["badlen", "panic", "bindunk"]))
    else:
        getattr(b, a)(c)
    return True


def random_window_program(rng, idx, big):
    """random program in which one client's error exit is held open at the schedule point while the
    others go on (and its key keeps being used), then released."""
    mode = rng.choice(["transaction", "session"])
    b = Builder(mode, rng.choice([1, 1, 2]), rng.choice([2, 3]), False, "random-window#%d" % idx)
    for _ in range(rng.randint(1, 5)):
        random_step(b, rng)
    # make sure somebody holds a server and is idle, so that the exit is one that puts a server back
    victims = [c for c in b.order if b.can("drop", c) and b.cl[c]["holds"]]
    if not victims:
        for c in b.order:
            if b.can("begin", c) and b.can("drop", c):
                b.begin(c)
                victims = [c]
                break
    if not victims:
        return None
    v = rng.choice(victims)
    b.hook([v])
    how = rng.choice(["drop", "badlen", "bindunk"])
    # every second window program: the exit happens while a foreign thread keeps the map's mutex busy
    cont = idx % 2 == 0
    b.drop(v, park=True, contend=cont) if how == "drop" else b.bad(v, park=True, kind=how, contend=cont)
    for _ in range(rng.randint(3, 7) if not big else rng.randint(5, 12)):
        random_step(b, rng, favour=v)
    b.unpark(v)
    for _ in range(rng.randint(1, 4)):
        random_step(b, rng, favour=v)
    b.drain()
    b.cancel(v)
    return b


# --------------------------------------------------------------------------- trace analysis

def _tag_of(sql):
    m = re.search(r"/\*c=([A-Za-z0-9_]+)\*/", sql or "")
    return m.group(1) if m else None


def analyse(meta, res):
    """Abstract the trace: model ops, per-cancel observation (impl), per-cancel verdict of the
    property predicate (monitor), snapshot sizes.  Returns dict or {"error": ..}."""
    if "harness_error" in res or "start_error" in res:
        return {"error": res.get("harness_error") or res.get("start_error")}
    ev = res["events"]
    clients = meta["clients"]
    cidx = {c: i for i, c in enumerate(clients)}
    bidx = {b: i for i, b in enumerate(meta["backends"])}
    ckey = {}
    for e in ev:
        if e.get("ev") == "startup_done" and e["who"] in cidx:
            if not e.get("auth_ok"):
                return {"error": "client %s could not log in" % e["who"]}
            ckey[e["who"]] = (e["pid"], e["key"])
    sess, sid_of, tgts, ready_seq = {}, {}, [], {}
    for e in ev:
        if e.get("ev") == "ready":
            sid_of[(e["who"], e["conn"])] = len(tgts)
            ready_seq[(e["who"], e["conn"])] = e["seq"]
            sess[(e["who"], e["conn"])] = (e["pid"], e["key"])
            tgts.append((e["pid"], e["key"], bidx[e["who"]]))
    def clean_after(sk, seq):
        """did the connection survive the put_back that follows this release/exit?  It did unless the
        backend saw it close before any client's (tagged) statement arrived on it again."""
        for f in ev:
            if f["seq"] <= seq or f.get("who") != sk[0] or f.get("conn") != sk[1]:
                continue
            if f.get("ev") == "close":
                return False
            if f.get("ev") == "msg" and _tag_of((f.get("detail") or {}).get("sql")):
                return True
        return True

    mode = meta["mode"]
    holding = {c: None for c in clients}      # session key (backend, conn)
    alive = {c: True for c in clients}
    exiting = {}                               # parked client -> session it held
    skip_recv = set()
    retired_sessions = set()
    refusing = {}
    last_refused_owner = [None]
    stalled = [False]
    parked_reqs = []

    def holder_of(backend, pid, key):
        """who borrows, at this instant, the session of `backend` that carries (pid, key)"""
        for sk, pk in sess.items():
            if sk[0] == backend and pk == (pid, key):
                for c in clients:
                    if holding[c] == sk:
                        return [sk[0], sk[1], c]
                return [sk[0], sk[1], None]
        return None
    ops, cancels, problems = [], [], []
    snaps = sorted(res.get("snapshots", []), key=lambda s: s["seq"])
    snap_at, si = [], 0
    randsym = 0
    actor_client = {a: c for c, a in meta.get("parked", {}).items()}

    def sym_key(pid, key):
        nonlocal randsym
        for c, k in ckey.items():
            if k == (pid, key):
                return ("client", c), "(%d, %d)%%Z" % (100 + cidx[c], 7000 + cidx[c])
        for c, k in ckey.items():
            if k[0] == pid:
                randsym += 1
                return ("pid_of", c), "(%d, %d)%%Z" % (100 + cidx[c], randsym)
        randsym += 1
        return ("random", None), "(%d, %d)%%Z" % (5, randsym)

    def do_exit(c, seq, parked):
        sk = holding[c]
        alive[c] = False
        if sk is not None:
            ops.append("ExitDropGuard %d %s" % (cidx[c], "true" if clean_after(sk, seq) else "false"))
            holding[c] = None
            if parked:
                exiting[c] = sk
                return
        elif parked:
            exiting[c] = None
            return
        ops.append("ExitDropClient %d" % cidx[c])

    for i, e in enumerate(ev):
        while si < len(snaps) and snaps[si]["seq"] <= e["seq"]:
            snap_at.append((len(ops), snaps[si].get("csm"), snaps[si].get("label")))
            si += 1
        who, kind = e.get("who"), e.get("ev")
        if who in cidx and kind == "sent":
            for m in e.get("msgs") or []:
                if m.get("t") == "X" and alive[who]:
                    sk = holding[who]
                    alive[who] = False
                    if sk is not None:
                        ops.append("Terminate %d %s" % (cidx[who], "true" if clean_after(sk, e["seq"]) else "false"))
                        holding[who] = None
                    else:
                        ops.append("ExitDropClient %d" % cidx[who])
                elif "bad" in m and alive[who]:
                    do_exit(who, e["seq"], who in meta.get("parked", {}))
        elif who in cidx and kind == "closed_by_client" and alive[who]:
            do_exit(who, e["seq"], who in meta.get("parked", {}))
        elif kind == "hook_released":
            c = actor_client.get(e.get("actor"))
            if c is not None and c in exiting:
                ops.append("ExitDropClient %d" % cidx[c])
                del exiting[c]
        elif kind == "msg" and e.get("tag") == "Q":
            c = _tag_of((e.get("detail") or {}).get("sql"))
            if c in cidx and holding[c] is None and alive[c]:
                sk = (who, e["conn"])
                # the log order of "client d read its ReadyForQuery" and "the next holder's statement
                # reached the backend" is not causal: if d's pending ReadyForQuery('I') follows, it comes first
                for d in clients:
                    if d != c and holding[d] == sk and mode == "transaction":
                        for f in ev[i + 1:]:
                            # (d's own `sent` may be logged late too: the harness logs after the write)
                            if f.get("who") == d and f.get("ev") == "recv":
                                fr = f.get("frames") or []
                                if fr and fr[-1].get("t") == "Z" and fr[-1].get("status") == "I":
                                    ops.append("ReleaseNormal %d true" % cidx[d])
                                    holding[d] = None
                                    skip_recv.add(f["seq"])
                                break
                if sk not in sid_of:
                    problems.append("statement of %s on a session that never reported ready: %s" % (c, sk))
                    continue
                ops.append("Checkout %d %d" % (cidx[c], sid_of[sk]))
                holding[c] = sk
        elif who in cidx and kind == "recv" and e["seq"] not in skip_recv:
            fr = e.get("frames") or []
            if fr and fr[-1].get("t") == "Z" and fr[-1].get("status") == "I" and mode == "transaction" and holding[who] is not None and alive[who]:
                ops.append("ReleaseNormal %d %s" % (cidx[who], "true" if clean_after(holding[who], e["seq"]) else "false"))
                holding[who] = None
        elif kind == "mark" and str(e.get("mark", "")).startswith("reloaded:"):
            # a configuration reload has completed: the sessions of the replaced pool(s) are retired
            # (idle ones are never handed out again, borrowed ones stay with their borrower)
            old = meta["reloads"][int(e["mark"].split(":")[1])]
            retired = sorted(sid_of[sk] for sk in sid_of if sk[0] in old and ready_seq[sk] < e["seq"])
            retired_sessions.update(sk for sk in sid_of if sk[0] in old and ready_seq[sk] < e["seq"])
            ops.append("Reload [%s]" % "; ".join(str(x) for x in retired))
        elif kind == "drain_stall":
            stalled[0] = bool(e.get("on"))
            if not stalled[0]:
                # the waiting requests' tasks go on now: handle() runs, in the order they were accepted
                for k in parked_reqs:
                    k["held"] = holding.get(k["owner"][1]) if k["owner"][0] == "client" else None
                    k["held_retired"] = k["held"] is not None and k["held"] in retired_sessions
                    k["op_index"] = len(ops)
                    k["released_seq"] = e["seq"]
                    ops.append("CancelAct " + k["sym"])
                    ops.append("CancelDrop " + k["sym"])
                del parked_reqs[:]
        elif kind == "refuse_new":
            refusing[e.get("b")] = bool(e.get("on"))
        elif kind == "startup_done" and who == "probe" and e.get("auth_ok"):
            problems.append("a new client was admitted after the shutdown began (the shutdown is not in progress)")
        elif kind == "mark" and e.get("mark") == "shutdown":
            ops.append("Shutdown")
        elif kind == "mark" and str(e.get("mark", "")).startswith("late:"):
            # settle time: whatever arrives from here on (until the next request) was sent long ago
            lo = last_refused_owner[0] or ("random", None)
            cancels.append({"seq": e["seq"], "owner": lo, "sym": None, "op_index": len(ops),
                            "held": holding.get(lo[1]) if lo[0] == "client" else None,
                            "owner_exiting": False, "exiting_held": None, "prior_same_key_since_checkout": False,
                            "held_retired": False, "late": True, "events": []})
            ops.append("DeliverLate")
        elif kind == "mark" and e.get("of") == "cancel":
            # the window of the next cancel request opens here (its packets may be logged by the
            # backend before the harness logs `cancel_sent`)
            cancels.append({"seq": e["seq"], "owner": None, "events": []})
        elif kind == "cancel_sent":
            owner, sym = sym_key(e["pid"], e["key"])
            held = holding.get(owner[1]) if owner[0] == "client" else None
            if not cancels or cancels[-1]["owner"] is not None:
                cancels.append({"seq": e["seq"], "owner": None, "events": []})
            cancels[-1].update({"owner": owner, "sym": sym, "op_index": len(ops), "held": held,
                                "owner_exiting": owner[0] == "client" and owner[1] in exiting,
                                "exiting_held": exiting.get(owner[1]) if owner[0] == "client" else None,
                                "prior_same_key_since_checkout": False,
                                "held_retired": held is not None and held in retired_sessions})
            # did an earlier request with this key arrive since the owner's checkout?  (class F28)
            if owner[0] == "client" and held is not None:
                for o in reversed(ops):
                    if o.startswith("Checkout %d " % cidx[owner[1]]):
                        break
                    if o == "CancelDrop " + sym:
                        cancels[-1]["prior_same_key_since_checkout"] = True
            if stalled[0]:
                # accepted, but its task waits in drain.send(1).await: handle() (the lookup) comes at unstall
                cancels[-1]["parked"] = True
                cancels[-1]["refused"] = False
                parked_reqs.append(cancels[-1])
                ops.append("CancelAccept " + sym)
                continue
            refused = held is not None and refusing.get(held[0], False)
            cancels[-1]["refused"] = refused
            if refused:
                last_refused_owner[0] = owner
            ops.append(("CancelRefused " if refused else "Cancel ") + sym)
            ops.append("CancelDrop " + sym)
        elif kind == "cancel":
            if not cancels:
                problems.append("a backend received a CancelRequest before any was sent: %s" % e)
                continue
            cancels[-1]["events"].append({"backend": who, "pid": e["pid"], "key": e["key"], "busy": e.get("busy"), "open": e.get("open"), "seq": e["seq"],
                                          "holder_now": holder_of(who, e["pid"], e["key"])})
    while si < len(snaps):
        snap_at.append((len(ops), snaps[si].get("csm"), snaps[si].get("label")))
        si += 1
    for k in cancels:
        if k.get("parked") and any(x["seq"] < k.get("released_seq", 1 << 60) for x in k["events"]):
            problems.append("a request that should have waited between accept and handle() was served before the drain channel was released (the stall does not hold)")
        if k.get("parked") and "released_seq" not in k:
            problems.append("a parked request was never released")
    if any(k["owner"] is None for k in cancels):
        problems.append("a cancel step left no cancel_sent event")
        cancels = [k for k in cancels if k["owner"] is not None]

    # ---- monitor: the property predicate on the trace alone
    verdicts = []
    for k in cancels:
        v = []
        evs = k["events"]
        if k["held"] is None:
            if evs:
                cls = "F13" if k["owner_exiting"] else None
                hit = []
                for x in evs:
                    for (bk, cn), pk in sess.items():
                        if bk == x["backend"] and pk == (x["pid"], x["key"]):
                            hit += ["session %s/%d executing %r" % (bk, cn, sql) for bc, sql in (x.get("busy") or []) if bc == cn]
                v.append((cls, "key of %s (holds no server%s) made the pooler send CancelRequest%s to %s%s" % (
                    k["owner"], ", task in its exit window" if k["owner_exiting"] else "",
                    [(x["pid"], x["key"]) for x in evs], [x["backend"] for x in evs], (": hits " + "; ".join(hit)) if hit else "")))
        else:
            b, conn = k["held"]
            want = sess[k["held"]]
            if len(evs) == 0 and not k.get("refused") and not k.get("late"):
                v.append(("F28" if k["prior_same_key_since_checkout"] else None,
                          "%s holds session %s/%d but its key reached no backend" % (k["owner"][1], b, conn)))
            for x in evs:
                if x["backend"] != b or (x["pid"], x["key"]) != want:
                    v.append((None, "key of %s (holding %s/%d = %s) was forwarded as %s to %s" % (k["owner"][1], b, conn, want, (x["pid"], x["key"]), x["backend"])))
                for bc, sql in x.get("busy") or []:
                    if x["backend"] == b and bc == conn and _tag_of(sql) not in (None, k["owner"][1]):
                        v.append((None, "contacted session %s/%d is executing %r, not a statement of %s" % (b, conn, sql, k["owner"][1])))
            if len(evs) > 1:
                v.append((None, "one CancelRequest of %s produced %d packets" % (k["owner"][1], len(evs))))
        for x in evs:
            # at the instant the packet ARRIVES the session it names must be borrowed by the requester
            hn = x.get("holder_now")
            if hn is not None and k["owner"][0] == "client" and hn[2] != k["owner"][1]:
                v.append((None, "CancelRequest for the key of %s arrived%s at session %s/%d which is %s at that instant" % (
                    k["owner"][1], " late" if (k.get("late") or k.get("refused") or k.get("parked")) else "", hn[0], hn[1],
                    ("borrowed by " + hn[2]) if hn[2] else "borrowed by nobody")))
        for x in evs:
            # model-free sanity of every packet: it names a session of the backend that received it
            if not any(bk == x["backend"] and pk == (x["pid"], x["key"]) for (bk, _), pk in sess.items()):
                v.append((None, "backend %s received CancelRequest %s which is the key of none of its sessions (a client key forwarded?)" % (x["backend"], (x["pid"], x["key"]))))
        verdicts.append(v)

    obs = []
    for k in cancels:
        if not k["events"]:
            obs.append("Silent")
        elif len(k["events"]) == 1:
            x = k["events"][0]
            obs.append(("Contact", (x["pid"], x["key"], (0, bidx[x["backend"]]))))
        else:
            obs.append(("Many", len(k["events"])))
    return {"ops": ops, "tgts": tgts, "cancels": cancels, "verdicts": verdicts, "obs": obs, "snap_at": snap_at,
            "problems": problems, "parked_ok": all(e.get("point") == HOOK_POINT for e in ev if e.get("ev") == "hook_parked")}


def coq_expr(a):
    tg = "[" + "; ".join("(%d, %d, (0%%N, %d))%%Z" % (p, k, b) for p, k, b in a["tgts"]) + "]"
    ops = "[" + "; ".join(a["ops"]) + "]"
    return "(outcomes (env_of %s) code_variant %s, sizes (env_of %s) code_variant %s)" % (tg, ops, tg, ops)


PREAMBLE = "From PV Require Import Cancel.Model.\nFrom Coq Require Import ZArith NArith List. Import ListNotations.\nOpen Scope nat_scope."


def norm_outcome(o):
    if o == "Silent":
        return "Silent"
    if isinstance(o, tuple) and o[0] == "Contact":
        return ("Contact", o[1])
    return o


# --------------------------------------------------------------------------- judge

def judge(b_meta, scn, a, model, variant_flags):
    """Compare impl / monitor / model for one scenario.  Returns a list of issues
    (kind, what, replay dict, found_input) and a list of known-finding hits (key, text)."""
    label = b_meta["label"]
    replay = {"scenario": scn, "meta": b_meta}
    issues, known_hits = [], []
    if a.get("error"):
        return [("broken", "scenario %s did not run: %s" % (label, a["error"]), replay, False)], []
    if a["problems"]:
        return [("tie-broken", "trace of %s cannot be abstracted: %s" % (label, a["problems"][0]),
                 dict(replay, correspondence="trace abstraction", problems=a["problems"]), False)], []
    if b_meta.get("parked") and not a["parked_ok"]:
        return [("tie-broken", "scenario %s: the client task did not stop at %s" % (label, HOOK_POINT),
                 dict(replay, correspondence="schedule point " + HOOK_POINT), False)], []
    cd_removes, entry_first = variant_flags[0], variant_flags[1]
    # monitor
    for i, v in enumerate(a["verdicts"]):
        for cls, text in v:
            known = (cls == "F28" and cd_removes) or (cls == "F13" and not entry_first)
            if known and norm_outcome(model[0][i]) == norm_outcome(a["obs"][i]):
                known_hits.append((KNOWN[cls], text))
                continue
            issues.append(("counterexample", "%s, cancel #%d (%s): %s" % (label, i, a["cancels"][i]["owner"], text),
                           dict(replay, monitor=text, cancel_index=i, ops=a["ops"], impl=str(a["obs"]), model=str(model[0])), True))
    # model vs impl: outcomes
    mo = [norm_outcome(x) for x in model[0]]
    io = [norm_outcome(x) for x in a["obs"]]
    if mo != io:
        j = next((i for i in range(min(len(mo), len(io))) if mo[i] != io[i]), min(len(mo), len(io)))
        issues.append(("tie-broken", "%s: model and implementation disagree on cancel #%d: model %s, implementation %s" % (label, j, mo[j] if j < len(mo) else None, io[j] if j < len(io) else None),
                       dict(replay, correspondence="Cancel/Model.v outcomes vs CancelRequests received by the mock backends", ops=a["ops"], model=str(mo), impl=str(io)),
                       any(a["verdicts"])))
    # model vs impl: size of the map at every snapshot
    sizes = model[1]
    for nops, csm, lab in a["snap_at"]:
        want = sizes[nops - 1] if nops > 0 else 0
        if csm != want:
            issues.append(("tie-broken", "%s: client_server_map has %s entries at snapshot %s, the model has %d (after %d ops)" % (label, csm, lab, want, nops),
                           dict(replay, correspondence="Cancel/Model.v sizes vs client_server_map.len()", ops=a["ops"][:nops], model_sizes=str(sizes)), False))
            break
    return issues, known_hits


def slowed(scn, f=8):
    """the same scenario with every wait window stretched (used to re-run a scenario that showed a problem:
    the scenarios are deterministic up to scheduling delays, so a real defect shows again and a packet that
    was merely logged late does not)."""
    s = json.loads(json.dumps(scn))
    for st in s["steps"]:
        if "timeout_ms" in st:
            st["timeout_ms"] = int(st["timeout_ms"]) * f
        if st.get("op") == "sleep":
            st["ms"] = int(st.get("ms", 10)) * f
    return s


def hook_present():
    try:
        return HOOK_POINT in open(os.path.join(vlib.REPO, "src", "client.rs")).read()
    except OSError:
        return False


def evaluate(wire, metas, scns, workers):
    results = WL.run_scenarios(wire, scns, workers=workers, timeout=120)
    analyses = [analyse(m, r) for m, r in zip(metas, results)]
    good = [i for i, a in enumerate(analyses) if not a.get("error") and not a["problems"]]
    exprs = ["(cancel_drop_removes code_variant, exit_entry_first code_variant, reload_prunes code_variant, cancel_retries code_variant, lookup_at_accept code_variant, shutdown_refuses_cancel code_variant, claim_needs_positive_pid code_variant)"] + [coq_expr(analyses[i]) for i in good]
    vals = vlib.coq_eval("c10eval", PREAMBLE, exprs, shard=24)
    flags = vlib.parse_coq(vals[0])
    models = {i: vlib.parse_coq(v) for i, v in zip(good, vals[1:])}
    judged = [judge(m, s, a, models.get(i), flags) for i, (m, s, a) in enumerate(zip(metas, scns, analyses))]
    return analyses, models, judged, flags


def run_batch(run, wire, builders, stats, samples, distinct):
    scns = [b.scenario() for b in builders]
    metas = [b.meta() for b in builders]
    analyses, models, judged, flags = evaluate(wire, metas, scns, 12)
    # a scenario that shows a problem is run again, alone and with stretched waits, up to twice: it is
    # reported only if the problem shows every time (never a false alarm from a starved process)
    bad = [i for i, (iss, _) in enumerate(judged) if iss]
    for attempt in (1, 2):
        if not bad:
            break
        stats["reruns"] += len(bad)
        a2, m2, j2, _ = evaluate(wire, [metas[i] for i in bad], [slowed(scns[i], 4 * attempt) for i in bad], 4)
        still = []
        for pos, i in enumerate(bad):
            if j2[pos][0]:
                still.append(i)
                analyses[i], judged[i] = a2[pos], j2[pos]
                if pos in m2:
                    models[i] = m2[pos]
            else:
                stats["flaky"].append({"scenario": metas[i]["label"], "first_run": [x[1] for x in judged[i][0]][:3]})
                analyses[i], judged[i] = a2[pos], j2[pos]
                models[i] = m2[pos]
        bad = still
    allok = True
    for i, (m, s, a) in enumerate(zip(metas, scns, analyses)):
        issues, known_hits = judged[i]
        for key, text in known_hits:
            ent = [e for e in vlib.known_findings("C10") if e.get("id") == key and e.get("status") == "known"]
            run.known_finding((ent[0].get("line") or ent[0].get("what")) if ent else "%s: %s" % (key, text), key=key)
        for kind, what, rep, found in issues:
            allok = False
            if kind == "broken":
                run.broken.append(what)
            else:
                run.violation(kind, what, rep, found_input=found)
        if a.get("error") or a["problems"]:
            continue
        stats["monitor_flags"] += sum(len(v) for v in a["verdicts"])
        stats["snapshots"] += len(a["snap_at"])
        stats["scenarios"] += 1
        stats["cancels"] += len(a["cancels"])
        stats["contacts"] += sum(1 for o in a["obs"] if o != "Silent")
        stats["ops"] += len(a["ops"])
        stats["reload_ops"] += sum(1 for o in a["ops"] if o.startswith("Reload"))
        if m.get("keys"):
            stats["unusual_key_scenarios"] = stats.get("unusual_key_scenarios", 0) + 1
            stats["unusual_key_contacts"] = stats.get("unusual_key_contacts", 0) + sum(1 for o in a["obs"] if o != "Silent")
        if "Shutdown" in a["ops"]:
            i0 = a["ops"].index("Shutdown")
            stats["shutdown_scenarios"] = stats.get("shutdown_scenarios", 0) + 1
            stats["contacts_after_shutdown_began"] = stats.get("contacts_after_shutdown_began", 0) + sum(1 for j, k in enumerate(a["cancels"]) if k["op_index"] > i0 and a["obs"][j] != "Silent")
        stats["reload_changed"] += sum(1 for o in a["ops"] if o.startswith("Reload") and o != "Reload []")
        stats["cancels_holder_of_retired"] += sum(1 for k in a["cancels"] if k.get("held_retired"))
        stats["traces"] += 1
        if m.get("parked"):
            stats["window_scenarios"] += 1
            stats["window_scenarios_under_lock_contention"] = stats.get("window_scenarios_under_lock_contention", 0) + (1 if m.get("contended") else 0)
            stats["window_cancels"] += sum(1 for k in a["cancels"] if k["owner_exiting"])
        for j, k in enumerate(a["cancels"]):
            # a distinct case = (mode, pool size, pools, the abstract situation of the key's owner, outcome, op context)
            ctx = tuple(a["ops"][max(0, k["op_index"] - 3):k["op_index"]])
            distinct.add((m["mode"], m["psize"], m["two_pools"], m.get("keys"), k["owner"][0], k["held"] is not None, k["owner_exiting"],
                          k["prior_same_key_since_checkout"], k.get("held_retired"), k.get("late"), k.get("refused"), k.get("parked"), str(norm_outcome(a["obs"][j])) != "Silent", ctx))
            kind = ("late-window" if k.get("late") else "refused-connection" if k.get("refused") else "parked-before-handle" if k.get("parked") else "exit-window" if k["owner_exiting"] else "holder" if k["held"] is not None else k["owner"][0] if k["owner"][0] != "client" else "not-holding")
            stats["timing_classes"][kind] = stats["timing_classes"].get(kind, 0) + 1
        if len(samples) < 6 and (i % 9 == 0 or m.get("parked")) and i in models:
            samples.append({"label": m["label"], "actions": m["actions"], "ops": a["ops"], "impl": [str(o) for o in a["obs"]],
                            "model": [str(norm_outcome(o)) for o in models[i][0]]})
    return allok, flags


def check(run):
    quick = run.tier == "quick"
    rng = run.rng
    run.assumptions += [
        "Coq 8.16.1 kernel + vm_compute (witnesses, examples, evaluation of the model on the traces); no axioms (Print Assumptions: closed)",
        "coq/Cancel/Model.v is a hand-written model of the accesses to client_server_map in src/client.rs / src/server.rs (cited there line by line); the Rust text itself is not verified: the tie is the differential run below",
        "atomicity: every access to the map happens under its mutex and a checked-out Server is owned exclusively (bb8 hands out PooledConnection by value); one op = one such access",
        "drop order of Rust locals (reverse declaration order, also on panic unwinding) puts CancelEntry before the PooledConnection",
        "distinct client keys (random i32 pairs) are an explicit hypothesis of the completeness theorems",
        "mock backend (harness/src/mockpg.rs) stands for PostgreSQL: it only records CancelRequest packets, it does not interrupt statements",
        "trace abstraction in props/c10.py (who holds which session is read off tagged statements and ReadyForQuery status bytes)",
    ]
    run.cov["trusted_base"] = ["coqc 8.16.1 kernel", "vm_compute", "coq/Cancel/Model.v (hand model)", "harness: wire.rs, mockpg.rs, pooler.rs, client.rs",
                               "props/c10.py trace abstraction + monitor", "tokio/bb8 (environment)", "Print Assumptions: Closed under the global context (all theorems)"]
    proof_ok, log = vlib.prove(run, COQ_FILES, "Cancel/Props.v")
    run.log("proof ok=%s" % proof_ok)
    ok, blog, bins = vlib.cargo_build(["wire"])
    if not ok:
        run.violation("tie-broken", "harness does not build against /repo (API used by the correspondence changed)",
                      {"correspondence": "wire harness build", "log": blog[-3000:]}, found_input=False)
        return
    wire = os.environ.get("C10_WIRE") or bins["wire"]
    hook = hook_present()
    stats = {"scenarios": 0, "cancels": 0, "contacts": 0, "ops": 0, "traces": 0, "snapshots": 0, "monitor_flags": 0,
             "window_scenarios": 0, "window_cancels": 0, "timing_classes": {}, "reruns": 0, "flaky": [],
             "reload_ops": 0, "reload_changed": 0, "cancels_holder_of_retired": 0}
    samples, distinct = [], set()
    builders = systematic(hook)
    nrand = 90 if quick else 1500
    builders += [random_program(rng, i, not quick) for i in range(nrand)]
    nwin = 0
    if hook:
        wb = [random_window_program(rng, i, not quick) for i in range(16 if quick else 200)]
        wb = [b for b in wb if b is not None]
        nwin = len(wb)
        builders += wb
    if not quick:
        builders += [refusal_program(rng, i) for i in range(40)]
        builders += [parked_program(rng, i) for i in range(60)]
    if not proof_ok:
        # the model may not even compile: run the monitor alone by evaluating against a trivial model is impossible;
        # fall through to the batch (coq_eval needs Model.vo) only if Model.vo exists
        if not os.path.exists(os.path.join(vlib.COQ, "Cancel", "Model.vo")):
            run.violation("proof-broken", "coq/Cancel does not compile", {"theorem": "Cancel/Props.v", "coq_log": log[-2500:]}, found_input=False)
            return
    chunk = 160
    flags = None
    for i in range(0, len(builders), chunk):
        _, flags = run_batch(run, wire, builders[i:i + chunk], stats, samples, distinct)
        if run.violations:
            break
    run.log("scenarios=%d cancels=%d contacts=%d window_scenarios=%d" % (stats["scenarios"], stats["cancels"], stats["contacts"], stats["window_scenarios"]))
    run.cov["evaluations"] = stats["cancels"]
    run.cov["distinct_nontrivial"] = len(distinct)
    run.cov["traces_validated_against_impl"] = stats["traces"]
    run.cov["rule"] = ("systematic families (mode transaction|session x pool_size 1|2 x one pool | two pools on two backends with identical session (pid,key)): "
                       "own-key timings (before any statement, during a gated statement, twice during it, idle in transaction, between transactions, after COMMIT, after X, right pid + wrong secret, random key, other client's key), "
                       "hand-over of a server between two clients incl. cancel while waiting for the pool, error exits (socket closed | frame with length 3 | Close that panics its decoder | Bind of an unknown statement with the statement cache on; in a transaction | idle) followed by reuse of the server; configuration reloads (write_config + reload_config | admin RELOAD; pool moved to another backend | server added/removed | unchanged; one pool of two changed) while statements run, cancels before and after, next checkout on the new pool; refused cancel connections (the backend's listener refuses new connections while established sessions keep working; the requester's statement ends, another client takes the session, the listener returns, 1.6 s of settle time whose late arrivals are judged at arrival time); requests parked between accept and handle() (the drain channel is stalled and full: client_entrypoint waits in drain.send(1).await) while the session changes hands / is re-dealt / the requester keeps or only then gets a session; graceful shutdown (control SIGINT | admin SHUTDOWN) while gated statements run, cancels by the clients whose transactions may finish; the standard scenarios on backends announcing negative / zero / i32::MIN / i32::MAX BackendKeyData (equal across two backends); "
                       "%s; plus %d seeded random client programs (8-14 actions, 2-3 clients; thorough: 12-24 actions, 2-4 clients) with a cancel at ~42%% of the positions and %d random programs with one exit held open at the schedule point. "
                       "evaluations = cancel requests judged three ways (backend packets, trace monitor, Coq model); distinct = distinct (mode, pool size, pools, owner situation, outcome, 3-op context) tuples"
                       % ("exit-window schedules held open with the schedule point %s (task parked between handle() and the drop of Client, another client takes the server, cancels with the departing key before/after)" % HOOK_POINT if hook else "NO schedule point in /repo: exit-window schedules skipped", nrand, nwin))
    run.cov["samples"] = samples
    run.cov["input_distribution"] = {"scenarios": stats["scenarios"], "ops": stats["ops"], "cancel_requests": stats["cancels"], "forwarded_to_a_backend": stats["contacts"],
                                     "map_size_snapshots_compared": stats["snapshots"], "by_owner_situation": stats["timing_classes"],
                                     "reloads": stats["reload_ops"], "reloads_that_replaced_a_pool": stats["reload_changed"],
                                     "cancels_by_a_holder_of_a_replaced_pools_session": stats["cancels_holder_of_retired"],
                                     "scenarios_on_backends_with_unusual_keys": stats.get("unusual_key_scenarios", 0), "contacts_there": stats.get("unusual_key_contacts", 0),
                                     "shutdown_scenarios": stats.get("shutdown_scenarios", 0), "contacts_after_shutdown_began": stats.get("contacts_after_shutdown_began", 0),
                                     "exit_window_scenarios": stats["window_scenarios"], "exit_windows_with_the_map_mutex_kept_busy": stats.get("window_scenarios_under_lock_contention", 0), "cancels_inside_exit_window": stats["window_cancels"],
                                     "hook_point_present": hook, "scenarios_rerun_after_a_problem": stats["reruns"], "problems_not_reproduced_on_rerun": stats["flaky"][:10], "code_variant": {"cancel_drop_removes": flags[0], "exit_entry_first": flags[1], "reload_prunes": flags[2], "cancel_retries": flags[3], "lookup_at_accept": flags[4], "shutdown_refuses_cancel": flags[5], "claim_needs_positive_pid": flags[6]} if flags else None}
    run.cov["transitions"] = "model ops exercised: Checkout, ReleaseNormal, Terminate, ExitDropGuard(clean|unclean), ExitDropClient, Cancel, CancelRefused, DeliverLate, CancelAccept, CancelAct, CancelDrop, Reload, Shutdown (SrvClose is never forced by these scenarios)"
    if not proof_ok and not run.violations and not run.broken:
        run.violation("proof-broken", "coq/Cancel/Props.v no longer checks; the wire correspondence found no failing input", {"theorem": "Cancel/Props.v", "coq_log": log[-2500:]}, found_input=False)
    if not quick and proof_ok:
        vlib.coqchk(run, ["PV.Cancel.Props"])


def replay(run, path):
    r = json.load(open(path))
    print(json.dumps({k: v for k, v in r.items() if k not in ("scenario",)}, indent=1)[:4000])
    if "scenario" not in r:
        return 0
    ok, blog, bins = vlib.cargo_build(["wire"])
    wire = os.environ.get("C10_WIRE") or bins["wire"]
    res = WL.run_scenario(wire, r["scenario"], timeout=90)
    a = analyse(r["meta"], res)
    if a.get("error"):
        print("replay: scenario did not run:", a["error"])
        return 2
    vals = vlib.coq_eval("c10replay", PREAMBLE, ["(cancel_drop_removes code_variant, exit_entry_first code_variant, reload_prunes code_variant, cancel_retries code_variant, lookup_at_accept code_variant, shutdown_refuses_cancel code_variant, claim_needs_positive_pid code_variant)", coq_expr(a)])
    model = vlib.parse_coq(vals[1])
    print("ops  :", a["ops"])
    print("impl :", [str(o) for o in a["obs"]])
    print("model:", [str(norm_outcome(o)) for o in model[0]])
    bad = 0
    for i, v in enumerate(a["verdicts"]):
        for cls, text in v:
            print("monitor: cancel #%d: %s" % (i, text))
            bad += 1
    if [norm_outcome(x) for x in model[0]] != [norm_outcome(x) for x in a["obs"]]:
        print("replay: model and implementation disagree")
        bad += 1
    print("replay:", "reproduced" if bad else "not reproduced")
    return 1 if bad else 0
