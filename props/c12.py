"""C12 — a client's session parameters follow it across server connections.

P : coq/Params/{Lex,LexProofs,Model,Proofs,Props}.v  (PostgreSQL's literal lexer, quote_literal,
    the SET batch; the session model: client map / server belief / backend GUC table).
T1: TRACKED_PARAMETERS and the ServerParameters::new defaults are read from /repo/src/server.rs
    and compared with the model's constants.
T2: wire harness (pgcat in-process, mock PostgreSQL with a real GUC table and PostgreSQL's literal
    lexer, scripted clients).  Per scenario
      * monitors (model-free): the backend's tracked values at every client-tagged message equal
        what that client established; the ParameterStatus frames the client saw are the ones the
        backend wrote; every statement pgcat itself sends is `SET <tracked> TO <literal>;..`,
        `ROLLBACK` or `RESET ROLE;[RESET ALL;]`; no untracked GUC of another client is visible;
      * differential: the Coq model run on the same operations (server choice read back from
        the trace) predicts startup frames, SET batches (as sets), values at each statement,
        dirty untracked GUCs, forwarded frames and check-in cleanups.
"""
import json, os, re, struct
import vlib
from props import wirelib as W

COQ_FILES = ["Params/Lex.v", "Params/LexProofs.v", "Params/Model.v", "Params/Proofs.v", "Params/Props.v"]
TRACKED = ["client_encoding", "DateStyle", "TimeZone", "standard_conforming_strings", "application_name"]
LOWER2CANON = {k.lower(): k for k in TRACKED}
POOL_DEFAULT = {"client_encoding": "UTF8", "DateStyle": "ISO, MDY", "TimeZone": "Etc/UTC",
                "standard_conforming_strings": "on", "application_name": "pgcat"}
MOCK_STARTUP = dict(POOL_DEFAULT, IntervalStyle="postgres", server_version="14.0 (mock)", server_encoding="UTF8",
                    integer_datetimes="on", is_superuser="off")
MOCK_READONLY = [("server_version", "14.0 (mock)"), ("server_encoding", "UTF8"), ("integer_datetimes", "on"), ("is_superuser", "off")]
MOCK_SETTABLE = dict(POOL_DEFAULT, IntervalStyle="postgres")


def conn_reports(params, conn):
    """what the mock backend with `c12_params` = params reports at the startup of its connection `conn`
    (= that session's defaults and read-only parameters), as an ordered list of (name, value)"""
    d = dict(MOCK_SETTABLE)
    ro = list(MOCK_READONLY)
    layers = [params or {}, ((params or {}).get("by_conn") or {}).get(str(conn)) or {}]
    for layer in layers:
        for k, v in (layer.get("defaults") or {}).items():
            d[k] = v
        for k, v in (layer.get("readonly") or {}).items():
            for i, (n, _) in enumerate(ro):
                if n == k:
                    ro[i] = (k, v); break
            else:
                ro.append((k, v))
    return sorted(d.items()) + ro


UNTRACKED = ["statement_timeout", "search_path", "IntervalStyle", "work_mem"]
INVALID = "!invalid!"
PREAMBLE = "From PV Require Import Params.Model.\nFrom Coq Require Import NArith List String. Import ListNotations.\nOpen Scope N_scope."

# findings confirmed on the unchanged tree (ids to be listed in known_findings.jsonl)
FINDINGS = {
    "C12-D4-invalid-startup-value": "a tracked startup value the server refuses (e.g. client_encoding=LATIN9X) is accepted and told to the client; the SET batch at every checkout then fails as a whole, its ErrorResponse is ignored by sync_parameters, so NONE of the client's parameters is applied and its statements run with the previous client's application_name/TimeZone",
}
# repaired (5c1953d, 68af9b4): C12-D1-startup-latin1, C12-D2-startup-key-case, C12-D3-startup-empty-value -
# their inputs are ordinary inputs of the generator now and must pass every monitor


# ----------------------------------------------------------------------------- helpers
def cb(b):
    """bytes -> Gallina term; long values as chunked hex text (long list literals parse quadratically)"""
    if len(b) <= 200:
        return vlib.coq_bytes(b)
    h = b.hex()
    return "(" + " ++ ".join('unhex "%s"%%string' % h[i:i + 3000] for i in range(0, len(h), 3000)) + ")%list"


def pg_quote(v: bytes, style=0) -> bytes:
    """client-side literal; style 0 = like quote_literal, 1 = always E'', 2 = plain when possible"""
    body = v.replace(b"\\", b"\\\\") if (b"\\" in v or style == 1) else v
    body = body.replace(b"'", b"''")
    if b"\\" in v or style == 1:
        return b"E'" + body + b"'"
    return b"'" + body + b"'"


def lex_literal(s: bytes, scs_off: bool):
    """PostgreSQL's literal lexer (independent transcription, used by the injection monitor).
    Returns (value, rest) or None."""
    esc = scs_off
    i = 0
    if s[:1] in (b"E", b"e") and s[1:2] == b"'":
        esc, i = True, 1
    if s[i:i + 1] != b"'":
        return None
    i += 1
    out = bytearray()
    simple = {ord("b"): 8, ord("f"): 12, ord("n"): 10, ord("r"): 13, ord("t"): 9}
    while True:
        if i >= len(s):
            return None
        c = s[i]
        if c == 0x27:
            if s[i + 1:i + 2] == b"'":
                out.append(0x27); i += 2; continue
            return bytes(out), s[i + 1:]
        if esc and c == 0x5C:
            if i + 1 >= len(s):
                return None
            e = s[i + 1]
            if 0x30 <= e <= 0x37:
                j = i + 1; n = 0; k = 0
                while j < len(s) and k < 3 and 0x30 <= s[j] <= 0x37:
                    n = n * 8 + s[j] - 0x30; j += 1; k += 1
                out.append(n & 255); i = j; continue
            if e == ord("x"):
                j = i + 2; n = 0; k = 0
                while j < len(s) and k < 2 and chr(s[j]) in "0123456789abcdefABCDEF":
                    n = n * 16 + int(chr(s[j]), 16); j += 1; k += 1
                if k == 0:
                    out.append(ord("x")); i += 2
                else:
                    out.append(n); i = j
                continue
            if e in (ord("u"), ord("U")):
                return None
            out.append(simple.get(e, e)); i += 2; continue
        out.append(c); i += 1


def parse_set_batch(sql: bytes, scs_off: bool):
    """exactly  (SET <tracked key> TO <literal>;)+  -> [(key, value)] or None"""
    out = []
    rest = sql
    while rest:
        m = re.match(rb"SET ([A-Za-z_]+) TO ", rest)
        if not m or m.group(1).decode() not in TRACKED:
            return None
        r = lex_literal(rest[m.end():], scs_off)
        if r is None:
            return None
        v, rest = r
        if rest[:1] != b";":
            return None
        rest = rest[1:]
        out.append((m.group(1).decode(), v))
    return out or None


def startup_hex(pairs):
    b = struct.pack(">i", 196608)
    for k, v in pairs:
        b += k + b"\0" + v + b"\0"
    b += b"\0"
    return (struct.pack(">i", len(b) + 4) + b).hex()


# ----------------------------------------------------------------------------- generator
WORDS = [b"psql", b"my app", b"web-1", b"UTC", b"Europe/Paris", b"ISO, DMY", b"German", b"LATIN1", b"SQL_ASCII", b"x"]
NASTY = [b"it's", b"x'; DROP TABLE t; --", b"a\\b", b"back\\slash\\", b"\\", b"'", b"''", b"\\'", b"'\\", b"q\"uote\"",
         b"';SET application_name TO 'evil", b"\\'; SELECT 1; --", b"a /* b", b"a */ b", b"-- c", b"line1\nline2", b"tab\there",
         b"cr\rx", b"E'abc'", b"$$x$$", b"$t$ y $t$", b"\\u0041\\x41\\101\\n", b"%s %d", b"a;b;c", b" lead", b"trail ", b"  ",
         b"\\\\", b"''''", b"a'b\\c'd\\\\e", b"{}[]()", b"SET x TO 'y';", b"RESET ALL", b"\x7f\x01\x1f"]
NONASCII = ["café".encode(), "über".encode(), "日本語".encode(), "\U0001F600 x".encode(),
            "naïve 'q' \\ b".encode(), "é'é\\é".encode()]


def gen_value(rng, allow_empty=True, ascii_only=False, maxlen=400):
    c = rng.random()
    if c < 0.22:
        return rng.choice(WORDS)
    if c < 0.60:
        return rng.choice(NASTY)
    if c < 0.72 and not ascii_only:
        return rng.choice(NONASCII)
    if c < 0.76 and allow_empty:
        return b""
    if c < 0.82:
        n = rng.choice([60, 150, maxlen])
        alphabet = b"abc '\\\"; -/*\n" if rng.random() < 0.6 else b"xyz"
        return bytes(rng.choice(alphabet) for _ in range(n))
    n = rng.randint(1, 12)
    pool = [0x27, 0x5C, 0x22, 0x3B, 0x20, 0x2D, 0x2F, 0x2A, 0x0A, 0x61, 0x45, 0x24] + ([] if ascii_only else [0xC3, 0xA9])
    v = bytes(rng.choice(pool) for _ in range(n))
    try:
        v.decode("utf-8")
    except UnicodeDecodeError:
        v = v.replace(b"\xc3", b"c").replace(b"\xa9", b"e")
    if not v and not allow_empty:
        v = b"v"
    return v


def near_variants(rng, base: bytes):
    """values "almost equal" to base: letter case, blanks, doubled quotes, trailing controls, Unicode case pairs"""
    t = base.decode("utf-8")
    fam = [t, t.upper(), t.lower(), t.swapcase(), t.title(), " " + t, t + " ", t + "  ", t.replace(" ", "  ") if " " in t else t + " x".replace(" ", "  "),
           t.replace("'", "''") if "'" in t else t + "''", t + "\t", t + "\x01", t + "\n", t.replace("e", "é"), t.replace("é", "É"), t.replace("ss", "ß"),
           t.capitalize(), t[:-1] + t[-1:].upper(), t[:1].lower() + t[1:]]
    return rng.choice(fam).encode("utf-8")


FAMILY_BASES = [x.encode("utf-8") for x in ["Billing", "utc", "Europe/Paris", "iso, mdy", "My App's é", "latin1", "strasse cafe", "a b"]]


def spell(rng, key):
    """spellings of a GUC name in a client SET (PostgreSQL and the mock resolve them case-insensitively)"""
    return rng.choice([key, key, key.lower(), key.upper()])


def gen_backends(rng, kind):
    """two servers of one shard (primary + replica) whose reports differ: kind = "readonly" (server_version, in_hot_standby,
    is_superuser, session_authorization, server_encoding, integer_datetimes), "defaults" (session defaults of tracked GUCs and
    IntervalStyle) or "both"; with probability 0.4 also a per-connection difference (connection 2 after a minor upgrade)"""
    out = []
    versions = rng.sample(["15.3", "14.9", "16.1 (Debian 16.1-1)", "13.14"], 2)
    for i in range(2):
        ro, d = {}, {}
        if kind in ("readonly", "both"):
            ro["server_version"] = versions[i]
            if i == 1 or rng.random() < 0.3:
                ro["in_hot_standby"] = "on" if i == 1 else "off"
            if rng.random() < 0.4:
                ro["is_superuser"] = rng.choice(["on", "off"])
            if rng.random() < 0.3:
                ro["session_authorization"] = "u%d" % i
            if rng.random() < 0.25:
                ro["server_encoding"] = rng.choice(["LATIN1", "SQL_ASCII"])
            if rng.random() < 0.15:
                ro["integer_datetimes"] = "off"
        if kind in ("defaults", "both"):
            for k, vals in (("TimeZone", ["Europe/Berlin", "America/New_York"]), ("DateStyle", ["SQL, DMY", "German, DMY"]),
                            ("client_encoding", ["LATIN1", "SQL_ASCII"]), ("standard_conforming_strings", ["off"]), ("IntervalStyle", ["iso_8601"])):
                if rng.random() < 0.45:
                    d[k] = rng.choice(vals)
            if not d:
                d["TimeZone"] = "Europe/Berlin" if i == 0 else "Asia/Tokyo"
        p = {}
        if ro:
            p["readonly"] = ro
        if d:
            p["defaults"] = d
        if rng.random() < 0.4:
            p["by_conn"] = {"2": {"readonly": {"server_version": versions[i] + ".1"}}}
            if kind != "readonly" and rng.random() < 0.5:
                p["by_conn"]["2"]["defaults"] = {"DateStyle": "Postgres, MDY"}
        out.append({"name": "b%d" % i, "params": p})
    return out


class Scn:
    """one scenario: clients with startup packets, a script of client operations, canaries"""

    def __init__(self, rng, pool_size, nclients, nops, classes=(), maxlen=400, mode="transaction", backends=None, family=False):
        self.pool_size = pool_size
        self.mode = mode      # pool_mode of the pool: "transaction" | "session"
        self.backends = backends or [{"name": "b0", "params": None}]     # servers of the shard (primary, replicas)
        self.family = None    # {tracked key: base value}: the clients' values for it are near-equal variants of the base
        self.nprep = 0
        self.clients = []     # dict(name, pairs[(k,v) bytes], flags set)
        self.ops = []         # ("q", ci, [stmt dict]) | ("x", ci, how)
        self.flags = set()
        self.rng = rng
        self.maxlen = maxlen
        if family:
            self.family = {k: rng.choice(FAMILY_BASES) for k in TRACKED if k != "standard_conforming_strings" and rng.random() < 0.7}
        for i in range(nclients):
            self.clients.append(self.gen_client(i, classes))
        self.gen_ops(nops)

    # -- startup packets
    def gen_client(self, i, classes):
        rng = self.rng
        name = "c%d" % i
        pairs = [(b"user", b"u"), (b"database", b"db")]
        flags = set()
        keys = [k for k in TRACKED if rng.random() < (0.8 if (self.family and k in self.family) else 0.45)]
        for k in keys:
            r = rng.random()
            if r < 0.55:
                sp = k
            elif r < 0.75:
                sp = k.lower()
            elif r < 0.88:
                sp = k.upper()
            else:
                sp = "".join(ch.upper() if rng.random() < 0.5 else ch.lower() for ch in k)     # Application_NAME ...
            if k == "standard_conforming_strings":
                v = rng.choice([b"on", b"off"])
            elif self.family and k in self.family:
                v = near_variants(rng, self.family[k])
            else:
                v = gen_value(rng, allow_empty=True, ascii_only=False, maxlen=self.maxlen)     # empty and non-ASCII included
            pairs.append((sp.encode(), v))
        if classes and rng.random() < 0.5:
            k = rng.choice(["client_encoding", "TimeZone", "DateStyle"])
            pairs = [p for p in pairs if p[0].decode().lower() != k.lower()]
            pairs.insert(rng.randint(2, len(pairs)), (k.encode(), (INVALID + "x").encode()))
            flags.add("C12-D4-invalid-startup-value")
        if rng.random() < 0.2:
            pairs.insert(rng.randint(2, len(pairs)), (b"extra_float_digits", b"2"))
        if rng.random() < 0.1:
            pairs.insert(rng.randint(2, len(pairs)), (b"options", b""))
        return {"name": name, "pairs": pairs, "flags": flags, "alive": True, "txn": "I", "n": 0}

    # -- statements
    def tag(self, c):
        c["n"] += 1
        return " /*c12:%s:%d*/" % (c["name"], c["n"])

    def stmt(self, c, kind):
        rng = self.rng
        t = self.tag(c).encode()
        if kind == "select":
            return {"sql": b"SELECT 1" + t, "m": "SSelect", "fails": False}
        if kind in ("begin", "commit", "rollback"):
            return {"sql": kind.upper().encode() + t, "m": {"begin": "SBegin", "commit": "SCommit", "rollback": "SRollback"}[kind], "fails": False, "txn": kind}
        if kind == "fail":
            return {"sql": b"SELECT 1 /*mock: error*/" + t, "m": "SFail", "fails": True}
        if kind in ("set", "setlocal", "setinvalid"):
            if rng.random() < 0.72:
                key = rng.choice(TRACKED)
                mkey = key
            else:
                key = rng.choice(UNTRACKED)
                mkey = key if key == "IntervalStyle" else key.lower()
            if kind == "setinvalid":
                v = (INVALID + "y").encode()
            elif key == "standard_conforming_strings":
                v = rng.choice([b"on", b"off"])
            elif self.family and key in self.family and rng.random() < 0.8:
                v = near_variants(rng, self.family[key])
            else:
                v = gen_value(rng, maxlen=self.maxlen)
            lit = pg_quote(v, rng.choice([0, 0, 1]))
            sep = rng.choice([b" TO ", b" = "])
            pre = b"SET LOCAL " if kind == "setlocal" else rng.choice([b"SET ", b"SET ", b"SET SESSION "])
            sql = pre + spell(rng, key).encode() + sep + lit + t
            return {"sql": sql, "m": "SSet %s %s %s" % ("true" if kind == "setlocal" else "false", cb(mkey.encode()), cb(v)),
                    "fails": kind == "setinvalid", "key": mkey, "untracked": mkey not in TRACKED}
        if kind == "reset":
            key = rng.choice(TRACKED + UNTRACKED)
            mkey = key if key in TRACKED or key == "IntervalStyle" else key.lower()
            return {"sql": b"RESET " + spell(rng, key).encode() + t, "m": "SReset %s" % cb(mkey.encode()), "fails": False}
        if kind == "resetall":
            return {"sql": b"RESET ALL" + t, "m": "SResetAll", "fails": False}
        if kind == "copyout":
            return {"sql": b"COPY t TO STDOUT" + t, "m": "SNoop TgOther", "fails": False}
        if kind == "copyin":      # the statements behind it in the same query string run after CopyDone
            return {"sql": b"COPY t FROM STDIN /*mock: copy_continue*/" + t, "m": "SNoop TgOther", "fails": False, "copy": "done"}
        if kind == "copyfail":    # the client ends the COPY with CopyFail
            return {"sql": b"COPY t FROM STDIN /*mock: copy_continue*/" + t, "m": "SFail", "fails": True, "copy": "fail"}
        if kind == "prepare":
            self.nprep += 1
            return {"sql": b"PREPARE p%d AS SELECT 1" % self.nprep + t, "m": "SNoop TgPrepare", "fails": False, "untracked": True, "key": "prepared:p%d" % self.nprep, "notxn": True}
        if kind == "dealloc":     # of the statement prepared just before it in the same message
            return {"sql": b"DEALLOCATE p%d" % self.nprep + t, "m": "SNoop TgOther", "fails": False}
        if kind == "deallocall":
            return {"sql": b"DEALLOCATE ALL" + t, "m": "SNoop TgDeallocAll", "fails": False}
        if kind == "discardall":
            return {"sql": b"DISCARD ALL" + t, "m": "SDiscardAll", "fails": False}
        if kind == "setrole":
            return {"sql": b"SET ROLE reporting" + t, "m": "SNoop TgSet", "fails": False, "untracked": True, "key": "role"}
        if kind == "resetrole":
            return {"sql": b"RESET ROLE" + t, "m": "SNoop TgReset", "fails": False}
        raise ValueError(kind)

    def apply_txn(self, c, stmts):
        for s in stmts:
            st = c["txn"]
            if st == "E" and s.get("txn") not in ("commit", "rollback"):
                return
            if s.get("txn") == "begin" and st == "I":
                c["txn"] = "T"
            elif s.get("txn") in ("commit", "rollback"):
                c["txn"] = "I"
            elif s["fails"]:
                if st == "T":
                    c["txn"] = "E"
                return

    def gen_ops(self, nops):
        rng = self.rng
        live = list(self.clients)
        sess = self.mode == "session"

        def holds(x):      # session mode: from the first message until the client leaves
            return x["alive"] and (x["txn"] != "I" or (sess and x.get("held")))
        for _ in range(nops):
            holders = [c for c in self.clients if holds(c)]
            cands = [c for c in live if c["alive"] and (holds(c) or len(holders) < self.pool_size)]
            if not cands:
                break
            c = rng.choice(cands)
            ci = self.clients.index(c)
            r = rng.random()
            waiting = [x for x in live if x["alive"] and not holds(x)]
            pleave = 0.04 if not sess else (0.22 if (c.get("held") and waiting and c.get("nq", 0) >= 2) else 0.05)
            if r < pleave and sum(1 for x in live if x["alive"]) > 1:
                self.ops.append(("x", ci, rng.choice(["X", "close"])))
                c["alive"] = False
                c["txn"] = "I"
                continue
            c["held"] = True
            c["nq"] = c.get("nq", 0) + 1
            if c["txn"] == "E":
                kinds = [rng.choice(["rollback", "rollback", "commit", "select"])]
            elif c["txn"] == "T":
                n = 1 if rng.random() < 0.8 else 2
                kinds = [rng.choice(["set", "set", "set", "setlocal", "setlocal", "select", "reset", "resetall", "commit", "commit", "rollback", "rollback", "fail", "setinvalid",
                                     "copyin", "copyout", "copyfail", "prepare", "prepdealloc", "deallocall", "setrole", "resetrole"]) for _ in range(n)]
            else:
                n = 1 if rng.random() < 0.7 else rng.choice([2, 3])
                kinds = [rng.choice(["set", "set", "set", "select", "select", "begin", "begin", "reset", "resetall", "fail", "setinvalid", "commit",
                                     "copyin", "copyin", "copyout", "copyfail", "prepare", "prepdealloc", "deallocall", "deallocall", "discardall", "setrole", "setrole", "resetrole"]) for _ in range(n)]
            if "copyin" in kinds and rng.random() < 0.6:
                kinds.append("set")      # a SET behind the COPY in the same query string: its ParameterStatus comes with the reply to CopyDone
            # a failing statement only as the last one of a message; no SET LOCAL outside a block
            stmts = []
            st = c["txn"]
            ncopy = 0
            for j, k in enumerate(kinds):
                if k in ("fail", "setinvalid", "copyfail", "discardall") and len(kinds) > 1:
                    k = "select"     # a failing statement only alone in its message (implicit-transaction rollback of
                                     # multi-statement queries is modelled for pgcat's own SET batch only); DISCARD ALL
                                     # cannot run in a multi-statement query / transaction block
                if k == "discardall" and st != "I":
                    k = "deallocall"
                if k in ("copyin", "copyfail"):
                    ncopy += 1
                    if ncopy > 1:
                        k = "copyout"
                if k == "prepdealloc":
                    stmts.append(self.stmt(c, "prepare"))
                    k = "dealloc"
                if k == "setlocal" and st != "T":
                    k = "set"
                if k == "begin":
                    st = "T" if st == "I" else st
                if k in ("commit", "rollback"):
                    st = "I"
                stmts.append(self.stmt(c, k))
            self.apply_txn(c, stmts)
            self.ops.append(("q", ci, stmts))
        # wind down: nobody keeps a server
        for ci, c in enumerate(self.clients):
            if c["alive"] and (c["txn"] != "I" or (sess and c.get("held"))):
                if rng.random() < 0.5 and not sess:
                    s = self.stmt(c, rng.choice(["commit", "rollback"]))
                    self.apply_txn(c, [s])
                    self.ops.append(("q", ci, [s]))
                else:
                    self.ops.append(("x", ci, rng.choice(["X", "close"])))
                    c["alive"] = False
                    c["txn"] = "I"
        for c in self.clients:
            self.flags |= c["flags"]

    @property
    def het(self):
        return len(self.backends) > 1 or self.backends[0]["params"] is not None

    @property
    def ncanary(self):
        return 0 if self.het else self.pool_size

    # -- wire scenario
    def wire(self):
        servers = [[b["name"], "primary" if i == 0 else "replica"] for i, b in enumerate(self.backends)]
        toml = W.make_toml(general={"connect_timeout": 10000}, pools={"db": {"opts": {"pool_mode": self.mode, "default_role": "any"},
                                                                            "users": [{"username": "u", "password": "pw", "pool_size": self.pool_size}],
                                         "shards": [{"database": "db0", "servers": servers}]}})
        steps = []
        for c in self.clients:
            steps.append({"op": "connect", "c": c["name"], "raw_startup": startup_hex(c["pairs"]), "password": "pw",
                          "params": {"user": "u"}, "timeout_ms": 8000})
        for op in self.ops:
            c = self.clients[op[1]]
            if op[0] == "q":
                sql = b";".join(s["sql"] for s in op[2])
                steps.append({"op": "send", "c": c["name"], "msgs": [{"t": "Q", "sql": {"hex": sql.hex()}}]})
                cp = [s2["copy"] for s2 in op[2] if s2.get("copy")]
                if cp:
                    # COPY .. FROM STDIN: CopyInResponse first, then the client's data and CopyDone / CopyFail
                    steps.append({"op": "recv", "c": c["name"], "until": "G", "timeout_ms": 15000, "label": "c12_copy_g"})
                    steps.append({"op": "send", "c": c["name"], "msgs": [{"t": "d", "data": "1\tx\n"}, {"t": "c"} if cp[0] == "done" else {"t": "f", "msg": "client gives up"}]})
                steps.append({"op": "recv", "c": c["name"], "until": "Z", "timeout_ms": 15000})
            elif op[2] == "X":
                steps.append({"op": "send", "c": c["name"], "msgs": [{"t": "X"}]})
                steps.append({"op": "close", "c": c["name"]})
            else:
                steps.append({"op": "close", "c": c["name"]})
        # canaries: one per pool slot, all holding a server at the same time => every check-in is over
        # (several servers: a canary cannot choose its server; wait until no connection is in use instead)
        if self.het:
            steps.append({"op": "wait_inuse", "n": 0, "timeout_ms": 10000})
        for i in range(self.ncanary):
            z = "z%d" % i
            steps.append({"op": "connect", "c": z, "raw_startup": startup_hex([(b"user", b"u"), (b"database", b"db")]),
                          "password": "pw", "params": {"user": "u"}, "timeout_ms": 8000})
            steps.append({"op": "send", "c": z, "msgs": [{"t": "Q", "sql": "BEGIN /*c12:%s:1*/" % z}]})
            steps.append({"op": "recv", "c": z, "until": "Z", "timeout_ms": 15000})
        bk = [dict({"name": b["name"]}, **({"c12_params": b["params"]} if b["params"] is not None else {})) for b in self.backends]
        return {"backends": bk, "toml": toml, "steps": steps, "log_out": True}

    def sent_sql(self):
        m = {}
        for op in self.ops:
            if op[0] == "q":
                m[b";".join(s["sql"] for s in op[2]).decode("utf-8")] = op
        for i in range(self.ncanary):
            m["BEGIN /*c12:z%d:1*/" % i] = ("z", i)
        return m

    def srv_id(self, who, conn):
        """one number per server connection: 100 * (index of the backend) + its connection id"""
        return 100 * [b["name"] for b in self.backends].index(who) + conn

    def to_json(self):
        def st(x):
            d = dict(x)
            d["sql"] = x["sql"].hex()
            return d
        return {"pool_size": self.pool_size, "mode": self.mode, "backends": self.backends,
                "clients": [{"name": c["name"], "pairs": [[k.hex(), v.hex()] for k, v in c["pairs"]], "flags": sorted(c["flags"])} for c in self.clients],
                "ops": [[o[0], o[1], [st(x) for x in o[2]] if o[0] == "q" else o[2]] for o in self.ops]}

    @staticmethod
    def from_json(j):
        s = Scn.__new__(Scn)
        s.pool_size, s.rng, s.maxlen, s.flags, s.mode = j["pool_size"], None, 0, set(), j.get("mode", "transaction")
        s.backends = j.get("backends") or [{"name": "b0", "params": None}]
        s.family, s.nprep = None, 0
        s.clients = [{"name": c["name"], "pairs": [(bytes.fromhex(k), bytes.fromhex(v)) for k, v in c["pairs"]], "flags": set(c["flags"]),
                      "alive": True, "txn": "I", "n": 0} for c in j["clients"]]
        s.ops = []
        for o in j["ops"]:
            if o[0] == "q":
                s.ops.append(("q", o[1], [dict(x, sql=bytes.fromhex(x["sql"])) for x in o[2]]))
            else:
                s.ops.append(("x", o[1], o[2]))
        for c in s.clients:
            s.flags |= c["flags"]
        return s

    def describe(self):
        return {"pool_size": self.pool_size, "pool_mode": self.mode, "servers": self.backends,
                "clients": [{"name": c["name"], "startup": [[k.decode("latin1"), v.decode("utf-8", "replace")[:200]] for k, v in c["pairs"]]} for c in self.clients],
                "ops": [[self.clients[o[1]]["name"], [s["sql"].decode("utf-8", "replace")[:300] for s in o[2]]] if o[0] == "q"
                        else [self.clients[o[1]]["name"], o[2]] for o in self.ops]}


# ----------------------------------------------------------------------------- observation
def decode_out_frames(hexs):
    b = bytes.fromhex(hexs)
    i = 0
    fr = []
    while i + 5 <= len(b):
        t = chr(b[i]); l = struct.unpack(">i", b[i + 1:i + 5])[0]
        body = b[i + 5:i + 1 + l]
        if t == "S":
            k, v = body.split(b"\0")[:2]
            fr.append((k.decode("utf-8", "replace"), v.decode("utf-8", "replace")))
        i += 1 + l
    return fr


def untracked_dirty(state):
    out = []
    for g in state.get("gucs", []):
        k = g.split("=", 1)[0]
        if k not in TRACKED:
            out.append(k)
    return sorted(out)


class Obs:
    """everything the scripted clients and the mock backend saw, per client and per server connection"""

    def __init__(self, scn, res):
        self.scn = scn
        self.problems = []      # monitor violations: (kind, text, client_flags)
        self.startup = {}       # client -> {"ok": bool, "S": dict}
        self.replies = {}       # client -> list of list[(k,v)] S frames per message, in order
        self.timeline = {}      # conn -> list of items
        self.msgs = {}          # (client, index) -> {"conn", "tracked", "dirty", "sync", "out_S"}
        self.order = []         # client messages in the order they reached a backend
        sent = scn.sent_sql()
        names = {c["name"]: c for c in scn.clients}
        evs = res.get("events", [])
        self.barrier_failed = any(e.get("ev") == "wait_inuse_timeout" for e in evs)
        cur = {}                # conn -> last client item awaiting its `out`
        counters = {}
        pend_sync = {}
        stash = {}
        for e in evs:
            who, evk = e.get("who"), e.get("ev")
            if evk == "startup_done":
                self.startup[who] = {"ok": bool(e.get("auth_ok")) and e.get("outcome") == "ok",
                                     "S": {f["k"]: f["v"] for f in e["frames"] if f["t"] == "S"},
                                     "err": [f.get("fields", {}).get("M") for f in e["frames"] if f["t"] == "E"]}
            elif evk == "recv" and (who in names or who.startswith("z")) and e.get("label") == "c12_copy_g":
                stash[who] = ([(f["k"], f["v"]) for f in e["frames"] if f["t"] == "S"], e.get("outcome"))
            elif evk == "recv" and (who in names or who.startswith("z")):
                pre, pre_out = stash.pop(who, ([], "ok"))
                self.replies.setdefault(who, []).append({"S": pre + [(f["k"], f["v"]) for f in e["frames"] if f["t"] == "S"],
                                                         "outcome": e.get("outcome") if pre_out == "ok" else "copy-in response missing: " + str(pre_out),
                                                         "Z": [f.get("status") for f in e["frames"] if f["t"] == "Z"]})
            elif evk == "msg" and e.get("tag") == "Q":
                conn = scn.srv_id(who, e["conn"])
                sql = e["detail"].get("sql", "")
                tl = self.timeline.setdefault(conn, [])
                scs_off = e["tracked"].get("standard_conforming_strings") == "off"
                if sql in sent:
                    op = sent[sql]
                    cname = ("z%d" % op[1]) if op[0] == "z" else scn.clients[op[1]]["name"]
                    idx = counters.get(cname, 0)
                    counters[cname] = idx + 1
                    item = {"t": "client", "c": cname, "i": idx, "tracked": {k: e["tracked"].get(k) for k in TRACKED},
                            "dirty": untracked_dirty(e["state"]), "txn": e["state"]["txn"], "sync": pend_sync.pop(conn, None),
                            "out_S": [], "conn": conn, "sql": sql,
                            "state_gucs": e["state"].get("gucs", []) + (["role=%s" % e["state"]["role"]] if e["state"].get("role") else []) +
                            ["prepared:%s=1" % n for n in e["state"].get("sql_prepared", [])]}
                    tl.append(item)
                    self.order.append(item)
                    self.msgs[(cname, idx)] = item
                    cur[conn] = item
                else:
                    cur.pop(conn, None)
                    raw = bytes.fromhex(e["detail"]["raw"])[5:-1] if e["detail"].get("raw") else sql.encode()
                    b = parse_set_batch(raw, scs_off)
                    if b is not None:
                        d = {}
                        for k, v in b:
                            d.setdefault(k, []).append(v.decode("utf-8", "replace"))
                        pend_sync[conn] = d
                        tl.append({"t": "sync", "d": d})
                    elif sql == "ROLLBACK":
                        tl.append({"t": "clean", "rb": True, "ra": False, "da": False})
                    elif sql in ("RESET ROLE;", "RESET ROLE;RESET ALL;", "RESET ROLE;RESET ALL;DEALLOCATE ALL;", "RESET ROLE;DEALLOCATE ALL;"):
                        tl.append({"t": "clean", "rb": False, "ra": "RESET ALL" in sql, "da": "DEALLOCATE ALL" in sql})
                    elif sql == ";":
                        pass
                    else:
                        self.problems.append(("injection", "pgcat sent a statement that is none of its own forms to connection %s: %r" % (conn, sql[:300]), None))
                        tl.append({"t": "other", "sql": sql})
            elif evk == "out":
                it = cur.get(scn.srv_id(who, e["conn"]))
                if it is not None:
                    it["out_S"].extend(decode_out_frames(e["hex"]))
        # every scripted recv must have ended at its ReadyForQuery (otherwise the script ran out of step: inconclusive)
        self.sane = all(r["outcome"] == "ok" for rs in self.replies.values() for r in rs) and not self.barrier_failed
        # merge ROLLBACK + RESET that belong to one check-in
        for conn, tl in self.timeline.items():
            out = []
            for it in tl:
                if it["t"] == "clean" and out and out[-1]["t"] == "clean" and out[-1]["rb"] and not out[-1]["ra"] and not it["rb"]:
                    out[-1] = {"t": "clean", "rb": True, "ra": it["ra"], "da": it["da"]}
                else:
                    out.append(it)
            self.timeline[conn] = out


def spec_est_startup(pairs, told=None):
    """what the client established with its startup packet (PostgreSQL: names case-insensitive); for the parameters
    it did not send: the values it was told at startup (the pool's snapshot of the server validated last)"""
    est = {k: (told or POOL_DEFAULT).get(k) for k in TRACKED}
    for k, v in pairs:
        ck = LOWER2CANON.get(k.decode("latin1").lower())
        if ck:
            est[ck] = v.decode("utf-8", "replace")
    return est


def monitors(scn, obs):
    """the property itself, evaluated on what clients and backend saw; no model involved"""
    probs = list(obs.problems)
    setter = {}      # (conn, guc) -> (client, epoch, in_txn)
    snapshots = [{k: v for k, v in conn_reports(b["params"], 1) if k in TRACKED} for b in scn.backends]
    for c in scn.clients:
        name = c["name"]
        st = obs.startup.get(name)
        if st is None or not st["ok"]:
            probs.append(("startup-refused", "client %s with startup %r was not admitted (%s)" % (name, [(k.decode('latin1'), v.decode('utf-8', 'replace')[:40]) for k, v in c["pairs"]], st and st.get("err")), c["flags"]))
            continue
        est = spec_est_startup(c["pairs"], st["S"])
        sent_keys = {LOWER2CANON.get(k.decode("latin1").lower()) for k, _ in c["pairs"]}
        for k in TRACKED:
            if k in sent_keys and st["S"].get(k) != est[k]:
                probs.append(("told-at-startup", "client %s established %s=%r but was told %r" % (name, k, est[k][:80], (st["S"].get(k) or "")[:80]), c["flags"]))
            if k not in sent_keys and st["S"].get(k) not in [sn.get(k) for sn in snapshots]:
                probs.append(("told-at-startup", "client %s did not send %s and was told %r, which no server of the pool reported at its startup" % (name, k, (st["S"].get(k) or "")[:80]), c["flags"]))
        c["_est"] = est
    # walk all client messages in the order they reached a backend
    sent = scn.sent_sql()
    ep = {}          # conn -> (last client, epoch number)
    for it in obs.order:
        conn, name = it["conn"], it["c"]
        last, n = ep.get(conn, (None, 0))
        if name != last:
            n += 1
        ep[conn] = (name, n)
        if name.startswith("z"):
            est, flags = {k: (obs.startup.get(name) or {"S": POOL_DEFAULT})["S"].get(k) for k in TRACKED}, set()
        else:
            c = next(x for x in scn.clients if x["name"] == name)
            est, flags = c.get("_est"), c["flags"]
            if est is None:
                continue
        for k in TRACKED:
            if it["tracked"].get(k) != est[k]:
                probs.append(("not-synced", "connection %s had %s=%r when %s's message #%d (%s) arrived; the client established %r" %
                              (conn, k, (it["tracked"].get(k) or "")[:80], name, it["i"], it["sql"][:60], est[k][:80]), flags))
        for g in it["state_gucs"]:
            k = g.split("=", 1)[0]
            if k in TRACKED:
                continue
            st = setter.get((conn, k))
            if st is None or st[0] != name or st[1] != n:
                if not (st is not None and st[2]):      # a SET inside a transaction block is outside the property (and C02)
                    probs.append(("cross-client", "connection %s carried %s (set by %s) when %s's message #%d arrived" % (conn, g[:80], st and st[0], name, it["i"]), flags))
        # record this message's own SETs of untracked GUCs
        op = sent.get(it["sql"])
        if op and op[0] == "q":
            intx = it["txn"] != "I"
            failed = it["txn"] == "E"
            for x in op[2]:
                if x.get("txn") == "begin":
                    intx = True
                if x.get("txn") in ("commit", "rollback"):
                    intx, failed = False, False
                if x.get("untracked") and not x["fails"] and not failed:
                    setter[(conn, x["key"])] = (name, n, intx and not x.get("notxn"))
        # the client's expectation follows what the server reported during this message
        rep = obs.replies.get(name, [])
        if it["i"] < len(rep):
            seen = rep[it["i"]]["S"]
            if seen != it["out_S"]:
                probs.append(("told-differs", "%s's message #%d: the backend wrote ParameterStatus %r, the client received %r" % (name, it["i"], it["out_S"][:6], seen[:6]), flags))
            if not name.startswith("z"):
                for k, v in seen:
                    if k in TRACKED:
                        est[k] = v
    return probs


# ----------------------------------------------------------------------------- model side
def find_pool_source(scn, obs):
    """the server connection whose startup reports became the pool's snapshot (pool.rs validate: the server validated
    last wins), read back from what the clients were told: the first server consistent with EVERY client's startup frames"""
    for bi, b in enumerate(scn.backends):
        rep = dict(conn_reports(b["params"], 1))
        rep["application_name"] = "pgcat"
        ok = True
        for c in scn.clients:
            st = obs.startup.get(c["name"])
            if st and st["ok"]:
                sent = {LOWER2CANON.get(k.decode("latin1").lower()) for k, _ in c["pairs"]}
                ok = ok and set(st["S"]) == set(rep) and all(st["S"].get(k) == v for k, v in rep.items() if k not in sent)
        if ok:
            return 100 * bi
    return 0


def model_ops(scn, obs):
    ops = []
    cnt = {}
    for i, c in enumerate(scn.clients):
        ops.append("OConnect %d [%s]" % (i, "; ".join("(%s, %s)" % (cb(k), cb(v)) for k, v in c["pairs"])))
    for op in scn.ops:
        ci = op[1]
        name = scn.clients[ci]["name"]
        if op[0] == "q":
            idx = cnt.get(name, 0)
            cnt[name] = idx + 1
            it = obs.msgs.get((name, idx))
            s = (it["conn"] - 1) if it else 0
            ops.append("OQuery %d %d [%s]" % (ci, s, "; ".join(x["m"] for x in op[2])))
        else:
            ops.append("ODisconnect %d" % ci)
    for i in range(scn.ncanary):
        zi = len(scn.clients) + i
        it = obs.msgs.get(("z%d" % i, 0))
        ops.append("OConnect %d [(%s, %s); (%s, %s)]" % (zi, cb(b"user"), cb(b"u"), cb(b"database"), cb(b"db")))
        ops.append("OQuery %d %d [SBegin]" % (zi, (it["conn"] - 1) if it else 0))
    opl = "[%s]" % "; ".join(ops)
    if not scn.het:
        return "%s %s" % ("run_mock_sc" if scn.mode == "session" else "run_mock_c", opl)
    defs = []
    for bi, b in enumerate(scn.backends):
        for conn in range(1, 2 * scn.pool_size + 3):
            rep = dict(conn_reports(b["params"], conn))
            rep["application_name"] = "pgcat"
            order = [k for k, _ in conn_reports(b["params"], conn)]
            defs.append("(%d%%nat, [%s])" % (100 * bi + conn - 1, "; ".join("(%s, %s)" % (cb(k.encode()), cb(rep[k].encode())) for k in order)))
    return "run_het_c [%s] %d%%nat %s %s" % ("; ".join(defs), find_pool_source(scn, obs), "true" if scn.mode == "session" else "false", opl)


def bs(x):
    return bytes(x).decode("utf-8", "replace")


def cbool(x):
    return x is True or x == ("#", "true") or x == "true"


def project_model(scn, val):
    """model log (compact form) -> (per-client view, per-server view) in the vocabulary of Obs"""
    tbl, log = vlib.parse_coq(val)
    tbl = [bs(x) for x in tbl]
    names = [c["name"] for c in scn.clients] + ["z%d" % i for i in range(scn.ncanary)]
    percl = {n: {"startup": None, "msgs": []} for n in names}
    persrv = {}
    for e in log:
        if isinstance(e, str):
            e = (e,)
        k = e[0]
        if k == "CRefused":
            percl[names[e[1]]]["startup"] = "refused"
        elif k == "CTold":
            n = names[e[1]]
            fr = [(tbl[a], tbl[b]) for a, b in e[2]]
            if percl[n]["startup"] is None:
                percl[n]["startup"] = dict(fr)
            else:
                percl[n]["msgs"][-1]["told"] = fr
        elif k == "CSync":
            persrv.setdefault(e[2] + 1, []).append({"t": "sync", "d": {tbl[a]: [tbl[b]] for a, b in e[3]}})
        elif k == "CStmt":
            _, c, s, co, dk, bv, eq1, eq2 = e
            n = names[c]
            tr = {TRACKED[j]: (tbl[v[1]] if v is not None else None) for j, v in enumerate(bv)}
            item = {"t": "client", "c": n, "i": len(percl[n]["msgs"]), "tracked": tr, "dirty": sorted(set(tbl[x] for x in dk)), "told": [],
                    "synced": cbool(eq1), "est": cbool(eq2)}
            percl[n]["msgs"].append(item)
            persrv.setdefault(s + 1, []).append(item)
        elif k == "CClean":
            persrv.setdefault(e[1] + 1, []).append({"t": "clean", "rb": cbool(e[2]), "ra": cbool(e[3]), "da": cbool(e[4])})
        elif k == "CReplaced":
            persrv.setdefault(e[1] + 1, []).append({"t": "replaced"})
    return percl, persrv


def per_key(fr):
    d = {}
    for k, v in fr:
        d.setdefault(k, []).append(v)
    return d


def diff_model(scn, obs, val):
    """first disagreement between the model's prediction and the observation, or None"""
    percl, persrv = project_model(scn, val)
    for n, pc in percl.items():
        st = obs.startup.get(n)
        if pc["startup"] == "refused" or pc["startup"] is None:
            if st is not None and st["ok"]:
                return "client %s: model says the startup is refused, pgcat admitted it" % n
            continue
        if st is None or not st["ok"]:
            return "client %s: model admits the client, pgcat did not (%s)" % (n, st and st.get("err"))
        if st["S"] != pc["startup"]:
            dk = sorted(k for k in set(st["S"]) | set(pc["startup"]) if st["S"].get(k) != pc["startup"].get(k))
            return "client %s: startup ParameterStatus differ on %s: model %r, pgcat %r" % (n, dk, [pc["startup"].get(k) for k in dk], [st["S"].get(k) for k in dk])
        rep = obs.replies.get(n, [])
        nobs = sum(1 for (c, i) in obs.msgs if c == n)
        if nobs != len(pc["msgs"]):
            return "client %s: model has %d messages reaching a server, observed %d" % (n, len(pc["msgs"]), nobs)
        for m in pc["msgs"]:
            it = obs.msgs[(n, m["i"])]
            if it["tracked"] != m["tracked"]:
                return "%s message #%d: backend values %r, model %r" % (n, m["i"], it["tracked"], m["tracked"])
            if it["dirty"] != m["dirty"]:
                return "%s message #%d: dirty untracked GUCs %r, model %r" % (n, m["i"], it["dirty"], m["dirty"])
            seen = rep[m["i"]]["S"] if m["i"] < len(rep) else None
            if seen is None or per_key(seen) != per_key(m["told"]):
                return "%s message #%d: forwarded ParameterStatus %r, model %r" % (n, m["i"], seen and seen[:8], m["told"][:8])
    conns = sorted(set(obs.timeline) | set(persrv))
    for s in conns:
        a = [x for x in obs.timeline.get(s, [])]
        b = persrv.get(s, [])
        if len(a) != len(b):
            return "connection %d: observed %s, model %s" % (s, [x["t"] + ":" + str(x.get("c", x.get("d", ""))) for x in a][:30], [x["t"] + ":" + str(x.get("c", x.get("d", ""))) for x in b][:30])
        for x, y in zip(a, b):
            if x["t"] != y["t"]:
                return "connection %d: observed %s where the model has %s" % (s, x["t"], y["t"])
            if x["t"] == "sync" and x["d"] != y["d"]:
                return "connection %d: SET batch %r, model %r" % (s, x["d"], y["d"])
            if x["t"] == "clean" and (x["rb"], x["ra"], x["da"]) != (y["rb"], y["ra"], y["da"]):
                return "connection %d: check-in (rollback,reset_all,deallocate_all)=%r, model %r" % (s, (x["rb"], x["ra"], x["da"]), (y["rb"], y["ra"], y["da"]))
            if x["t"] == "client" and (x["c"], x["i"]) != (y["c"], y["i"]):
                return "connection %d: message of %s#%d where the model has %s#%d" % (s, x["c"], x["i"], y["c"], y["i"])
    return None


# ----------------------------------------------------------------------------- T1 constants
def read_constants():
    src = open(os.path.join(vlib.REPO, "src", "server.rs")).read()
    m = re.search(r"static TRACKED_PARAMETERS.*?\{(.*?)\n\}\);", src, re.S)
    tracked = re.findall(r'set\.insert\("([^"]+)"\.to_string\(\)\)', m.group(1)) if m else None
    m = re.search(r"pub fn new\(\) -> Self \{\s*let mut server_parameters = ServerParameters \{.*?server_parameters\n\s*\}", src, re.S)
    defaults = None
    if m:
        defaults = re.findall(r'set_param\(\s*"([^"]+)"\.to_string\(\),\s*"([^"]*)"\.to_string\(\),\s*false', m.group(0))
    m = re.search(r"fn quote_literal\(value: &str\) -> String \{.*?\n\}", src, re.S)
    ql = re.sub(r"\s+", " ", m.group(0)) if m else None
    m = re.search(r"pub fn set_param\(&mut self.*?\n    \}", src, re.S)
    recase = bool(m and re.search(r"TRACKED_PARAMETERS\s*\.iter\(\)\s*\.find\(\|tracked\| tracked\.eq_ignore_ascii_case\(&key\)\)", m.group(0)))
    return tracked, defaults, ql, recase


QL_EXPECT = ("fn quote_literal(value: &str) -> String { let mut quoted = String::with_capacity(value.len() + 3); "
             "if value.contains('\\\\') { quoted.push('E'); } quoted.push('\\''); for c in value.chars() { "
             "if c == '\\'' || c == '\\\\' { quoted.push(c); } quoted.push(c); } quoted.push('\\''); quoted }")


def check_constants(run):
    tracked, defaults, ql, recase = read_constants()
    probe = [b"TIMEZONE", b"Application_Name", b"datestyle", b"DateStyle", b"server_version", b"timezone2", b"CLIENT_encoding"]
    vals = vlib.coq_eval("c12k", PREAMBLE, ["TRACKED", "sp_new", "map recase [%s]" % "; ".join(cb(x) for x in probe)])
    mt = [bs(x) for x in vlib.parse_coq(vals[0])]
    md = [(bs(a), bs(b)) for a, b in vlib.parse_coq(vals[1])]
    mrec = [bs(x) for x in vlib.parse_coq(vals[2])]
    want = [LOWER2CANON.get(x.decode().lower(), x.decode()) for x in probe]
    bad = []
    if tracked is None or sorted(tracked) != sorted(mt):
        bad.append("TRACKED_PARAMETERS in src/server.rs = %r, model TRACKED = %r" % (tracked, mt))
    if defaults is None or sorted(defaults) != sorted(md):
        bad.append("ServerParameters::new defaults = %r, model sp_new = %r" % (defaults, md))
    if not recase or mrec != want:
        bad.append("set_param no longer maps names with eq_ignore_ascii_case over TRACKED_PARAMETERS (source shape %s), model recase %r, expected %r" % (recase, mrec, want))
    run.cov["source_constants"] = {"tracked": tracked, "defaults": defaults, "recase": recase, "quote_literal_matches_transcribed_text": ql == QL_EXPECT}
    return bad, ql


# ----------------------------------------------------------------------------- scenarios
def boundary_scenarios(rng):
    """hand-made scenarios run in every tier (seed-independent shapes)"""
    out = []

    def mk(pool_size, clients, ops, mode="transaction", backends=None):
        s = Scn.__new__(Scn)
        s.pool_size, s.rng, s.maxlen, s.flags, s.ops, s.mode = pool_size, rng, 3000, set(), [], mode
        s.backends = backends or [{"name": "b0", "params": None}]
        s.family, s.nprep = None, 0
        s.clients = [{"name": "c%d" % i, "pairs": [(b"user", b"u"), (b"database", b"db")] + p, "flags": set(f), "alive": True, "txn": "I", "n": 0}
                     for i, (p, f) in enumerate(clients)]
        for o in ops:
            if o[0] == "x":
                s.ops.append(("x", o[1], o[2]))
            else:
                c = s.clients[o[1]]
                stmts = []
                for k in o[2]:
                    if isinstance(k, tuple):     # ("set", key, value, local)
                        t = s.tag(c).encode()
                        key, v, local = k[1], k[2], k[3]
                        sql = (b"SET LOCAL " if local else b"SET ") + key.encode() + b" TO " + pg_quote(v) + t
                        mkey = key if key in TRACKED or key == "IntervalStyle" else key.lower()
                        stmts.append({"sql": sql, "m": "SSet %s %s %s" % ("true" if local else "false", cb(mkey.encode()), cb(v)),
                                      "fails": v.startswith(INVALID.encode()), "key": mkey, "untracked": mkey not in TRACKED})
                    else:
                        stmts.append(s.stmt(c, k))
                s.ops.append(("q", o[1], stmts))
        for c in s.clients:
            s.flags |= c["flags"]
        return s
    sel = ("q", 0, ["select"])
    # every nasty value as application_name at startup (ASCII) and through SET, 2 clients alternating on ONE connection
    vals = [v for v in NASTY if v] + [bytes([0x27]) * 50, b"\\" * 51, (b"ab'\\" * 700)[:2750]]
    for i in range(0, len(vals), 3):
        chunk = vals[i:i + 3]
        cl = [([(b"application_name", chunk[0])], []), ([(b"application_name", chunk[-1]), (b"standard_conforming_strings", b"off")], [])]
        ops = [("q", 0, ["select"]), ("q", 1, ["select"])]
        for v in chunk:
            ops += [("q", 0, [("set", "TimeZone", v, False)]), ("q", 1, ["select"]), ("q", 0, ["select"]),
                    ("q", 1, [("set", "DateStyle", v, False)]), ("q", 0, ["select"])]
        out.append(mk(1, cl, ops))
    for v in NONASCII + [b""]:
        out.append(mk(1, [([], []), ([], [])], [("q", 0, [("set", "application_name", v, False)]), ("q", 1, ["select"]), ("q", 0, ["select"]), ("q", 1, ["select"])]))
    # very long values (20 kB), at startup and through SET
    big = (b"x'y\\z \"" + "é".encode()) * 2100
    out.append(mk(1, [([(b"application_name", (b"L'\\" * 7000)[:20000])], []), ([], [])],
                  [("q", 0, ["select"]), ("q", 1, [("set", "TimeZone", big[:20000], False)]), ("q", 0, ["select"]), ("q", 1, ["select"])]))
    # standard_conforming_strings changes in the same batch as a backslash value, both directions
    out.append(mk(1, [([(b"standard_conforming_strings", b"off"), (b"application_name", b"a\\b'c")], []),
                      ([(b"application_name", b"x\\y")], [])],
                  [("q", 0, ["select"]), ("q", 1, ["select"]), ("q", 0, ["select"]), ("q", 1, ["select"])]))
    # transactions: SET inside a block then ROLLBACK / COMMIT, SET LOCAL, failed transaction, disconnect inside
    out.append(mk(1, [([], []), ([], [])],
                  [("q", 0, ["begin"]), ("q", 0, [("set", "TimeZone", b"In'Txn\\", False)]), ("q", 0, ["rollback"]), ("q", 1, ["select"]),
                   ("q", 0, ["begin"]), ("q", 0, [("set", "TimeZone", b"Kept", False)]), ("q", 0, ["commit"]), ("q", 1, ["select"]), ("q", 0, ["select"]),
                   ("q", 1, ["begin"]), ("q", 1, [("set", "application_name", b"loc'al", True)]), ("q", 1, ["select"]), ("q", 1, ["commit"]), ("q", 0, ["select"]),
                   ("q", 0, ["begin"]), ("q", 0, [("set", "DateStyle", b"Doomed", False)]), ("q", 0, ["fail"]), ("q", 0, ["select"]), ("x", 0, "close"),
                   ("q", 1, ["select"])]))
    out.append(mk(2, [([], []), ([], []), ([], [])],
                  [("q", 0, ["begin"]), ("q", 1, ["begin"]), ("q", 0, [("set", "TimeZone", b"A", False)]), ("q", 1, [("set", "TimeZone", b"B", False)]),
                   ("q", 0, ["commit"]), ("q", 2, ["select"]), ("q", 1, ["rollback"]), ("q", 2, ["select"]), ("q", 0, ["select"]), ("q", 1, ["select"])]))
    # untracked GUC outside a transaction is reset; COMMIT; SET in one message (F18)
    out.append(mk(1, [([], []), ([], [])],
                  [("q", 0, [("set", "statement_timeout", b"5", False)]), ("q", 1, ["select"]),
                   ("q", 0, ["begin"]), ("q", 0, ["commit", ("set", "statement_timeout", b"7", False)]), ("q", 1, ["select"]),
                   ("q", 0, ["begin", ("set", "search_path", b"a,'b'", False)]), ("q", 0, ["commit"]), ("q", 1, ["select"])]))
    # regressions of the repaired startup findings D1 (non-ASCII), D2 (name spelling), D3 (empty values): must pass now
    for v in NONASCII:
        out.append(mk(1, [([(b"application_name", v)], []), ([(b"TimeZone", v)], [])], [sel, ("q", 1, ["select"]), sel, ("q", 1, ["select"])]))
    out.append(mk(1, [([(b"TIMEZONE", b"Europe/Paris"), (b"Application_Name", b"x")], []),
                      ([(b"DATESTYLE", b"German"), (b"Client_Encoding", b"LATIN1"), (b"STANDARD_CONFORMING_STRINGS", b"off"), (b"tImEzOnE", b"a\\b'c")], [])],
                  [sel, ("q", 1, ["select"]), sel, ("q", 1, ["select"])]))
    out.append(mk(1, [([(b"application_name", b"")], []), ([], [])], [sel, ("q", 1, ["select"]), sel]))
    out.append(mk(1, [([(b"application_name", b""), (b"client_encoding", b"")], []), ([(b"options", b""), (b"TimeZone", b"")], [])],
                  [sel, ("q", 1, ["select"]), sel, ("q", 1, ["select"])]))
    # session-mode pools: one checkout (with sync) per client, the server is kept until the client leaves, cleanup at the end
    S = "session"
    out.append(mk(1, [([(b"application_name", b"sess'app\\"), (b"TIMEZONE", b"Europe/Paris"), (b"datestyle", b"German")], []),
                      ([(b"application_name", b"other"), (b"standard_conforming_strings", b"off")], [])],
                  [sel, ("q", 0, [("set", "DateStyle", b"it's", False)]), ("q", 0, [("set", "statement_timeout", b"5", False)]), sel,
                   ("q", 0, ["begin"]), ("q", 0, [("set", "TimeZone", b"X\\Y", False)]), ("q", 0, ["rollback"]), sel, ("x", 0, "X"),
                   ("q", 1, ["select"]), ("q", 1, [("set", "application_name", "né'w".encode(), False)]), ("q", 1, ["select"]), ("x", 1, "close")], mode=S))
    out.append(mk(2, [([(b"application_name", b"a'1")], []), ([(b"TimeZone", b"b\\2")], []), ([(b"DateStyle", b"c 3")], [])],
                  [sel, ("q", 1, ["select"]), ("q", 0, [("set", "search_path", b"x,y", False)]), ("q", 1, ["begin"]), ("q", 1, [("set", "DateStyle", b"in txn", False)]),
                   ("x", 0, "close"), ("q", 2, ["select"]), ("q", 1, ["commit"]), ("q", 2, ["select"]), ("x", 1, "X"), ("q", 2, ["select"]), ("x", 2, "X")], mode=S))
    out.append(mk(1, [([(b"application_name", b"doomed")], []), ([], [])],
                  [sel, ("q", 0, ["begin"]), ("q", 0, [("set", "TimeZone", b"T1", False)]), ("q", 0, ["fail"]), ("q", 0, ["select"]), ("x", 0, "close"),
                   ("q", 1, ["select"]), ("q", 1, ["select"]), ("x", 1, "X")], mode=S))
    for v in [NASTY[1], NASTY[3], NONASCII[4], b""]:
        out.append(mk(1, [([(b"application_name", v), (b"Timezone", v)], []), ([], [])],
                      [sel, sel, ("x", 0, "X"), ("q", 1, ["select"]), ("q", 1, [("set", "DateStyle", v, False)]), ("q", 1, ["select"]), ("x", 1, "X")], mode=S))
    # (a) values that differ "almost not": letter case, blanks, doubled quotes, controls, Unicode case - clients alternating on ONE connection
    for fam in ([b"Billing", b"billing", b"BILLING"], [b"utc", b"UTC", b"Utc"], [b"a b", b"a  b", b" a b"], [b"it's", b"it''s", b"it's "],
                ["é".encode(), "É".encode(), b"e"], [b"x", b"x\t", b"x\x01"]):
        cl = [([(b"application_name", v), (b"TimeZone", v)], []) for v in fam]
        ops = []
        for r in range(3):
            for i in range(len(fam)):
                ops.append(("q", i, ["select"]))
        ops += [("q", 0, [("set", "DateStyle", fam[1], False)]), ("q", 1, [("set", "DateStyle", fam[2], False)]), ("q", 2, [("set", "DateStyle", fam[0], False)])]
        for i in range(len(fam)):
            ops.append(("q", i, ["select"]))
        out.append(mk(1, cl, ops))
    # (b) COPY IN / OUT with tracked SETs before and after it in the same query string, in separate messages, in a block, in session mode
    for md in ("transaction", S):
        end = [("x", 0, "X"), ("x", 1, "X")] if md == S else []
        out.append(mk(1, [([(b"application_name", b"copier")], []), ([], [])],
                      [("q", 0, [("set", "DateStyle", b"before", False), "copyin", ("set", "TimeZone", b"after'copy", False)]), ("q", 1, ["select"]), ("q", 0, ["select"]),
                       ("q", 0, ["begin"]), ("q", 0, ["copyin", ("set", "TimeZone", b"in block", False), "copyout"]), ("q", 0, ["select"]), ("q", 0, ["commit"]), ("q", 1, ["select"]), ("q", 0, ["select"]),
                       ("q", 0, ["copyout", ("set", "application_name", b"after out", False)]), ("q", 0, ["copyfail"]), ("q", 1, ["select"]), ("q", 0, ["select"]),
                       ("q", 0, ["begin", ("set", "DateStyle", b"d2", False), "copyin"]), ("q", 0, ["copyfail"]), ("q", 0, ["rollback"]), ("q", 1, ["select"]), ("q", 0, ["select"])] + end, mode=md))
    # (c) the cleanup flags are cleared by check-in only: DEALLOCATE ALL / DISCARD ALL / DEALLOCATE x / PREPARE after SETs and SET ROLE
    for md in ("transaction", S):
        end = [("x", 0, "X"), ("x", 1, "X")] if md == S else []
        one = [("q", 0, [("set", "statement_timeout", b"1", False), "setrole", "deallocall"])] if md != S else \
              [("q", 0, [("set", "statement_timeout", b"1", False)]), ("q", 0, ["setrole"]), ("q", 0, ["deallocall"])]
        mid = [("x", 0, "X")] if md == S else []
        out.append(mk(1, [([], []), ([], []), ([], [])],
                      one + mid + [("q", 1, ["select"]),
                       ("q", 1, ["prepare", "dealloc"]), ("q", 1, ["prepare"]), ("q", 1, [("set", "work_mem", b"4MB", False)]), ("q", 1, ["discardall"]), ("q", 1, ["select"])] +
                      ([("x", 1, "close")] if md == S else []) +
                      [("q", 2, ["select"]), ("q", 2, ["begin", "prepare"]), ("q", 2, ["setrole"]), ("q", 2, ["commit"]), ("q", 2, [("set", "search_path", b"s", False), "prepare", "deallocall"]), ("q", 2, ["resetrole"])] +
                      ([("x", 2, "X")] if md == S else []), mode=md))
    # heterogeneous servers (primary + replica, default_role any, pool_size 2): read-only reports differ / tracked defaults differ
    RO = [{"name": "b0", "params": {"readonly": {"server_version": "15.3"}, "by_conn": {"2": {"readonly": {"server_version": "15.4"}}}}},
          {"name": "b1", "params": {"readonly": {"server_version": "14.9", "in_hot_standby": "on", "is_superuser": "on"}}}]
    DF = [{"name": "b0", "params": {"defaults": {"TimeZone": "Europe/Berlin", "standard_conforming_strings": "off"}}},
          {"name": "b1", "params": {"defaults": {"DateStyle": "SQL, DMY", "client_encoding": "LATIN1"}, "by_conn": {"2": {"defaults": {"TimeZone": "Asia/Tokyo"}}}}}]
    BO = [{"name": "b0", "params": {"readonly": {"server_version": "16.1", "session_authorization": "u0"}, "defaults": {"TimeZone": "Europe/Berlin"}}},
          {"name": "b1", "params": {"readonly": {"server_version": "13.14", "in_hot_standby": "on"}, "defaults": {"DateStyle": "German, DMY", "IntervalStyle": "iso_8601"}}}]
    for bk in (RO, DF, BO):
        for md in ("transaction", S):
            ops = []
            for r in range(5):
                ops += [("q", 0, ["select"]), ("q", 1, ["select"])]
            ops += [("q", 0, [("set", "TimeZone", b"it's\\here", False)]), ("q", 1, [("set", "statement_timeout", b"9", False)])]
            for r in range(4):
                ops += [("q", 1, ["select"]), ("q", 0, ["select"])]
            ops += [("q", 0, ["begin"]), ("q", 0, [("set", "DateStyle", b"in txn", False)]), ("q", 1, ["select"]), ("q", 0, ["rollback"]), ("q", 1, ["resetall"]), ("q", 0, ["select"])]
            ops += [("x", 0, "X"), ("x", 1, "close")]
            out.append(mk(2, [([(b"application_name", b"app'a"), (b"TimeZone", b"Europe/Paris")], []), ([(b"datestyle", b"ISO, YMD")], [])], ops, mode=md, backends=bk))
    # D4 (open): a refused startup value defeats the whole sync
    out.append(mk(1, [([(b"application_name", b"app-a")], []), ([(b"application_name", b"app-b"), (b"client_encoding", b"!invalid!LATIN9X")], ["C12-D4-invalid-startup-value"])],
                  [("q", 0, ["begin"]), ("q", 0, [("set", "TimeZone", b"Europe/Paris", False)]), ("q", 0, ["commit"]), ("q", 1, ["select"]), ("q", 0, ["select"])]))
    return out


def run_batch(run, wire, scns, tag, with_model=True):
    res = W.run_scenarios(wire, [s.wire() for s in scns])
    obs = []
    for s, r in zip(scns, res):
        o = Obs(s, r) if "events" in r else None
        if o is None or not o.sane:
            # a scripted recv timed out (loaded machine?): run this one again, alone
            r = W.run_scenario(wire, s.wire(), timeout=120)
            o = Obs(s, r) if "events" in r else None
        if o is None:
            run.broken.append("wire harness failed on a scenario: %s" % str(r)[:300])
            return None, None
        obs.append(o)
    if not with_model:
        return obs, [None] * len(obs)
    exprs = [model_ops(s, o) for s, o in zip(scns, obs)]
    vals = vlib.coq_eval(tag, PREAMBLE, exprs, shard=max(4, len(exprs) // 16 + 1))
    return obs, vals


def classify(run, known, flags, kind, text, replay):
    """a monitor violation: known class => KNOWN-FINDING, otherwise VIOLATION"""
    fl = sorted(flags or [])
    if fl:
        fid = fl[0]
        e = known.get(fid)
        if e is not None and e.get("status") == "fixed":
            run.violation("counterexample", "regression of %s: %s" % (fid, text), dict(replay, **{"class": fid}))
            return False
        line = (e.get("line") or e.get("what")) if e else None
        run.known_finding(line or ("%s %s%s" % (fid, FINDINGS[fid], "" if e else " [reported, not yet listed in known_findings.jsonl]")), key=fid)
        return True
    run.violation("counterexample", "%s: %s" % (kind, text), replay)
    return False


def check(run):
    quick = run.tier == "quick"
    rng = run.rng
    run.assumptions += [
        "Coq 8.16.1 kernel + vm_compute; no axioms (Print Assumptions: closed under the global context)",
        "coq/Params/Lex.v transcribes PostgreSQL's scan.l string-literal rules ('' ; backslash escapes in E'' and when standard_conforming_strings=off; \\u/\\U and literal continuation across newlines not modelled) - exercised against the mock backend's own lexer (harness/src/mockpg.rs parse_value) and an independent Python lexer, not against a real PostgreSQL",
        "the backend model (session/local/snapshot GUC layers, ParameterStatus on every change of a reported GUC, RESET ALL, failed-transaction rule, atomic SET batch, abstract validity check) = harness/src/mockpg.rs; PostgreSQL >= 14 defers ParameterStatus to the end of the message, which yields the same maps at ReadyForQuery",
        "values are C strings (NUL-free) and valid UTF-8 (Rust String; read_string is lossy for other bytes, which PostgreSQL never reports for these five GUCs)",
        "transaction-mode and session-mode pools (the mode is a per-client flag of the model), cleanup_server_connections = true, one pool per scenario (one server, or primary + replica whose startup reports differ: per-connection defaults [bdefs] in the model); prepared-statement cleanup is not modelled",
        "C02's hand-off rule (a connection returned without check-in while in a transaction or flagged is closed) is a hypothesis of the theorems (hb), shown necessary by c12_hb_needed_refuted",
    ]
    run.cov["trusted_base"] = ["coqc 8.16.1 kernel", "vm_compute", "coq/Params/Lex.v (hand transcription of scan.l's literal rules)",
                               "coq/Params/Model.v (hand model of server.rs/client.rs/messages.rs parameter handling)",
                               "harness/src/mockpg.rs (mock PostgreSQL), harness/src/bin/wire.rs, harness/src/client.rs", "props/c12.py generator, monitors, canonicalisation",
                               "Print Assumptions: Closed under the global context (all theorems)"]
    proof_ok, log = vlib.prove(run, COQ_FILES, "Params/Props.v")
    run.log("proof ok=%s" % proof_ok)
    ok, blog, bins = vlib.cargo_build(["wire"])
    if not ok:
        run.violation("tie-broken", "harness does not build against /repo", {"correspondence": "wire harness build", "log": blog[-3000:]}, found_input=False)
        return
    wire = bins["wire"]
    known = {e.get("id"): e for e in vlib.known_findings("C12")}

    const_bad = []
    if proof_ok:
        const_bad, ql = check_constants(run)

    # ---- scenarios
    scns = boundary_scenarios(rng)
    nb = len(scns)
    nrand = 300 if quick else 7000
    classes = ["invalid"]
    for i in range(nrand):
        ps = 1 if rng.random() < 0.6 else 2
        nc = rng.choice([2, 2, 3])
        with_class = rng.random() < 0.12
        mode = "session" if rng.random() < 0.35 else "transaction"
        bk = None
        if rng.random() < 0.3:
            bk, ps = gen_backends(rng, rng.choice(["readonly", "defaults", "both"])), 2
        fam = bk is None and rng.random() < 0.3      # near-equal values of different clients meeting on one connection
        if fam:
            ps, nc = 1, rng.choice([2, 3, 3])
        scns.append(Scn(rng, ps, nc, rng.randint(6, 16) + (6 if bk or fam else 0), classes if with_class else (), maxlen=1500 if i % 53 == 7 else 400, mode=mode, backends=bk, family=fam))
    run.log("%d scenarios (%d hand-made)" % (len(scns), nb))

    evals = 0
    distinct = set()
    samples = []
    dist = {"pool_size_1": 0, "pool_size_2": 0, "client_messages": 0, "sync_batches": 0, "batch_values_with_quote": 0, "batch_values_with_backslash": 0,
            "batch_values_nonascii": 0, "batch_values_empty": 0, "batch_values_over_1000B": 0, "checkins_with_reset_all": 0, "checkins_with_rollback": 0,
            "scenarios_with_known_class": 0, "startup_refused": 0, "messages_in_transaction": 0, "forwarded_parameter_status": 0, "scs_off_batches": 0}
    first_tie = None
    inconclusive = 0
    chunk = 400
    for base in range(0, len(scns), chunk):
        part = scns[base:base + chunk]
        obs, vals = run_batch(run, wire, part, "c12_%d" % base, with_model=proof_ok)
        if obs is None:
            return
        for s, o, v in zip(part, obs, vals):
            if not o.sane:
                inconclusive += 1
                continue
            evals += 1
            dist["pool_size_%d" % s.pool_size] += 1
            dist["pool_mode_" + s.mode] = dist.get("pool_mode_" + s.mode, 0) + 1
            dist["near_equal_value_family_scenarios"] = dist.get("near_equal_value_family_scenarios", 0) + bool(s.family)
            for op in s.ops:
                if op[0] == "q":
                    for x in op[2]:
                        if x.get("copy"):
                            dist["copy_in_exchanges_" + x["copy"]] = dist.get("copy_in_exchanges_" + x["copy"], 0) + 1
                        for kw in ("PREPARE ", "DEALLOCATE", "DISCARD ALL", "SET ROLE", "COPY t TO"):
                            if x["sql"].startswith(kw.encode()):
                                dist["stmts_" + kw.strip().lower().replace(" ", "_")] = dist.get("stmts_" + kw.strip().lower().replace(" ", "_"), 0) + 1
            if s.het:
                dist["heterogeneous_two_server_pools"] = dist.get("heterogeneous_two_server_pools", 0) + 1
                used = {it["conn"] // 100 for it in o.order}
                dist["het_scenarios_touching_both_servers"] = dist.get("het_scenarios_touching_both_servers", 0) + (len(used) > 1)
            if s.flags:
                dist["scenarios_with_known_class"] += 1
            for st in o.startup.values():
                if not st["ok"]:
                    dist["startup_refused"] += 1
            for conn, tl in o.timeline.items():
                for it in tl:
                    if it["t"] == "client":
                        dist["client_messages"] += 1
                        dist["forwarded_parameter_status"] += len(it["out_S"])
                        if it["txn"] != "I":
                            dist["messages_in_transaction"] += 1
                        distinct.add(("stmt", it["sql"].split("/*c12")[0][:40], tuple(sorted(it["tracked"].items()))))
                    elif it["t"] == "sync":
                        dist["sync_batches"] += 1
                        for k, vs in it["d"].items():
                            for x in vs:
                                distinct.add(("batch", k, x))
                                dist["batch_values_with_quote"] += "'" in x
                                dist["batch_values_with_backslash"] += "\\" in x
                                dist["batch_values_nonascii"] += any(ord(ch) > 127 for ch in x)
                                dist["batch_values_empty"] += x == ""
                                dist["batch_values_over_1000B"] += len(x) > 1000
                                dist["scs_off_batches"] += (k == "standard_conforming_strings" and x == "off")
                    elif it["t"] == "clean":
                        dist["checkins_with_reset_all"] += bool(it["ra"])
                        dist["checkins_with_rollback"] += bool(it["rb"])
                        dist["checkins_with_deallocate_all"] = dist.get("checkins_with_deallocate_all", 0) + bool(it.get("da"))
            # monitors: the property on the implementation's own trace
            for kind, text, flags in monitors(s, o):
                classify(run, known, flags, kind, text, {"input": s.describe(), "monitor": kind, "scenario": s.to_json()})
            # differential
            if v is not None:
                run.cov["traces_validated_against_impl"] += 1
                d = diff_model(s, o, v)
                if d and first_tie is None:
                    first_tie = (s, d)
            if len(samples) < 4 and s.ops and base == 0 and evals in (1, nb - 1, nb + 1, nb + 2):
                samples.append(s.describe())
        if run.violations or first_tie:
            break

    run.cov["evaluations"] = evals
    run.cov["distinct_nontrivial"] = len(distinct)
    run.cov["rule"] = ("scenarios = %d hand-made (every value of the nasty list as startup value and through SET on one shared connection; scs=off together with a backslash value; "
                       "SET in committed / rolled-back / failed transactions; SET LOCAL; disconnect inside a transaction; untracked GUCs; COMMIT;SET in one message; session-mode pools; heterogeneous two-server pools (read-only reports / tracked defaults / both, per-connection differences); regressions of the repaired startup findings "
                       "D1-D3 (non-ASCII / any-case names / empty values at startup); the open finding D4) "
                       "+ %d seeded random (2-3 clients, pool_size 1 or 2; 30%% on a two-server pool (primary + replica, default_role any, pool_size 2) whose servers / connections report different read-only parameters and/or different defaults of tracked GUCs, the mock refusing SET of read-only parameters with 55P02; pool_mode transaction (65%%) or session (35%%), 6-16 messages of 1-3 statements, 30%% with near-equal value families on pool_size 1; statement mix incl. COPY FROM STDIN (CopyDone / CopyFail) / TO STDOUT, PREPARE, DEALLOCATE, DEALLOCATE ALL, DISCARD ALL, SET/RESET ROLE; startup sets over the five keys in any ASCII case incl. empty and non-ASCII values, values: words, quotes, backslashes, comment and "
                       "dollar markers, newlines, non-ASCII UTF-8, empty, up to 1.5 kB; 20 kB in a hand-made one). distinct = distinct (statement shape, backend tracked values) and (key, value) pairs seen in SET batches" % (nb, nrand))
    run.cov["samples"] = samples[:4]
    run.cov["input_distribution"] = dist
    run.cov["inconclusive_scenarios"] = inconclusive
    if inconclusive > max(2, len(scns) // 100):
        run.broken.append("%d of %d scenarios were inconclusive twice (a scripted recv did not reach ReadyForQuery)" % (inconclusive, len(scns)))
    run.log("scenarios=%d client messages=%d sync batches=%d distinct=%d" % (evals, dist["client_messages"], dist["sync_batches"], len(distinct)))

    if (first_tie or const_bad) and not run.violations:
        # widened monitor search (no model involved) before a tie break is reported without a failing input
        extra = [Scn(rng, 1 if rng.random() < 0.6 else 2, rng.choice([2, 3]), rng.randint(8, 18), mode=rng.choice(["transaction", "session"])) for _ in range(300)]
        eo, _ = run_batch(run, wire, extra, "c12_w", with_model=False)
        for s2, o2 in zip(extra, eo or []):
            if o2.sane:
                for kind, text, flags in monitors(s2, o2):
                    classify(run, known, flags, kind, text, {"input": s2.describe(), "monitor": kind, "scenario": s2.to_json(),
                                                               "after_tie_break": first_tie[1] if first_tie else const_bad})
            if run.violations:
                break
    if const_bad and not run.violations:
        run.violation("tie-broken", "constants of src/server.rs differ from the model: " + "; ".join(const_bad),
                      {"correspondence": "TRACKED_PARAMETERS / ServerParameters::new / set_param vs coq/Params/Model.v", "detail": const_bad}, found_input=False)
    if first_tie and not run.violations:
        s, d = first_tie
        run.violation("tie-broken", "model and implementation disagree: " + d,
                      {"correspondence": "coq/Params/Model.v run_mock vs pgcat on the wire", "input": s.describe(), "disagreement": d,
                       "scenario": s.to_json(), "note": "no monitor violation on this or any other scenario of the run"}, found_input=False)
    if not proof_ok and not run.violations and not run.broken:
        run.violation("proof-broken", "Params/Props.v no longer checks; the monitors found no failing input on %d scenarios" % evals,
                      {"theorem": "Params/Props.v", "coq_log": log[-2500:]}, found_input=False)
    if not quick and proof_ok:
        vlib.coqchk(run, ["PV.Params.Props"])


def replay(run, path):
    """re-run the stored scenario on the implementation: monitors (the property itself) and the model differential"""
    r = json.load(open(path))
    print(json.dumps({k: v for k, v in r.items() if k not in ("scenario",)}, indent=1, ensure_ascii=False)[:4000])
    if "scenario" not in r:
        return 0
    ok, blog, bins = vlib.cargo_build(["wire"])
    if not ok:
        print("harness does not build"); return 2
    s = Scn.from_json(r["scenario"])
    res = W.run_scenario(bins["wire"], s.wire())
    o = Obs(s, res)
    for e in res.get("events", []):
        if e.get("ev") == "msg" and e.get("tag") == "Q":
            print("backend conn %s <- %r   tracked=%s dirty=%s" % (e["conn"], e["detail"].get("sql", "")[:160], {k: e["tracked"].get(k) for k in TRACKED}, e["state"]["gucs"]))
        elif e.get("ev") == "startup_done":
            print("client %s startup ok=%s: %s" % (e["who"], e.get("auth_ok"), {f["k"]: f["v"] for f in e["frames"] if f["t"] == "S" and f["k"] in TRACKED}))
    probs = monitors(s, o)
    for kind, text, flags in probs:
        print("MONITOR %s %s%s" % (kind, text, (" [known class %s]" % sorted(flags)) if flags else ""))
    d = None
    try:
        v = vlib.coq_eval("c12r", PREAMBLE, [model_ops(s, o)])[0]
        d = diff_model(s, o, v)
    except Exception as ex:
        print("model evaluation failed:", str(ex)[:300])
    print("MODEL-DIFF:", d)
    bad = [p for p in probs if not p[2]]
    print("replay: %d monitor violations (%d outside known classes), model differential %s" % (len(probs), len(bad), "DISAGREES" if d else "agrees"))
    return 1 if (bad or d) else 0
