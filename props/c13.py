"""C13 — the SET/SHOW routing commands behave as a small, exact language.

P : coq/Cmd/Props.v — `classify` (the seven anchored regexes + the "exactly one matches" rule,
    hand-written recogniser over the raw query bytes) accepts exactly the grammar `Lang` of
    coq/Cmd/Spec.v; router-state refinement (SHOW reports what the SETs established); reply
    encoders round-trip through an independent frame reader; numbers of any length answered.
T1: translate/c13_consts.py extracts the seven regex literals, the index->Command table and
    the reply texts of handle_custom_protocol from /repo's source on every run
    (coq/Gen/CmdGen.v); coq/Cmd/Tie.v proves the model uses exactly those.
T2: three-way differential: `classify` evaluated in coqc  vs  Python `re` on the EXTRACTED
    literals  vs  the real QueryRouter::try_execute_command (harness bin `cmdlang`);
    command sequences vs `handle`/`encode` (reply bytes compared byte-exactly with the real
    messages.rs encoders); the property's own predicate is also evaluated directly on the
    implementation's outputs (monitor, Python transcription of the documented semantics).
Former findings D1 (SET PRIMARY READS argument compared case-sensitively) and D2 (Unicode-aware
(?i)) are fixed in /repo (e1a07ff, b30a63c); the model follows the repaired code and a
reproduction of either is a VIOLATION.
"""
import itertools, json, os, re, struct, subprocess, sys
if hasattr(sys, "set_int_max_str_digits"):
    sys.set_int_max_str_digits(0)   # the numeric arguments of the generated commands run to thousands of digits
from concurrent.futures import ThreadPoolExecutor
import vlib

COQ_FILES = ["Cmd/Model.v", "Cmd/Spec.v", "Cmd/Proofs.v", "Cmd/WireProofs.v", "Cmd/Props.v", "Cmd/Tie.v"]
PRE = "From PV Require Import Cmd.Model.\nFrom Coq Require Import NArith List. Import ListNotations. Open Scope N_scope."
CMDS = ["SetShardingKey", "SetShard", "ShowShard", "SetServerRole", "ShowServerRole", "SetPrimaryReads",
        "ShowPrimaryReads", "InvalidShardingKey"]
I64_MAX, USIZE_MAX = 2**63 - 1, 2**64 - 1
sys.path.insert(0, os.path.join(vlib.ROOT, "translate"))
import c13_consts as T  # noqa: E402

_INFO = {}


# ------------------------------------------------------------------------------ T1
def translate(run):
    os.makedirs(os.path.join(vlib.COQ, "Gen"), exist_ok=True)
    out = os.path.join(vlib.COQ, "Gen", "CmdGen.v")
    tmpd = os.path.join(vlib.TMP, "c13")
    os.makedirs(tmpd, exist_ok=True)
    tmp, info = os.path.join(tmpd, "CmdGen.v.new"), os.path.join(tmpd, "consts.json")
    rc, log = vlib.sh([sys.executable, os.path.join(vlib.ROOT, "translate", "c13_consts.py"),
                       os.path.join(vlib.REPO, "src", "query_router.rs"), os.path.join(vlib.REPO, "src", "client.rs"), tmp, info], timeout=60)
    if rc != 0:
        return False, log.strip()
    new = open(tmp).read()
    if not os.path.exists(out) or open(out).read() != new:
        os.replace(tmp, out)
    else:
        os.remove(tmp)
    _INFO.clear()
    _INFO.update(json.load(open(info)))
    return True, ""


# ------------------------------------------------------------------------------ harness
def _chunk(binp, cases):
    inp = "\n".join(json.dumps(c) for c in cases).encode() + b"\n"
    p = subprocess.run([binp], input=inp, stdout=subprocess.PIPE, stderr=subprocess.PIPE, timeout=900)
    lines = p.stdout.decode().splitlines()
    if p.returncode != 0 or len(lines) != len(cases):
        raise RuntimeError("cmdlang harness failed rc=%s: %d/%d lines; stderr: %s" % (p.returncode, len(lines), len(cases), p.stderr.decode()[-800:]))
    return [json.loads(l) for l in lines]


def run_cases(binp, cases, workers=16):
    if len(cases) <= 4:
        return _chunk(binp, cases)
    size = max(1, (len(cases) + workers - 1) // workers)
    chunks = [cases[i:i + size] for i in range(0, len(cases), size)]
    with ThreadPoolExecutor(max_workers=workers) as ex:
        outs = list(ex.map(lambda ch: _chunk(binp, ch), chunks))
    return [r for o in outs for r in o]


def real_classify(binp, queries, settings=None, per_case=400):
    """fresh router per query is not needed for classification: the cmd/capture do not depend on
    the state; but SET SHARD leaves an out-of-range shard behind at try_execute level, so the
    glue (restore) is applied by the harness exactly as client.rs does."""
    settings = settings or {"shards": 5}
    cases = [{"settings": settings, "steps": [{"op": "q", "hex": q.hex()} for q in queries[i:i + per_case]]}
             for i in range(0, len(queries), per_case)]
    res = run_cases(binp, cases)
    outs = [o for r in res for o in r["out"]]
    return outs


def impl_obs(o):
    """canonical observation of one step: ('panic',) | None | (cmd, capture-or-None)"""
    if "panic" in o:
        return ("panic", o["panic"][:80])
    if o["cmd"] is None:
        return None
    name, val = o["cmd"]
    if name == "SetShardingKey":           # value is the shard, the capture is not observable
        return (name, None)
    if name.startswith("Show"):
        return (name, b"")
    return (name, val.encode())


# ------------------------------------------------------------------------------ oracles
EXPECTED_SHAPE = re.compile(r"\(\?i-u\)\^ \*[A-Z ]+( '\??\([^()]*\)'\??)? \*;\? \*\$")


def rust_regex_to_python(lit):
    """Generic rendering of a Rust regex literal for Python `re` (used for whatever literals the
    source contains NOW, expected shape or not): leading flag group (?on-off) -> re flags
    (i -> IGNORECASE, -u -> ASCII, m/s/x as they are); `$` (end of text in Rust without m) -> \\Z.
    Rust's is_match()/captures() SEARCH, so an unanchored literal matches anywhere."""
    flags, body = 0, lit
    m = re.match(r"\(\?([a-zA-Z]*)(?:-([a-zA-Z]*))?\)", body)
    if m:
        on, off = m.group(1), m.group(2) or ""
        body = body[m.end():]
        if "i" in on:
            flags |= re.I
        if "u" in off:
            flags |= re.A
        if "s" in on:
            flags |= re.S
        if "x" in on:
            flags |= re.X
        if "m" in on:
            flags |= re.M
    if not flags & re.M:
        body = re.sub(r"(?<!\\)\$", r"\\Z", body)
    return re.compile(body, flags)


class PyRegexOracle:
    """Python `re` on regex literals (the ones extracted from the source, or the pinned,
    documented ones).  The expected literals carry (?i-u): ASCII-only case folding, rendered
    as re.IGNORECASE | re.ASCII (Python's Unicode IGNORECASE would also fold U+017F, U+212A,
    U+0130, U+0131); a non-ASCII character can then match nothing in these patterns.
    Never raises: a literal of unexpected shape is compiled generically and listed in
    `self.odd`; one that cannot be compiled at all falls back to the pinned literal of the same
    index and is listed in `self.uncompilable`."""

    def __init__(self, literals, names=None):
        self.rx, self.odd, self.uncompilable = [], [], []
        self.names = list(names) if names and len(names) == len(literals) else (CMDS[:len(literals)] if len(literals) <= 7 else ["Regex%d" % i for i in range(len(literals))])
        for i, lit in enumerate(literals):
            if not EXPECTED_SHAPE.fullmatch(lit):
                self.odd.append((i, lit))
            try:
                self.rx.append(rust_regex_to_python(lit))
            except Exception as ex:      # noqa: BLE001 - any re.error / recursion problem
                self.uncompilable.append((i, lit, str(ex)))
                self.rx.append(rust_regex_to_python(T.PINNED_REGEXES[i]) if i < len(T.PINNED_REGEXES) else re.compile(r"(?!)"))

    def classify(self, q: bytes):
        s = q.decode("utf-8", "replace")
        hits = [(i, m) for i, m in ((i, r.search(s)) for i, r in enumerate(self.rx)) if m]
        if len(hits) != 1:
            return None
        i, m = hits[0]
        if m.re.groups:
            return (self.names[i], (m.group(1) or "").encode())
        return (self.names[i], b"")


def model_obs(v):
    idx, arg = v
    if idx == 99:
        return None
    if idx == 98:
        return ("panic",)
    return (CMDS[idx], bytes(arg))


def same_class(impl, other):
    try:
        return _same_class(impl, other)
    except (ValueError, TypeError, IndexError):      # a capture that is not what the documented grammar allows
        return False


def _same_class(impl, other):
    """impl observation (capture hidden for SetShardingKey / replaced for InvalidShardingKey)"""
    if impl is None or other is None:
        return impl is None and other is None
    if impl[0] == "panic":
        return False
    name, cap = impl
    if name == "InvalidShardingKey":
        return other[0] == "SetShardingKey" and other[1] == cap and int(cap) > I64_MAX
    if name == "SetShardingKey":
        return other[0] == name and int(other[1]) <= I64_MAX
    return (name, cap) == other


def coq_classify(name, queries, per_expr=150):
    exprs = ["map obs_classify [%s]" % "; ".join(vlib.coq_bytes(q) for q in queries[i:i + per_expr])
             for i in range(0, len(queries), per_expr)]
    vals = vlib.coq_eval(name, PRE, exprs, shard=max(1, (len(exprs) + 15) // 16))
    out = []
    for v in vals:
        out.extend(vlib.parse_coq(v))
    return out


# ------------------------------------------------------------------------------ generators
VALID = [  # (keyword tokens, quoting, argument alternatives)
    (["SET", "SHARDING", "KEY", "TO"], "opt", ["1234", "0", "007", "9223372036854775807", "9223372036854775808"]),
    (["SET", "SHARD", "TO"], "opt", ["0", "3", "99", "ANY"]),
    (["SHOW", "SHARD"], None, []),
    (["SET", "SERVER", "ROLE", "TO"], "mand", ["PRIMARY", "REPLICA", "ANY", "AUTO", "DEFAULT"]),
    (["SHOW", "SERVER", "ROLE"], None, []),
    (["SET", "PRIMARY", "READS", "TO"], "opt", ["on", "off", "default"]),
    (["SHOW", "PRIMARY", "READS"], None, []),
]
TOKENS = ["SET", "SHOW", "SHARD", "SHARDING", "KEY", "TO", "SERVER", "ROLE", "PRIMARY", "READS",
          "1", "'1'", "ANY", "'primary'", "on", ";"]
TRAILS = ["", " ", ";", " ;", "; ", "  ;  ", ";;", "; ;", " ; x"]


def casings(rng, w, k=2):
    out = [w.upper(), w.lower(), w.title()]
    for _ in range(k):
        out.append("".join(c.upper() if rng.random() < 0.5 else c.lower() for c in w))
    return out


def gen_spellings(rng, full=True):
    out = []
    for kws, q, args in VALID:
        base = " ".join(kws)
        for lead in (("", " ", "   ") if full else ("", "  ")):
            for cs in (casings(rng, base, 1) if full else casings(rng, base, 1)[1:]):
                if q is None:
                    for tr in TRAILS:
                        out.append(lead + cs + tr)
                    continue
                for a in args:
                    for ca in (casings(rng, a, 1) if full else casings(rng, a, 1)[::3]) if a.isalpha() else [a]:
                        for ql, qr in (("", ""), ("'", "'"), ("'", ""), ("", "'"), ('"', '"'), ("''", "''")):
                            for tr in TRAILS:
                                out.append(lead + cs + " " + ql + ca + qr + tr)
    return [s.encode() for s in out]


def canon_commands():
    out = []
    for kws, q, args in VALID:
        if q is None:
            out.append(" ".join(kws))
        for a in args[:3]:
            out.append(" ".join(kws) + " " + ("'%s'" % a))
            if q == "opt":
                out.append(" ".join(kws) + " " + a)
    return out


def gen_token_strings(maxlen):
    out = []
    for n in range(1, maxlen + 1):
        for t in itertools.product(TOKENS, repeat=n):
            out.append(" ".join(t).encode())
    return out


def gen_token_edits():
    """every valid token sequence with one token deleted / inserted / replaced / duplicated /
    swapped: covers the 5-7 token neighbourhood of the language exhaustively"""
    out = set()
    for kws, q, args in VALID:
        seqs = [kws] if q is None else [kws + [a if q == "opt" else "'%s'" % a] for a in args[:2]] + [kws + ["'%s'" % args[0]]]
        for s in seqs:
            for s2 in (s, s + [";"]):
                n = len(s2)
                out.add(" ".join(s2))
                for i in range(n):
                    out.add(" ".join(s2[:i] + s2[i + 1:]))
                    out.add(" ".join(s2[:i] + [s2[i]] + s2[i:]))
                    if i + 1 < n:
                        out.add(" ".join(s2[:i] + [s2[i + 1], s2[i]] + s2[i + 2:]))
                    for t in TOKENS:
                        out.add(" ".join(s2[:i] + [t] + s2[i + 1:]))
                for i in range(n + 1):
                    for t in TOKENS:
                        out.add(" ".join(s2[:i] + [t] + s2[i:]))
    return sorted(x.encode() for x in out)


def gen_near_misses(rng):
    out = []
    canon = canon_commands()
    junk = ["x", "--", "-- c", "/* c */", "SELECT 1;", "SELECT 1", ";", "\\", "()", "\t", "\n", "\r\n", "\x0b", "\x0c", "\xa0", " ", "﻿"]
    for c in canon:
        for j in junk:
            out += [j + c, j + " " + c, c + j, c + " " + j, c + ";" + j, c + "; " + j]
        # two commands in one message / embedded
        for d in canon[:6]:
            out += [c + ";" + d, c + "; " + d, c + " " + d]
        out += ["SELECT '" + c.replace("'", "''") + "'", "BEGIN; " + c + "; COMMIT", "EXPLAIN " + c, "(" + c + ")", c + " AND 1=1"]
        # every space replaced / doubled / removed
        for i, ch in enumerate(c):
            if ch == " ":
                for r in ("\t", "\n", "\r", "  ", "", "\x0b", "\xa0", "　", "_", "/**/"):
                    out.append(c[:i] + r + c[i + 1:])
        # character-level edits of the keywords
        for i in range(len(c)):
            out.append(c[:i] + c[i + 1:])
            out.append(c[:i] + c[i] + c[i:])
            out.append(c[:i] + rng.choice("xqz0_-") + c[i + 1:])
        out += [c + "\n", "\n" + c, c + "\r\n", c + " \n", c + ";\n", c + "\t"]
    # sizes around the limits other parts of the pooler work with (regex_search_limit 1000, the 8196-byte buffers): the WHOLE
    # query decides, however long it is (a command followed far away by another statement, a command after long padding,
    # trailing blanks, very long zero-padded numbers)
    for c in canon[:10]:
        for n in (986, 1000, 1200, 8200):
            out += [c + " " * n + "; DELETE FROM t", c + ";" + " " * n + "SELECT 1", " " * n + c, c + " " * n, c + " " * n + ";"]
    for n in (980, 1200, 8200):
        for pre in ("SET SHARD TO ", "SET SHARDING KEY TO "):
            out += [pre + "0" * n + "2", pre + "'" + "0" * n + "1'", pre + "0" * n + "2; SELECT 1", pre + "1" + "0" * n]
    return [s.encode() for s in out]


def gen_numbers(rng, extra):
    out = []
    nums = []
    for n in range(1, 41):
        nums.append("9" * n)
        nums.append("1" + "0" * (n - 1))
        nums.append("0" * n)
        nums.append("0" * (n - 1) + "7")
        for _ in range(extra):
            nums.append("".join(rng.choice("0123456789") for _ in range(n)))
    for b in (2**31, 2**32, 2**63, 2**64):
        for d in (-2, -1, 0, 1, 2):
            nums.append(str(b + d))
            nums.append("000" + str(b + d))
    nums += ["4", "5", "04", "0005", "3.0", "1e3", "+1", "-1", "0x10", "1_000", "1 2", "١", "１"]
    for n in nums:
        for pre in ("SET SHARD TO ", "SET SHARDING KEY TO "):
            out += [pre + n, pre + "'" + n + "'", pre + n + ";"]
    return [s.encode() for s in out]


def gen_unicode(rng):
    out = []
    folds = {"S": ["ſ", "ś", "Ｓ", "ｓ", "$"], "K": ["K", "ĸ", "Ｋ", "κ"],
             "I": ["ı", "İ", "ï"], "A": ["Å", "Å", "а", "á"], "E": ["Е", "é"],
             "O": ["ö", "О", "0"], "T": ["Т", "ţ"], "H": ["Н"], "R": ["ʀ"], "D": ["Ð"],
             "N": ["ñ"], "Y": ["ý"], "W": ["ŵ"], "P": ["Р"], "M": ["М"], "L": ["Ł"], "V": ["Ⅴ"]}
    for c in canon_commands():
        for i, ch in enumerate(c):
            for f in folds.get(ch.upper(), []):
                out.append((c[:i] + f + c[i + 1:]).encode())
                out.append((c[:i] + f + c[i + 1:]).lower().encode() if f in ("ſ", "K") else (c[:i] + f + c[i + 1:]).encode())
        # all S / all K replaced
        out.append(c.replace("S", "ſ").encode())
        out.append(c.replace("K", "K").replace("S", "ſ").encode())
        b = c.encode()
        # invalid UTF-8 and lone fold lead bytes at every position (bounded)
        for i in sorted(set([0, 1, 3, 4, len(b) // 2, len(b) - 1, len(b)])):
            for bad in (b"\x80", b"\xff", b"\xc5", b"\xe2\x84", b"\xc5\xbf", b"\xe2\x84\xaa", b"\xc1\x93", b"\xed\xa0\x80", b"\xef\xbf\xbd", b"\xc2\xa0", b"\xef\xbb\xbf"):
                out.append(b[:i] + bad + b[i:])
                if i < len(b):
                    out.append(b[:i] + bad + b[i + 1:])
    return out


# ------------------------------------------------------------------------------ monitor (no model involved)
def frames(b: bytes):
    """independent PostgreSQL frame reader: list of (tag, body) or None"""
    out, i = [], 0
    while i < len(b):
        if i + 5 > len(b):
            return None
        ln = struct.unpack(">i", b[i + 1:i + 5])[0]
        if ln < 4 or i + 1 + ln > len(b):
            return None
        out.append((b[i:i + 1], b[i + 5:i + 1 + ln]))
        i += 1 + ln
    return out


def parse_reply(b: bytes):
    """('ok', tag) | ('show', name, value) | ('err', message) | None if not well-formed"""
    fs = frames(b)
    if not fs or fs[-1] != (b"Z", b"I"):
        return None
    tags = b"".join(t for t, _ in fs)
    if tags == b"CZ":
        body = fs[0][1]
        if body.endswith(b"\0") and b"\0" not in body[:-1]:
            return ("ok", body[:-1])
    if tags == b"TDCZ":
        t, d, c = fs[0][1], fs[1][1], fs[2][1]
        if t[:2] != b"\0\1" or d[:2] != b"\0\1" or c != b"SELECT 1\0":
            return None
        z = t.find(b"\0", 2)
        name, rest = t[2:z], t[z + 1:]
        if rest != struct.pack(">ihihih", 0, 0, 25, -1, -1, 0):
            return None
        n = struct.unpack(">i", d[2:6])[0]
        if n != len(d) - 6:
            return None
        return ("show", name, d[6:])
    if tags == b"EZ":
        body = fs[0][1]
        if not body.endswith(b"\0\0"):
            return None
        fields = body[:-2].split(b"\0")
        if [f[:1] for f in fields] != [b"S", b"V", b"C", b"M"] or fields[0] != b"SFATAL" or fields[1] != b"VFATAL" or len(fields[2]) != 6:
            return None
        return ("err", fields[3][1:])
    return None


class DocState:
    """what the documentation says the SETs establish (argument words case-insensitive)"""

    def __init__(self, settings):
        self.n = settings.get("shards", 1)
        self.default_role = settings.get("default_role")
        self.parser = settings.get("parser", False)
        self.preads_cfg = settings.get("primary_reads", True)
        self.func = settings.get("func", "pg")
        self.shard, self.role, self.preads = None, "default", "default"
        self.role_default = self.default_role      # the pool default as it was when the session took it (connect or SET .. 'default')

    def reconfigure(self, settings):
        """a RELOAD rebuilt the pool: later commands are judged by the new settings; what the SETs established stays"""
        self.n = settings.get("shards", 1)
        self.default_role = settings.get("default_role")
        self.parser = settings.get("parser", False)
        self.preads_cfg = settings.get("primary_reads", True)
        self.func = settings.get("func", "pg")

    def apply(self, cmd, cap, chosen_shard):
        """returns the expected reply kind"""
        w = cap.decode("latin1").lower()
        if cmd == "SetShardingKey":
            if int(w) <= I64_MAX:
                self.shard = chosen_shard
                return "ok"
            return "err"
        if cmd == "SetShard":
            if w == "any":
                self.shard = chosen_shard
                return "ok"
            if int(w) < self.n:
                self.shard = int(w)
                return "ok"
            return "err"
        if cmd == "SetServerRole":
            self.role = w
            if w == "default":
                self.role_default = self.default_role
            return "ok"
        if cmd == "SetPrimaryReads":
            self.preads = w
            return "ok"
        return "show"

    def show(self, cmd):
        if cmd == "ShowShard":
            return b"unset" if self.shard is None else str(self.shard).encode()
        if cmd == "ShowServerRole":
            if self.role != "default":
                return self.role.encode()
            if self.role_default:
                return self.role_default.encode()
            return b"auto" if self.parser else b"any"
        v = {"on": True, "off": False, "default": self.preads_cfg}[self.preads]
        return b"on" if v else b"off"


SHOW_NAME = {"ShowShard": b"shard", "ShowServerRole": b"server role", "ShowPrimaryReads": b"primary reads"}
OK_TAG = {"SetShard": b"SET SHARD", "SetShardingKey": b"SET SHARDING KEY", "SetServerRole": b"SET SERVER ROLE", "SetPrimaryReads": b"SET PRIMARY READS"}


def monitor_session(oracle, settings, queries, outs):
    """the property evaluated on the implementation's own outputs.  Returns the list of
    deviations (step index, text); empty = the session satisfies the property."""
    doc = DocState(settings)
    problems = []
    for i, (q, o) in enumerate(zip(queries, outs)):
        if "panic" in o:
            problems.append((i, "panics: " + o["panic"][:100]))
            break
        want = oracle.classify(q)
        if (want is None) != (not o["handled"]):
            problems.append((i, "query %r %s by the pooler but the documented language says %s" % (q, "handled" if o["handled"] else "not handled", want)))
            break
        if want is None:
            continue
        rep = parse_reply(bytes.fromhex(o["reply"]))
        if rep is None:
            problems.append((i, "reply to %r is not a well-formed message sequence ending in ReadyForQuery: %s" % (q, o["reply"])))
            break
        cmd, cap = want
        chosen = o["pre_state"]["shard"] if cmd == "SetShard" else o["state"]["shard"]
        try:
            kind = doc.apply(cmd, cap, chosen)
        except (ValueError, KeyError):
            problems.append((i, "%r taken as %s with argument %r, which the documented grammar does not allow" % (q, cmd, cap)))
            break
        if rep[0] != kind:
            problems.append((i, "%r answered with %s, expected %s" % (q, rep[0], kind)))
            break
        if kind == "ok" and rep[1] != OK_TAG[cmd]:
            problems.append((i, "%r: CommandComplete tag %r" % (q, rep[1])))
            break
        if kind == "show":
            if rep[1] != SHOW_NAME[cmd]:
                problems.append((i, "%r: column %r" % (q, rep[1])))
                break
            if rep[2] != doc.show(cmd):
                problems.append((i, "%r reports %r but the preceding SETs established %r" % (q, rep[2], doc.show(cmd))))
                break
        if cmd in ("SetShard", "SetShardingKey") and kind == "ok" and not (o["state"]["shard"] is not None and o["state"]["shard"] < doc.n):
            problems.append((i, "%r selected shard %r of %d" % (q, o["state"]["shard"], doc.n)))
            break
        if kind == "err" and o["state"]["shard"] != (outs[i - 1]["state"]["shard"] if i else None):
            problems.append((i, "%r was refused but the shard changed" % q))
            break
    return problems


# ------------------------------------------------------------------------------ sequences
def gen_session(rng, n_shards):
    L = rng.randint(1, 8)
    qs = []
    for _ in range(L):
        r = rng.random()
        if r < 0.25:
            q = rng.choice(["SHOW SHARD", "SHOW SERVER ROLE", "SHOW PRIMARY READS", "show shard;", " SHOW primary READS ; "])
        elif r < 0.45:
            v = rng.choice([str(rng.randint(0, n_shards - 1)), str(rng.randint(0, n_shards + 2)), "ANY", "any", "0" * rng.randint(1, 5) + str(rng.randint(0, n_shards)),
                            str(rng.getrandbits(rng.choice([8, 40, 64, 65, 100])))])
            q = "SET SHARD TO " + rng.choice(["%s", "'%s'", "%s'", "'%s"]) % v
        elif r < 0.6:
            v = rng.choice([str(rng.getrandbits(rng.choice([4, 31, 62, 63, 64, 90]))), "9223372036854775807", "9223372036854775808", "0", "000123"])
            q = "SET SHARDING KEY TO " + rng.choice(["%s", "'%s'"]) % v
        elif r < 0.75:
            v = rng.choice(["primary", "replica", "any", "auto", "default", "PRIMARY", "Replica", "AUTO", "Default", "ANY"])
            q = "SET SERVER ROLE TO '%s'" % v
        elif r < 0.9:
            v = rng.choice(["on", "off", "default", "on", "off", "default", "ON", "Off", "DEFAULT"])
            q = "SET PRIMARY READS TO " + rng.choice(["%s", "'%s'"]) % v
        else:
            q = rng.choice(["SELECT 1", "SET SHARD TO 1; SELECT 1", "SET search_path TO x", "SHOW SHARDS", "SET SERVER ROLE TO primary", "BEGIN", "SET SHARD TO -1"])
        if rng.random() < 0.3:
            q = "".join(c.upper() if rng.random() < 0.5 else c.lower() for c in q)
        if rng.random() < 0.2:
            q += rng.choice([";", " ;", "; ", "  "])
        qs.append(q.encode())
    return qs


def env_expr(s):
    dr = {None: "None", "primary": "(Some Primary)", "replica": "(Some Replica)"}[s.get("default_role")]
    return "(mkEnv %d %s %s %s)" % (s["shards"], dr, "true" if s.get("parser") else "false", "true" if s.get("primary_reads", True) else "false")


def st_obs(st):
    return (st["shard"], {None: 0, "primary": 1, "replica": 2, "mirror": 3}[st["role"]], st["parser"], st["primary_reads"])


def coq_obs_state(v):
    sh, role, p, r = v
    return (None if sh is None else sh[1], role, p, r)


# ------------------------------------------------------------------------------ the check
def check(run):
    quick = run.tier == "quick"
    rng = run.rng
    run.assumptions += [
        "Coq 8.16.1 kernel + vm_compute (no native_compute); Print Assumptions: closed under the global context for every theorem",
        "regex crate semantics of the seven patterns (anchors, (?i-u) ASCII case folding, leftmost-first alternation) and String::from_utf8_lossy are environment: the hand-written recogniser is validated against the real try_execute_command on every generated string and by a scan of all Unicode scalar values per pattern letter",
        "Client::handle_custom_protocol (private async method) is transcribed in Model.v `handle` and in harness/src/bin/cmdlang.rs (library legs); its reply texts and call targets are extracted from client.rs on every run (Tie.v), and the REAL function is exercised by the wire leg: pgcat in-process behind scripted clients and mock backends (harness bin `wire`), replies compared byte-exactly with `handle`+`encode`",
        "wire leg: the mock backends (harness/src/mockpg.rs) only record what reaches them; pools use query_parser_read_write_splitting = false so that ordinary statements do not move the role (role inference is C05)",
        "Sharder::shard(key) and rand::random() % shards are oracle inputs of the model (read back from the implementation's trace; < shards is checked by the monitor; the hash itself is C06)",
        "pool has >= 1 shard (validated configuration) — SET SHARD TO ANY with 0 shards would divide by zero",
    ]
    run.cov["trusted_base"] = ["coqc 8.16.1 kernel", "vm_compute", "translate/c13_consts.py", "harness/src/bin/cmdlang.rs (glue transcription of handle_custom_protocol)",
                               "harness/src/bin/wire.rs + mockpg.rs + props/wirelib.py (in-process pgcat, mock backends, scripted client)", "props/c06.py pg_partition (Python transcription of PostgreSQL's hash partitioning, oracle for SET SHARDING KEY on the wire)",
                               "props/c13.py (generators, Python re oracle, monitor)", "coq/Cmd/Spec.v as the reading of the documented commands"]
    # 1. translate
    tr_ok, tr_msg = translate(run)
    # 2. prove
    proof_ok, log = vlib.prove(run, COQ_FILES, "Cmd/Props.v")
    tie_ok, tie_log = False, tr_msg
    if tr_ok:
        tie_ok, tie_log = vlib.coq_make(["Cmd/Tie.vo"], force=["Cmd/Tie"], timeout=600)
        if tie_ok:
            blocks = vlib.parse_assumptions(tie_log)
            if len(blocks) < 3 or any(blocks):
                run.broken.append("Tie.v Print Assumptions audit: %r" % blocks)
    if proof_ok and not tie_ok:
        n_tie, _ = vlib.count_obligations(["Cmd/Tie.v"])
        run.cov["discharged"] = run.cov["obligations"] - n_tie
    run.log("translate ok=%s proof ok=%s tie ok=%s" % (tr_ok, proof_ok, tie_ok))
    literals_now = _INFO.get("regexes") if tr_ok else None
    run.cov["t1"] = {"regex_literals_equal_pinned": bool(tr_ok and _INFO.get("regexes_match_pinned")), "index_map": _INFO.get("cmd_order"),
                     "exactly_one_rule_present": _INFO.get("exactly_one_rule"), "reply_literals": len(_INFO.get("replies", []))}
    # 3. harness
    ok, blog, bins = vlib.cargo_build(["cmdlang"])
    if not ok:
        run.violation("tie-broken", "harness does not build against /repo (API used by the correspondence changed)",
                      {"correspondence": "cmdlang harness build", "log": blog[-3000:]}, found_input=False)
        return
    binp = bins["cmdlang"]
    doc_oracle = PyRegexOracle(T.PINNED_REGEXES)                         # the documented language
    src_oracle = PyRegexOracle(literals_now, _INFO.get("cmd_order")) if literals_now else doc_oracle   # the literals as found
    tie_name = None
    if not tr_ok:
        tie_name = "translator shape (translate/c13_consts.py: %s)" % tr_msg
    elif not tie_ok:
        if literals_now != T.PINNED_REGEXES:
            changed = [i for i, (a, b) in enumerate(itertools.zip_longest(literals_now, T.PINNED_REGEXES)) if a != b]
            tie_name = "Cmd/Tie.v c13_tie_regexes (render_form forms = the regex literals of the source): literal(s) #%s changed, now %s%s" % (
                changed, [literals_now[i] for i in changed if i < len(literals_now)],
                "; unexpected shape: %s" % [l for _, l in src_oracle.odd] if src_oracle.odd else "")
        elif _INFO.get("cmd_order") != CMDS[:7] or not _INFO.get("exactly_one_rule"):
            tie_name = "Cmd/Tie.v c13_tie_index_map (RegexSet index -> Command, `matches.len() != 1` rule)"
        else:
            tie_name = "Cmd/Tie.v c13_tie_replies (reply functions and texts of handle_custom_protocol)"
    run.cov["t1"]["literals_of_unexpected_shape"] = [l for _, l in src_oracle.odd]

    evals, distinct, samples = 0, set(), []
    dist = {}

    # 4a. classification --------------------------------------------------------------
    sets = {
        "token_strings": gen_token_strings(4 if quick else 5),
        "token_edits": gen_token_edits(),
        "spellings": gen_spellings(rng, full=not quick),
        "near_misses": gen_near_misses(rng),
        "numbers": gen_numbers(rng, 1 if quick else 8),
        "unicode": gen_unicode(rng),
    }
    allq, origin = [], {}
    for k, v in sets.items():
        v = [q for q in v if b"\0" not in q]
        dist[k] = len(v)
        for q in v:
            if q not in origin:
                origin[q] = k
                allq.append(q)
    outs = real_classify(binp, allq)
    impl = [impl_obs(o) for o in outs]
    pyo = [src_oracle.classify(q) for q in allq]
    accepted = sum(1 for x in impl if x is not None)
    # Coq on: everything outside the big exhaustive token set, every string anyone accepts,
    # every two-way disagreement, all token strings up to 3 tokens, and a random sample of the rest
    idx_coq = []
    rest = []
    for i, q in enumerate(allq):
        if origin[q] != "token_strings" or impl[i] is not None or pyo[i] is not None or q.count(b" ") <= 2:
            idx_coq.append(i)
        else:
            rest.append(i)
    rng.shuffle(rest)
    idx_coq += rest[: (2000 if quick else 60000)]
    cap = 16000
    if quick and len(idx_coq) > cap:        # keep the quick tier bounded: all accepted strings + a sample of the others
        keep = [i for i in idx_coq if impl[i] is not None or pyo[i] is not None]
        other = [i for i in idx_coq if not (impl[i] is not None or pyo[i] is not None)]
        rng.shuffle(other)
        idx_coq = keep + other[: max(4000, cap - len(keep))]
    run.log("implementation and Python oracle done on %d strings" % len(allq))
    coqv = {}
    if proof_ok:
        vals = coq_classify("c13a", [allq[i] for i in idx_coq])
        for i, v in zip(idx_coq, vals):
            coqv[i] = model_obs(v)
    run.log("classification: %d strings to the implementation (%d accepted), %d also evaluated in Coq" % (len(allq), accepted, len(coqv)))
    n_dis = 0
    for i, q in enumerate(allq):
        evals += 1
        distinct.add(q)
        if impl[i] is not None and impl[i][0] == "panic":
            run.violation("counterexample", "query %r panics try_execute_command: %s" % (q, impl[i][1]),
                          {"kind_of_input": "classify", "input": {"hex": q.hex(), "text": q.decode("utf-8", "replace")}, "impl": "panic"})
            n_dis += 1
        elif not same_class(impl[i], pyo[i]):
            docv = doc_oracle.classify(q)
            run.violation("counterexample" if not same_class(impl[i], docv) else "tie-broken",
                          "query %r: implementation %s, Python re on the source's regex literals %s, documented language %s" % (q, impl[i], pyo[i], docv),
                          {"kind_of_input": "classify", "correspondence": "try_execute_command vs regex literals", "input": {"hex": q.hex(), "text": q.decode("utf-8", "replace")},
                           "impl": str(impl[i]), "python_re": str(pyo[i]), "documented": str(docv)}, found_input=not same_class(impl[i], docv))
            n_dis += 1
        elif i in coqv:
            run.cov["traces_validated_against_impl"] += 1
            if not same_class(impl[i], coqv[i]):
                docv = doc_oracle.classify(q)
                run.violation("counterexample" if not same_class(impl[i], docv) else "tie-broken",
                              "query %r: implementation %s, Coq classify %s, documented language %s" % (q, impl[i], coqv[i], docv),
                              {"kind_of_input": "classify", "correspondence": "Cmd/Model.v classify vs try_execute_command", "input": {"hex": q.hex(), "text": q.decode("utf-8", "replace")},
                               "impl": str(impl[i]), "model": str(coqv[i]), "documented": str(docv)}, found_input=not same_class(impl[i], docv))
                n_dis += 1
        if n_dis >= 5:
            break
    # monitor on the documented language directly (independent of the source literals and the model)
    for i, q in enumerate(allq):
        if run.violations:
            break
        if impl[i] is not None and impl[i][0] == "panic":
            continue
        docv = doc_oracle.classify(q)          # None for every query with a non-ASCII byte
        if not same_class(impl[i], docv):
            run.violation("counterexample", "query %r: implementation %s, documented language %s" % (q, impl[i], docv),
                          {"kind_of_input": "classify", "input": {"hex": q.hex(), "text": q.decode("utf-8", "replace")}, "impl": str(impl[i]), "documented": str(docv)})
    samples.append({"kind": "classify", "query": allq[5].decode("utf-8", "replace"), "impl": str(impl[5]), "python_re": str(pyo[5]), "coq": str(coqv.get(5))})
    acc_i = next((i for i, x in enumerate(impl) if x is not None), 0)
    samples.append({"kind": "classify", "query": allq[acc_i].decode("utf-8", "replace"), "impl": str(impl[acc_i]), "python_re": str(pyo[acc_i]), "coq": str(coqv.get(acc_i))})

    # same valid spellings with comment routing configured: still commands, same answers
    if not run.violations:
        sub = [q for q in sets["spellings"] if src_oracle.classify(q) is not None][:: (7 if quick else 1)]
        S2 = {"shards": 5, "key_regex": r"/\* sharding_key: (\d+) \*/", "shard_regex": r"/\* shard_id: (\d+) \*/"}
        o2 = [impl_obs(o) for o in real_classify(binp, sub, S2)]
        for q, a in zip(sub, o2):
            evals += 1
            distinct.add((q, "comment-routing"))
            if not same_class(a, src_oracle.classify(q)):
                run.violation("counterexample", "with comment routing configured, command %r gives %s" % (q, a),
                              {"kind_of_input": "classify", "settings": S2, "input": {"hex": q.hex(), "text": q.decode()}, "impl": str(a)})
                break
        dist["spellings_with_comment_routing"] = len(sub)

    run.log("classification compared")
    # 4b. every Unicode scalar value in every letter position class ----------------------
    if not run.violations:
        evals += fold_scan(run, binp, quick, dist, samples)

    run.log("fold scan done")
    # 4c. message level: NUL handling, non-Q codes, empty body -----------------------------
    if not run.violations and proof_ok:
        evals += message_level(run, binp, distinct, samples)

    run.log("message level done")
    # 4d. sessions: handle / encode vs the real code, and the monitor ------------------------
    if not run.violations:
        evals += sessions(run, binp, quick, proof_ok, src_oracle, distinct, samples, dist)

    run.log("sessions done")
    # 4e. the three encoders on arbitrary strings ------------------------------------------
    if not run.violations and proof_ok:
        evals += encoders(run, binp, quick, distinct, samples, dist)

    run.log("encoders done")
    # 4f. the real Client::handle_custom_protocol on the wire ---------------------------------
    if not run.violations:
        evals += check_wire(run, quick, proof_ok, doc_oracle, distinct, samples, dist)
    run.log("wire done")
    run.cov["evaluations"] = evals
    run.cov["distinct_nontrivial"] = len(distinct) + dist.get("fold_scan_code_points_x_positions", 0)
    run.cov["distinct_breakdown"] = {"query_strings_sessions_encoder_inputs (set size)": len(distinct),
                                     "fold_scan (one query per (pattern position, Unicode scalar value), distinct by construction)": dist.get("fold_scan_code_points_x_positions", 0)}
    run.cov["rule"] = ("classification: exhaustive strings of 1..%d tokens over a %d-token vocabulary; every valid token sequence with one token deleted/inserted/replaced/duplicated/swapped; "
                       "all spellings (case x quotes x leading/trailing blanks x ';'); character edits, junk before/after, embedding, two commands per message, tab/newline/NBSP for space; "
                       "numeric arguments of 1..40 digits incl. leading zeros and the i64/usize boundaries; non-ASCII look-alikes and invalid UTF-8; all 1,112,063 Unicode scalar values in each letter class (fold scan). "
                       "sessions: seeded random command sequences (length 1..8) under varied pool settings. encoders: random strings. wire: scripted client sessions (3-10 SETs in random spellings, each followed by SHOWs, interleaved with tagged ordinary statements and near-miss texts) against pgcat in-process with 3 shards x (primary, replica), parser on/off: reply bytes vs handle+encode, command text never at a backend, non-commands byte-identical at exactly one backend of the selected shard / role. distinct = distinct query byte strings + distinct sessions + distinct encoder inputs"
                       % (4 if quick else 5, len(TOKENS)))
    run.cov["samples"] = samples[:10]
    run.cov["input_distribution"] = dist
    run.cov["accepted_as_command"] = accepted

    # 5. decide on broken proof / tie
    if tie_name and not run.broken:
        # the tie is broken whatever else was found: name the theorem, and say whether the implementation
        # itself deviates from the documented language on a concrete query (searched over everything generated)
        w = search_witness(binp, doc_oracle, allq, impl)
        if w:
            run.violation("counterexample", "%s no longer checks and the implementation deviates from the documented command language on %r: implementation %s, documented %s" % (tie_name, w["text"], w["impl"], w["documented"]),
                          {"theorem": tie_name, "kind_of_input": "classify", "input": w, "log": (tie_log or "")[-2500:]})
        else:
            run.violation("tie-broken", "%s no longer checks; no query on which the implementation deviates from the documented language was found" % tie_name,
                          {"theorem": tie_name, "log": (tie_log or "")[-2500:], "extracted": _INFO}, found_input=False)
    elif not proof_ok and not run.violations and not run.broken:
        w = search_witness(binp, doc_oracle, allq, impl)
        if w:
            run.violation("counterexample", "Cmd/Props.v no longer checks and the implementation deviates from the documented language on %r" % w["text"],
                          {"theorem": "Cmd/Props.v", "kind_of_input": "classify", "input": w, "coq_log": log[-2500:]})
        else:
            run.violation("proof-broken", "Cmd/Props.v no longer checks; no failing query found in the search", {"theorem": "Cmd/Props.v", "coq_log": log[-2500:]}, found_input=False)
    if not quick and proof_ok:
        vlib.coqchk(run, ["PV.Cmd.Props"])


def search_witness(binp, doc_oracle, allq, impl):
    for q, a in zip(allq, impl):
        if not same_class(a, doc_oracle.classify(q)):
            return {"hex": q.hex(), "text": q.decode("utf-8", "replace"), "impl": str(a), "documented": str(doc_oracle.classify(q))}
    return None


FOLD_TEMPLATES = {"S": ("", "ET SHARD TO 1"), "E": ("S", "T SHARD TO 1"), "T": ("SE", " SHARD TO 1"), "H": ("SET S", "ARD TO 1"), "A": ("SET SH", "RD TO 1"),
                  "R": ("SET SHA", "D TO 1"), "D": ("SET SHAR", " TO 1"), "O": ("SET SHARD T", " 1"), "I": ("SET SHARD", "NG KEY TO 1"), "N": ("SET SHARDI", "G KEY TO 1"),
                  "G": ("SET SHARDIN", " KEY TO 1"), "K": ("SET SHARDING ", "EY TO 1"), "Y": ("SET SHARDING KE", " TO 1"), "W": ("SHO", " SHARD"), "V": ("SHOW SER", "ER ROLE"),
                  "L": ("SHOW SERVER RO", "E"), "P": ("SHOW ", "RIMARY READS"), "M": ("SHOW PRI", "ARY READS"), "C": ("SET SERVER ROLE TO 'REPLI", "A'"),
                  "U": ("SET SERVER ROLE TO 'A", "TO'"), "F": ("SET PRIMARY READS TO o", "f"), " ": ("SET", "SHARD TO 1"), "'": ("SET SERVER ROLE TO ", "ANY'"),
                  "1": ("SET SHARDING KEY TO '", "'"), ";": ("SHOW SHARD ", " ")}


def fold_scan(run, binp, quick, dist, samples):
    """for each character class of the patterns: which of ALL Unicode scalar values may stand
    there.  Expected (= what Model.v eat_char / is_digit / tail_ok accept): the ASCII letter in
    both cases and NO non-ASCII scalar value ((?i-u)); digits 0-9; space; quote; ';' or space."""
    cases, meta = [], []
    for L, (p, s) in FOLD_TEMPLATES.items():
        cases.append({"settings": {"shards": 5}, "steps": [{"op": "foldscan", "prefix": p, "suffix": s, "lo": 1, "hi": 0x110000}]})
        meta.append(L)
    res = run_cases(binp, cases, workers=16)
    n = 0
    for L, r in zip(meta, res):
        hits = set(r["out"][0]["hits"])
        n += r["out"][0]["tried"]
        if L.isalpha():
            want = {ord(L), ord(L.lower())}
        elif L == "1":
            want = set(range(48, 58))
        elif L == ";":
            want = {32, 59}
        else:
            want = {ord(L)}
        if hits != want:
            extra = sorted(hits - want)[:5]
            missing = sorted(want - hits)[:5]
            run.violation("tie-broken" if not extra else "counterexample",
                          "in the position of %r the implementation accepts code points %s beyond / misses %s of what the model transcribes" % (L, [hex(x) for x in extra], [hex(x) for x in missing]),
                          {"correspondence": "Model.v eat_char vs regex crate (?i-u)", "kind_of_input": "classify",
                           "input": {"hex": (FOLD_TEMPLATES[L][0] + (chr(extra[0] & 0x7fffffff) if extra else "?") + FOLD_TEMPLATES[L][1]).encode().hex(), "text": "fold scan"},
                           "hits": sorted(hits)[:20], "expected": sorted(want)})
            break
    dist["fold_scan_code_points_x_positions"] = n
    samples.append({"kind": "fold_scan", "position_of": "K", "accepted_code_points": ["0x4b", "0x6b"], "scalar_values_tried": 1112063})
    return n


def message_level(run, binp, distinct, samples):
    raws = []
    for body in (b"SHOW SHARD\0", b"SHOW SHARD", b"SHOW SHARDx", b"SHOW SHARD\0 junk\0", b"\0", b"", b"SHOW SHARD\0\0", b"SET SHARD TO 1\0SELECT 1\0", b" \0", b"x"):
        for code in (b"Q", b"P", b"X", b"S"):
            raws.append((code, body))
    cases = [{"settings": {"shards": 5}, "steps": [{"op": "raw", "hex": (c + struct.pack(">i", len(b) + 4) + b).hex()}]} for c, b in raws]
    res = run_cases(binp, cases)
    vals = vlib.coq_eval("c13m", PRE, ["obs_classify_msg %d %s" % (c[0], vlib.coq_bytes(b)) for c, b in raws])
    n = 0
    for (c, b), r, v in zip(raws, res, vals):
        n += 1
        distinct.add(("raw", c, b))
        o = r["out"][0]
        im = ("panic",) if "panic" in o else impl_obs(o)
        mo = model_obs(vlib.parse_coq(v))
        run.cov["traces_validated_against_impl"] += 1
        ip, mp = bool(im and im[0] == "panic"), bool(mo and mo[0] == "panic")
        if ip != mp or (not ip and not same_class(im, mo)):
            run.violation("tie-broken", "message %r body %r: implementation %s, model %s" % (c, b, im, mo),
                          {"correspondence": "Model.v classify_msg vs try_execute_command", "kind_of_input": "raw", "input": {"hex": (c + struct.pack(">i", len(b) + 4) + b).hex()}, "impl": str(im), "model": str(mo)})
            break
    samples.append({"kind": "message", "body_hex": raws[8][1].hex(), "code": "Q", "model": vals[8]})
    return n


def sessions(run, binp, quick, proof_ok, oracle, distinct, samples, dist):
    rng = run.rng
    nsess = 400 if quick else 8000
    cfgs = []
    for _ in range(nsess):
        s = {"shards": rng.choice([1, 2, 3, 5, 16]), "parser": rng.random() < 0.5, "primary_reads": rng.random() < 0.6}
        dr = rng.choice([None, None, "primary", "replica"])
        if dr:
            s["default_role"] = dr
        cfgs.append((s, gen_session(rng, s["shards"])))
    # the fixed session of Props.v and the regression session of the former D1 first
    cfgs.insert(0, ({"shards": 5, "parser": False, "primary_reads": True},
                    [b"SET SHARD TO 3", b"SET SHARD TO 7", b"SET SHARD TO 99999999999999999999999", b"SET SHARD TO aNy", b"SET SHARDING KEY TO 12",
                     b"SET SHARDING KEY TO 9223372036854775808", b"SET SERVER ROLE TO 'Replica'", b"SET SERVER ROLE TO 'AUTO'", b"SET PRIMARY READS TO OFF", b"SHOW SHARD",
                     b"SHOW SERVER ROLE", b"SHOW PRIMARY READS"]))
    cfgs.insert(1, ({"shards": 1, "parser": False, "primary_reads": True}, [b"SET PRIMARY READS TO OFF", b"SHOW PRIMARY READS", b"SET PRIMARY READS TO 'On'", b"SHOW PRIMARY READS", b"SET PRIMARY READS TO DeFaUlT", b"SHOW PRIMARY READS"]))
    cases = [{"settings": s, "steps": [{"op": "q", "hex": q.hex()} for q in qs]} for s, qs in cfgs]
    res = run_cases(binp, cases)
    n = 0
    steps_total = 0
    # monitor
    for (s, qs), r in zip(cfgs, res):
        problems = monitor_session(oracle, s, qs, r["out"])
        steps_total += len(qs)
        if problems:
            i, msg = problems[0]
            run.violation("counterexample", "session %s under %s: step %d: %s" % ([q.decode("latin1") for q in qs[:i + 1]], s, i, msg),
                          {"kind_of_input": "session", "input": {"settings": s, "queries_hex": [q.hex() for q in qs[:i + 1]]}, "monitor": msg})
            return n
    # model
    if proof_ok:
        exprs = []
        for (s, qs), r in zip(cfgs, res):
            steps = []
            for q, o in zip(qs, r["out"]):
                want = oracle.classify(q)
                orc = 0
                if want and want[0] == "SetShard":
                    orc = o["pre_state"]["shard"] or 0
                elif want and want[0] == "SetShardingKey":
                    orc = o["pre_state"]["shard"] or 0
                steps.append("(%s, %d)" % (vlib.coq_bytes(q), orc))
            exprs.append("session_obs %s (init %s) [%s]" % (env_expr(s), env_expr(s), "; ".join(steps)))
        vals = vlib.coq_eval("c13s", PRE, exprs, shard=max(1, (len(exprs) + 15) // 16))
        for (s, qs), r, v in zip(cfgs, res, vals):
            mo = vlib.parse_coq(v)
            n += len(qs)
            distinct.add(("session", json.dumps(s, sort_keys=True), tuple(qs)))
            for i, (q, o, m) in enumerate(zip(qs, r["out"], mo)):
                mc, mv, mpre, mrep, mpost = m      # Coq prints left-nested pairs flat
                run.cov["traces_validated_against_impl"] += 1
                icmd = (99, b"") if o["cmd"] is None else (CMDS.index(o["cmd"][0]), o["cmd"][1].encode())
                got = (icmd, st_obs(o["pre_state"]), bytes.fromhex(o.get("reply", "")), st_obs(o["state"]))
                mod = ((mc, bytes(mv)), coq_obs_state(mpre), bytes(mrep), coq_obs_state(mpost))
                if got != mod:
                    field = [nm for nm, a, b in zip(("command/value", "state after try_execute_command", "reply bytes", "state after the reply"), got, mod) if a != b]
                    prob = monitor_session(oracle, s, qs, r["out"])
                    run.violation("counterexample" if prob else "tie-broken",
                                  "session %s under %s: step %d differs in %s: implementation %s, model %s" % ([x.decode("latin1") for x in qs[:i + 1]], s, i, field, got, mod),
                                  {"kind_of_input": "session", "correspondence": "Cmd/Model.v handle/encode vs try_execute_command + messages.rs", "input": {"settings": s, "queries_hex": [x.hex() for x in qs[:i + 1]]},
                                   "impl": str(got), "model": str(mod)}, found_input=bool(prob))
                    return n
        samples.append({"kind": "session", "settings": cfgs[0][0], "queries": [q.decode() for q in cfgs[0][1]], "replies_hex": [o.get("reply", "")[:60] for o in res[0]["out"]]})
    dist["sessions"] = len(cfgs)
    dist["session_steps"] = steps_total
    return n


def rand_text(rng, n):
    alphabet = "abcXYZ 0123456789'\";:-_éſK中\U0001f600\t\n"
    return "".join(rng.choice(alphabet) for _ in range(n))


def encoders(run, binp, quick, distinct, samples, dist):
    rng = run.rng
    items = []
    fixed = ["", "x", "SET SHARD", "SELECT 1", "a" * 255, "a" * 256, "b" * 4000, "with\0nul", "é中", "'", "\\"]
    if not quick:
        fixed.append("z" * 20000)
    texts = fixed + [rand_text(rng, rng.choice([0, 1, 2, 5, 17, 64, 300])) for _ in range(100 if quick else 1000)]
    for t in texts:
        u = rand_text(rng, rng.choice([0, 1, 7, 40])) if rng.random() < 0.7 else rng.choice(fixed)
        items.append(("ok", t, ""))
        items.append(("err", t, ""))
        items.append(("show", u, t))
        items.append(("show", t, u))
    steps = [{"op": "enc", "kind": k, "a": a.encode().hex(), "b": b.encode().hex()} for k, a, b in items]
    cases = [{"settings": {}, "steps": steps[i:i + 50]} for i in range(0, len(steps), 50)]
    res = run_cases(binp, cases)
    real = [bytes.fromhex(o["reply"]) for r in res for o in r["out"]]
    exprs = []
    def lit(t):
        if len(t) > 2000 and len(set(t)) == 1 and ord(t[0]) < 128:
            return "(repeat %d (N.to_nat %d))" % (ord(t[0]), len(t))
        return vlib.coq_bytes(t.encode())
    for k, a, b in items:
        A, Bb = lit(a), lit(b)
        r = {"ok": "ROk %s" % A, "err": "RErr %s" % A, "show": "RShow %s %s" % (A, Bb)}[k]
        if len(a) + len(b) > 5000:
            # long strings: compare a digest-like summary computed in Coq (length, head, tail) to keep printing small
            exprs.append("let x := encode (%s) in (len32 x, firstn 64 x, rev (firstn 16 (rev x)), decode_reply x)" % r)
        else:
            exprs.append("let x := encode (%s) in (len32 x, x, [], decode_reply x)" % r)
    vals = vlib.coq_eval("c13e", PRE, exprs, shard=max(1, (len(exprs) + 15) // 16))
    n = 0
    for (k, a, b), rb, v in zip(items, real, vals):
        n += 1
        distinct.add(("enc", k, a, b))
        ln, head, tail, dec = vlib.parse_coq(v)
        run.cov["traces_validated_against_impl"] += 1
        head, tail = bytes(head), bytes(tail)
        same = (ln == len(rb)) and (rb[:len(head)] == head) and (tail == b"" and len(head) == len(rb) or rb[-16:] == tail)
        wellformed = parse_reply(rb)
        clean = "\0" not in a and "\0" not in b
        if not same:
            run.violation("counterexample" if (clean and wellformed is None) else "tie-broken",
                          "%s reply for (%r, %r): real encoder %s... (%d bytes), model %s... (%d bytes)" % (k, a[:40], b[:40], rb[:48].hex(), len(rb), head[:48].hex(), ln),
                          {"kind_of_input": "encoder", "correspondence": "Cmd/Model.v encode vs messages.rs", "input": {"kind": k, "a_hex": a.encode().hex()[:2000], "b_hex": b.encode().hex()[:2000]},
                           "impl": rb[:200].hex(), "model": head[:200].hex()})
            break
        if clean:
            exp = {"ok": ("ok", a.encode()), "err": ("err", a.encode()), "show": ("show", a.encode(), b.encode())}[k]
            if wellformed != exp:
                run.violation("counterexample", "%s reply for (%r, %r) does not parse back into the intended messages: %s" % (k, a[:40], b[:40], wellformed),
                              {"kind_of_input": "encoder", "input": {"kind": k, "a_hex": a.encode().hex()[:2000], "b_hex": b.encode().hex()[:2000]}, "impl": rb[:200].hex()})
                break
            if dec is None:
                run.violation("tie-broken", "model decode_reply rejects its own encoding of (%r, %r)" % (a[:40], b[:40]),
                              {"correspondence": "decode_reply (encode r)", "kind_of_input": "encoder", "input": {"kind": k, "a_hex": a.encode().hex()[:2000], "b_hex": b.encode().hex()[:2000]}}, found_input=False)
                break
    dist["encoder_inputs"] = len(items)
    samples.append({"kind": "encoder", "reply": "show", "name": items[2][1][:30], "value": items[2][2][:30], "real_hex": real[2][:40].hex()})
    return n


# ------------------------------------------------------------------------------ replay
def replay(run, path):
    r = json.load(open(path))
    print(json.dumps(r, indent=1)[:3000])
    ok, blog, bins = vlib.cargo_build(["cmdlang"])
    if not ok:
        print("harness does not build"); return 2
    binp = bins["cmdlang"]
    oracle = PyRegexOracle(T.PINNED_REGEXES)
    kind = r.get("kind_of_input")
    inp = r.get("input", {})
    if kind == "classify":
        q = bytes.fromhex(inp["hex"])
        o = real_classify(binp, [q], r.get("settings"))[0]
        im, doc = impl_obs(o), oracle.classify(q)
        print("replay: query %r -> implementation %s ; documented language %s" % (q, im, doc))
        bad = (im is not None and im[0] == "panic") or not same_class(im, doc)
        return 1 if bad else 0
    if kind == "session":
        qs = [bytes.fromhex(h) for h in inp["queries_hex"]]
        res = run_cases(binp, [{"settings": inp["settings"], "steps": [{"op": "q", "hex": q.hex()} for q in qs]}])
        problems = monitor_session(oracle, inp["settings"], qs, res[0]["out"])
        for o in res[0]["out"]:
            print("  ", o)
        print("replay: monitor problems %s" % (problems,))
        return 1 if problems else 0
    if kind == "encoder":
        a, b = bytes.fromhex(inp["a_hex"]), bytes.fromhex(inp["b_hex"])
        res = run_cases(binp, [{"settings": {}, "steps": [{"op": "enc", "kind": inp["kind"], "a": a.hex(), "b": b.hex()}]}])
        rb = bytes.fromhex(res[0]["out"][0]["reply"])
        print("replay: real reply %s -> parsed %s" % (rb[:120].hex(), parse_reply(rb)))
        return 0 if parse_reply(rb) else 1
    if kind == "wire":
        from props import wirelib as W
        ok, blog, wb = vlib.cargo_build(["wire"])
        items = [tuple(x) for x in inp["items"]]
        res = W.run_scenario(wb["wire"], wire_scenario(inp["settings"], items), timeout=90)
        replies, landed, forwarded, err = wire_observe(res, items)
        if err:
            print("replay:", err); return 1
        problems = monitor_wire(oracle, inp["settings"], items, replies, landed, forwarded)
        for (k, text, tag), raw in zip(items, replies):
            print("  %-50r %s" % (text, (parse_reply(raw) if k == "cmd" else landed.get(tag, ("?",))[0])))
        print("replay: monitor problems %s" % (problems,))
        return 1 if problems else 0
    if kind == "raw":
        res = run_cases(binp, [{"settings": {"shards": 5}, "steps": [{"op": "raw", "hex": inp["hex"]}]}])
        print("replay:", res[0]["out"][0])
        return 1 if "panic" in res[0]["out"][0] else 0
    return 0


# ------------------------------------------------------------------------------ wire leg
# The REAL Client::handle_custom_protocol: pgcat in-process (harness bin `wire`), 3 shards with a
# primary and a replica each, scripted sessions of commands interleaved with tagged statements.
WIRE_BACKENDS = ["s0", "s0r", "s1", "s1r", "s2", "s2r"]
WIRE_SHARD = {"s0": 0, "s0r": 0, "s1": 1, "s1r": 1, "s2": 2, "s2r": 2}
WIRE_NSH = 3


def wire_toml(st):
    from props import wirelib as W
    shards = [{"servers": [["s%d" % i, "primary"], ["s%dr" % i, "replica"]]} for i in range(st.get("shards", WIRE_NSH))]
    return W.make_toml(pools={"db": {
        "opts": {"query_parser_enabled": st["parser"], "query_parser_read_write_splitting": False, "primary_reads_enabled": st["primary_reads"],
                 "default_role": st.get("default_role") or "any", "sharding_function": "sha1" if st.get("func") == "sha1" else "pg_bigint_hash"},
        "users": [{"pool_size": st.get("pool_size", 2)}],
        "shards": shards}})


OTHERS = ["reload_same", "reload_pool_size", "reload_default_role", "reload_sharding_function", "reload_shards", "pause_resume", "txn", "refused", "admin_reload_same"]


def apply_other(what, st, rng=None, choice=None):
    """the settings in force after the event (a copy), None if unchanged"""
    n = dict(st)
    if what == "reload_pool_size":
        n["pool_size"] = 5 - st.get("pool_size", 2)          # 2 <-> 3
    elif what == "reload_default_role":
        n["default_role"] = choice
    elif what == "reload_sharding_function":
        n["func"] = "pg" if st.get("func") == "sha1" else "sha1"
    elif what == "reload_shards":
        n["shards"] = 5 - st.get("shards", WIRE_NSH)         # 3 <-> 2
    else:
        return None
    return n


def respell(rng, q):
    """a random member of the spelling class of a valid command text: case, blanks, ';'"""
    k = rng.random()
    if k < 0.3:
        q = q.lower()
    elif k < 0.5:
        q = "".join(c.upper() if rng.random() < 0.5 else c.lower() for c in q)
    elif k < 0.6:
        q = q.title()
    return rng.choice(["", "", " ", "   "]) + q + rng.choice(["", "", ";", " ;", "; ", "  ", " ;  "])


def gen_wire_session(rng, t, st0=None):
    """[(kind, text, tag)]: kind 'cmd' (a documented command in some spelling), 'stmt' (anything else, tagged),
    'refstmt' (a tagged statement sent while every server refuses connections) or 'other' (text = one of OTHERS,
    tag = the settings in force afterwards or None): something that is not a command, placed between a SET and
    the SHOWs that must still report it."""
    items = []
    ntag = [0]
    cur = dict(st0 or {"shards": WIRE_NSH, "parser": False, "primary_reads": True})
    refusal = False     # (a checkout refused by the SERVERS ends the session on the wire: C07; the refused checkout exercised here is the one of a shard that a RELOAD removed)

    def other(nostmt=False):
        if rng.random() < 0.35:
            return
        what = rng.choice([w for w in OTHERS if w != "refused"] + ["reload_pool_size", "reload_default_role"])
        if (refusal or nostmt) and what == "txn":
            what = "reload_same"
        if what == "txn":
            for sql in ("BEGIN", rng.choice(["SELECT 1", "UPDATE t SET a = 2"]), "COMMIT"):
                stmt(sql)
            return
        new = apply_other(what, cur, choice=rng.choice([None, "primary", "replica"]))
        if new is not None:
            cur.clear()
            cur.update(new)
        items.append(("other", what, dict(cur) if new is not None else None))

    def stmt(sql):
        tag = "t%d_%d" % (t, ntag[0])
        ntag[0] += 1
        items.append(("stmt", "%s /*%s*/" % (sql, tag), tag))

    def shows(first=None, nostmt=False):
        other(nostmt)
        ss = ["SHOW SHARD", "SHOW SERVER ROLE", "SHOW PRIMARY READS"]
        rng.shuffle(ss)
        if first:
            ss.remove(first)
            ss.insert(0, first)
        for x in ss[: rng.choice([1, 2, 3, 3])]:
            items.append(("cmd", respell(rng, x), None))

    quote = lambda v: rng.choice(["%s", "'%s'", "'%s'", "%s'", "'%s"]) % v       # noqa: E731
    for _ in range(rng.randint(3, 10)):
        r = rng.random()
        if r < 0.3:
            v = rng.choice(["0", "1", "2", "2", "3", "7", "002", "0000", "ANY", "any", "Any", "99999999999999999999999", "18446744073709551615", "18446744073709551616",
                            str(rng.getrandbits(rng.choice([3, 16, 64, 70])))])
            items.append(("cmd", respell(rng, "SET SHARD TO " + quote(v)), None))
            shows("SHOW SHARD", nostmt=v.lower() == "any")      # the shard ANY chose is read back from SHOW SHARD before any statement
        elif r < 0.5:
            v = rng.choice([str(rng.getrandbits(rng.choice([4, 31, 62, 63]))), "9223372036854775807", "9223372036854775808", "0", "000123", "1" + "0" * 39])
            items.append(("cmd", respell(rng, "SET SHARDING KEY TO " + rng.choice(["%s", "'%s'"]) % v), None))
            shows("SHOW SHARD")
        elif r < 0.7:
            v = rng.choice(["primary", "replica", "any", "auto", "default"])
            v = rng.choice([v, v.upper(), v.title()])
            items.append(("cmd", respell(rng, "SET SERVER ROLE TO '%s'" % v), None))
            shows("SHOW SERVER ROLE")
        elif r < 0.85:
            v = rng.choice(["on", "off", "default", "ON", "Off", "DEFAULT"])
            items.append(("cmd", respell(rng, "SET PRIMARY READS TO " + rng.choice(["%s", "'%s'"]) % v), None))
            shows("SHOW PRIMARY READS")
        else:
            if not refusal:
                stmt(rng.choice(["SET SHARD TO 1; SELECT 1", "SELECT 1; SET SHARD TO 2", "SET SHARD TO -1", "SHOW SHARDS", "SHOW SHARD;;", "SET SERVER ROLE TO primary",
                             "SELECT 'SET SHARD TO 1'", "SET  SHARD TO 1", "SHOW\tSHARD", "SET SHARDING KEY TO 'abc'", "SET PRIMARY READS TO yes", "SET SHARD TO 0; SELECT 42"]))
        for _ in range(0 if refusal else rng.choice([0, 1, 1, 2])):
            stmt(rng.choice(["SELECT 1", "SELECT 2", "INSERT INTO t VALUES (1)", "UPDATE t SET a = 1", "SELECT now()"]))
    if refusal:
        # a checkout that is refused (no server accepts a connection), then every SHOW
        k = rng.randint(1, len(items))
        while k < len(items) and items[k][0] == "cmd" and (PyRegexOracle(T.PINNED_REGEXES).classify(items[k][1].encode()) or ("",))[0].startswith("Show"):
            k += 1
        tag = "t%d_r" % t
        items[k:k] = [("refstmt", "SELECT 99 /*%s*/" % tag, tag), ("cmd", "SHOW SHARD", None), ("cmd", "SHOW SERVER ROLE", None), ("cmd", "SHOW PRIMARY READS", None)]
    return items


def qframe(sql: bytes) -> bytes:
    return b"Q" + struct.pack(">i", len(sql) + 5) + sql + b"\0"


def key_shard(func, key, n):
    from props.c06 import pg_partition, sha1_rule
    return sha1_rule(key, n) if func == "sha1" else pg_partition(key, n)


def monitor_wire(oracle, settings, items, replies, landed, forwarded):
    """the property on what the client and the mock backends saw; no model involved.
    replies[i]: raw bytes the client read for item i (None for 'other' items); landed[tag] = (backend, raw hex, times);
    forwarded: every simple-query text that reached any backend.
    Whatever is not a SET (statements, transactions, RELOAD with or without a rebuilt pool, PAUSE/RESUME, a
    refused checkout) must leave what the SETs established untouched; a RELOAD only changes the settings later
    commands are judged by."""
    doc = DocState(settings)
    pending_any = False
    problems = []
    for sql in forwarded:
        if oracle.classify(sql.encode("utf-8", "replace")) is not None:
            problems.append((-1, "the command %r was forwarded to a server" % sql))
            return problems
    for i, ((kind, text, tag), raw) in enumerate(zip(items, replies)):
        if kind == "other":
            if tag is not None:
                doc.reconfigure(tag)
            continue
        q = text.encode()
        want = oracle.classify(q)
        if want is None:
            if pending_any:
                problems.append((i, "generator: statement before the SHOW SHARD that fixes ANY"))
                break
            sh = 0 if doc.shard is None else doc.shard
            if sh >= doc.n:
                # the selected shard is not configured any more (a RELOAD removed it): the checkout is refused
                rep = parse_reply(raw)
                if tag in landed or rep is None or rep[0] != "err":
                    problems.append((i, "statement %r with selected shard %d of %d: expected a refusal (ErrorResponse, ReadyForQuery), got %s, reached %s" % (text, sh, doc.n, rep, landed.get(tag, (None,))[0])))
                    break
                continue
            if tag not in landed:
                problems.append((i, "the ordinary statement %r did not reach any server (reply %s)" % (text, parse_reply(raw))))
                break
            be, rawhex, times = landed[tag]
            if times != 1 or bytes.fromhex(rawhex) != qframe(q):
                problems.append((i, "the ordinary statement %r reached the server %d time(s) as %s" % (text, times, rawhex)))
                break
            if WIRE_SHARD[be] != sh:
                problems.append((i, "statement %r ran on %s (shard %d) but the selected shard is %s" % (text, be, WIRE_SHARD[be], sh)))
                break
            eff = doc.role if doc.role != "default" else doc.role_default
            if eff in ("primary", "replica") and be.endswith("r") != (eff == "replica"):
                problems.append((i, "statement %r ran on %s although the session's role is %s (SET SERVER ROLE / pool default taken by the session)" % (text, be, eff)))
                break
            continue
        if tag and tag in landed:
            problems.append((i, "command reached a server"))
            break
        rep = parse_reply(raw)
        if rep is None:
            problems.append((i, "reply to %r is not a well-formed message sequence ending in ReadyForQuery: %s" % (text, raw.hex())))
            break
        cmd, cap = want
        if cmd == "SetShard" and cap.lower() == b"any":
            kindw = "ok"
            pending_any = doc.n          # the number of shards ANY chose among
        else:
            chosen = key_shard(doc.func, int(cap), doc.n) if cmd == "SetShardingKey" and int(cap) <= I64_MAX else None
            kindw = doc.apply(cmd, cap, chosen)
            if cmd in ("SetShard", "SetShardingKey") and kindw == "ok":
                pending_any = False
        if rep[0] != kindw:
            problems.append((i, "%r answered with %s, expected %s" % (text, rep[0], kindw)))
            break
        if kindw == "ok" and rep[1] != OK_TAG[cmd]:
            problems.append((i, "%r: CommandComplete tag %r" % (text, rep[1])))
            break
        if kindw == "show":
            if rep[1] != SHOW_NAME[cmd]:
                problems.append((i, "%r: column %r" % (text, rep[1])))
                break
            if cmd == "ShowShard" and pending_any:
                if not (rep[2].isdigit() and int(rep[2]) < pending_any):
                    problems.append((i, "after SET SHARD TO ANY, SHOW SHARD reports %r (%d shards)" % (rep[2], pending_any)))
                    break
                doc.shard, pending_any = int(rep[2]), False
            elif rep[2] != doc.show(cmd):
                hist = [x[1] for x in items[:i + 1]]
                problems.append((i, "%r reports %r but the preceding SETs established %r (history %s)" % (text, rep[2], doc.show(cmd), hist)))
                break
    return problems


def wire_observe(res, items):
    """(replies, landed, forwarded, error)"""
    if "harness_error" in res or "start_error" in res:
        return None, None, None, "wire harness failed: %s" % (res.get("harness_error") or res.get("start_error"))
    recvs = [e for e in res["events"] if e.get("ev") == "recv" and e.get("who") == "c1"]
    qi = [i for i, x in enumerate(items) if x[0] != "other"]
    if len(recvs) != len(qi) or any(e.get("outcome") != "ok" for e in recvs):
        bad = next((i for i, e in enumerate(recvs) if e.get("outcome") != "ok"), len(recvs))
        return None, None, None, "no complete reply (ending in ReadyForQuery) to %r after %s: outcomes %s, task results %s" % (
            items[qi[bad]][1] if bad < len(qi) else None, [x[1] for x in items[:qi[bad]]] if bad < len(qi) else "?", [e.get("outcome") for e in recvs][-3:], res.get("task_results"))
    adm_bad = [e for e in res["events"] if e.get("ev") == "recv" and e.get("who") == "adm" and e.get("outcome") != "ok"]
    rl = [e.get("result") for e in res["events"] if e.get("ev") == "reload"]
    if adm_bad or any(not str(r).startswith("Ok") for r in rl):
        return None, None, None, "wire harness failed: admin command / reload did not complete: %s %s" % (adm_bad[:1], rl)
    replies = [None] * len(items)
    for i, e in zip(qi, recvs):
        replies[i] = bytes.fromhex(e["raw"])
    landed, forwarded = {}, []
    for e in res["events"]:
        if e.get("ev") == "msg" and e.get("tag") == "Q":
            sql = e["detail"].get("sql") or ""
            forwarded.append(sql)
            m = re.search(r"/\*(t\d+_\d+)\*/", sql)
            if m:
                prev = landed.get(m.group(1))
                landed[m.group(1)] = (e["who"], e["detail"]["raw"], 1 + (prev[2] if prev else 0))
    return replies, landed, forwarded, None


def wire_scenario(settings, items):
    steps = [{"op": "connect", "c": "c1", "params": {"user": "u", "database": "db"}, "password": "pw"}]
    if any(k == "other" and w in ("pause_resume", "admin_reload_same") for k, w, _ in items):
        steps.append({"op": "connect", "c": "adm", "params": {"user": "admin", "database": "pgcat"}, "password": "adminpw"})

    def adm(sql):
        return [{"op": "send", "c": "adm", "msgs": [{"t": "Q", "sql": sql}]}, {"op": "recv", "c": "adm", "until": "Z", "timeout_ms": 4000}]
    for i, (kind, text, tag) in enumerate(items):
        if kind == "other":
            if text == "pause_resume":
                steps += adm("PAUSE") + adm("RESUME")
            elif text == "admin_reload_same":
                steps += adm("RELOAD")
            elif text == "reload_same":
                steps.append({"op": "reload"})
            else:
                steps += [{"op": "write_config", "toml": wire_toml(tag)}, {"op": "reload"}]
            continue
        if kind == "refstmt":
            steps += [{"op": "backend", "b": b, "mode": "refuse"} for b in WIRE_BACKENDS]
        steps += [{"op": "send", "c": "c1", "msgs": [{"t": "Q", "sql": text}]}, {"op": "recv", "c": "c1", "until": "Z", "timeout_ms": 6000, "label": "i%d" % i}]
        if kind == "refstmt":
            steps += [{"op": "backend", "b": b, "mode": "normal"} for b in WIRE_BACKENDS]
    return {"backends": [{"name": n} for n in WIRE_BACKENDS], "toml": wire_toml(settings), "hex": True, "steps": steps}


def check_wire(run, quick, proof_ok, oracle, distinct, samples, dist):
    from props import wirelib as W
    ok, blog, bins = vlib.cargo_build(["wire"])
    if not ok:
        run.violation("tie-broken", "wire harness does not build against /repo", {"correspondence": "wire harness build", "log": blog[-3000:]}, found_input=False)
        return 0
    wire = bins["wire"]
    rng = run.rng
    nsess = 110 if quick else 1200
    base = {"shards": WIRE_NSH, "parser": False, "primary_reads": True}
    FIXED = [
        # the restore after a refused SET SHARD, big numbers, every SHOW
        (dict(base, parser=True),
         [("cmd", "SET SHARD TO 2", None), ("cmd", "SHOW SHARD", None), ("stmt", "SELECT 1 /*t0_0*/", "t0_0"), ("cmd", "SET SHARD TO 7", None), ("cmd", "SHOW SHARD", None),
          ("stmt", "SELECT 2 /*t0_1*/", "t0_1"), ("cmd", "set shard to '99999999999999999999999';", None), ("cmd", "SHOW SHARD", None),
          ("cmd", "SET SHARDING KEY TO 9223372036854775808", None), ("cmd", "SHOW SHARD", None), ("cmd", "SET SHARDING KEY TO '12'", None), ("cmd", "SHOW SHARD", None),
          ("stmt", "SET SHARD TO 0; SELECT 42 /*t0_2*/", "t0_2"), ("cmd", "SET SERVER ROLE TO 'Replica'", None), ("cmd", "SHOW SERVER ROLE", None), ("stmt", "SELECT 3 /*t0_3*/", "t0_3"),
          ("cmd", "SET PRIMARY READS TO OFF", None), ("cmd", "SHOW PRIMARY READS", None), ("cmd", "SET SERVER ROLE TO 'default'", None), ("cmd", "SHOW SERVER ROLE", None)]),
        # every SET, then a RELOAD that rebuilds the pool (pool_size), an unchanged RELOAD, PAUSE/RESUME, a transaction: every SHOW still reports it
        (dict(base, default_role="replica"),
         [("cmd", "SHOW SERVER ROLE", None), ("stmt", "SELECT 0 /*t1_0*/", "t1_0"), ("cmd", "SET SERVER ROLE TO 'primary'", None), ("cmd", "SET SHARD TO 1", None), ("cmd", "SET PRIMARY READS TO off", None),
          ("cmd", "SHOW SERVER ROLE", None), ("stmt", "SELECT 1 /*t1_1*/", "t1_1"), ("other", "reload_same", None), ("cmd", "SHOW SERVER ROLE", None),
          ("other", "reload_pool_size", dict(base, default_role="replica", pool_size=3)), ("cmd", "SHOW SERVER ROLE", None), ("cmd", "SHOW SHARD", None), ("cmd", "SHOW PRIMARY READS", None),
          ("stmt", "SELECT 3 /*t1_2*/", "t1_2"), ("other", "pause_resume", None), ("cmd", "SHOW SERVER ROLE", None), ("stmt", "BEGIN /*t1_3*/", "t1_3"), ("stmt", "SELECT 4 /*t1_4*/", "t1_4"),
          ("stmt", "COMMIT /*t1_5*/", "t1_5"), ("cmd", "SHOW SERVER ROLE", None), ("cmd", "SHOW SHARD", None), ("other", "admin_reload_same", None), ("cmd", "SHOW PRIMARY READS", None),
          ("cmd", "SET SHARDING KEY TO 12", None), ("other", "reload_pool_size", dict(base, default_role="replica", pool_size=2)), ("cmd", "SHOW SHARD", None), ("stmt", "SELECT 5 /*t1_6*/", "t1_6")]),
        # a RELOAD removes the selected shard: SHOW keeps it, statements are refused (the refused checkout), SET SHARD TO 2 is refused, a new SET works
        (dict(base),
         [("cmd", "SET SHARD TO 2", None), ("cmd", "SET SERVER ROLE TO 'primary'", None), ("other", "reload_shards", dict(base, shards=2)), ("cmd", "SHOW SHARD", None), ("cmd", "SHOW SERVER ROLE", None),
          ("stmt", "SELECT 1 /*t2_0*/", "t2_0"), ("cmd", "SHOW SHARD", None), ("cmd", "SHOW SERVER ROLE", None), ("cmd", "SET SHARD TO 2", None), ("cmd", "SHOW SHARD", None), ("cmd", "SET SHARD TO 1", None),
          ("stmt", "SELECT 2 /*t2_1*/", "t2_1"), ("other", "reload_shards", dict(base, shards=3)), ("cmd", "SHOW SHARD", None), ("cmd", "SET SHARD TO 2", None), ("stmt", "SELECT 3 /*t2_2*/", "t2_2")]),
    ]
    metas, scns = [], []
    for t in range(nsess):
        if t < len(FIXED):
            settings, items = FIXED[t]
        else:
            settings = dict(base, parser=t % 2 == 0, primary_reads=rng.random() < 0.6)
            dr = rng.choice([None, None, "primary", "replica"])
            if dr:
                settings["default_role"] = dr
            items = gen_wire_session(rng, t, settings)
        metas.append((settings, items))
        scns.append(wire_scenario(settings, items))
    results = W.run_scenarios(wire, scns, timeout=120)
    n, ncmd, nstmt, nother, nrefused = 0, 0, 0, {}, 0
    exprs, keep = [], []
    for (settings, items), scn, res in zip(metas, scns, results):
        replies, landed, forwarded, err = wire_observe(res, items)
        rp = {"kind_of_input": "wire", "input": {"settings": settings, "items": items}}
        if err:
            if err.startswith("wire harness failed"):
                run.broken.append(err)
            else:
                run.violation("counterexample", "wire session under %s: %s" % (settings, err), rp)
            return n
        problems = monitor_wire(oracle, settings, items, replies, landed, forwarded)
        if problems:
            i, msg = problems[0]
            run.violation("counterexample", "wire session %s under %s: step %d: %s" % ([x[1] for x in items[:i + 1]] if i >= 0 else [x[1] for x in items], settings, i, msg), dict(rp, monitor=msg))
            return n
        # the model's inputs: environment choices read back from the trace, settings changes as EvOther
        steps, cur, pend = [], dict(settings), None
        for i, (kind, text, tag) in enumerate(items):
            if kind == "other":
                nother[text] = nother.get(text, 0) + 1
                if tag is not None:
                    cur, pend = dict(tag), dict(tag)
                continue
            want = oracle.classify(text.encode())
            orc = 0
            if want and want[0] == "SetShard" and want[1].lower() == b"any":
                nxt = next((j for j in range(i + 1, len(items)) if items[j][0] == "cmd" and (oracle.classify(items[j][1].encode()) or ("",))[0] == "ShowShard"), None)
                orc = int(parse_reply(replies[nxt])[2]) if nxt is not None else 0
            elif want and want[0] == "SetShardingKey" and int(want[1]) <= I64_MAX:
                orc = key_shard(cur.get("func"), int(want[1]), cur["shards"])
            steps.append("(%s, (%s, %d))" % ("Some %s" % env_expr(pend) if pend else "None", vlib.coq_bytes(text.encode()), orc))
            pend = None
        env = env_expr(settings)
        exprs.append("session_obs_ev %s (init %s) [%s]" % (env, env, "; ".join(steps)))
        keep.append((settings, items, replies, landed))
        ncmd += sum(1 for x in items if x[0] == "cmd")
        nstmt += sum(1 for x in items if x[0] == "stmt")
    if proof_ok:
        vals = vlib.coq_eval("c13w", PRE, exprs, shard=max(1, (len(exprs) + 15) // 16))
        for (settings, items, replies, landed), v in zip(keep, vals):
            mo = vlib.parse_coq(v)
            distinct.add(("wire", json.dumps(settings, sort_keys=True), json.dumps(items)))
            qitems = [(i, x) for i, x in enumerate(items) if x[0] != "other"]
            nsh = settings["shards"]
            k = 0
            for i, (kind, text, tag) in enumerate(items):
                if kind == "other":
                    if tag is not None:
                        nsh = tag["shards"]
                    continue
                mc, mv, mpre, mrep, mpost = mo[k]
                k += 1
                raw = replies[i]
                n += 1
                run.cov["traces_validated_against_impl"] += 1
                rp = {"kind_of_input": "wire", "correspondence": "Cmd/Model.v handle+encode (run_ev) vs the real Client::handle_custom_protocol on the wire",
                      "input": {"settings": settings, "items": items[:i + 1]}}
                if kind == "cmd":
                    if bytes(mrep) != raw:
                        run.violation("tie-broken", "wire session %s under %s: reply to step %d: pooler sent %s, model %s" % ([x[1] for x in items[:i + 1]], settings, i, raw.hex(), bytes(mrep).hex()),
                                      dict(rp, impl=raw.hex(), model=bytes(mrep).hex()), found_input=False)
                        return n
                else:
                    sh, role = coq_obs_state(mpost)[0], coq_obs_state(mpost)[1]
                    be = landed.get(tag, (None,))[0]
                    if be is None:
                        nrefused += 1
                    bad = mc != 99 or ((sh or 0) < nsh) != (be is not None) or (be is not None and (WIRE_SHARD[be] != (sh or 0) or (role in (1, 2) and be.endswith("r") != (role == 2))))
                    if bad:
                        run.violation("tie-broken", "wire session %s under %s: statement of step %d ran on %s; model: %s, shard %s of %d, role %s" % ([x[1] for x in items[:i + 1]], settings, i, be, "a command" if mc != 99 else "forwarded", sh, nsh, role),
                                      dict(rp, impl=be, model=str(mo[k - 1])), found_input=False)
                        return n
    dist["wire_sessions"] = len(keep)
    dist["wire_commands_byte_compared"] = ncmd
    dist["wire_statements_routed"] = nstmt
    dist["wire_non_command_events_between_set_and_show"] = nother
    dist["wire_refused_checkouts (selected shard removed by a RELOAD)"] = nrefused
    samples.append({"kind": "wire", "settings": metas[1][0], "session": [x[1] for x in metas[1][1]][:14]})
    return n
