"""Correspondence between coq/Session/Model.v and the real client loop (C01, C02).

Generates op sequences (the model's alphabet), runs them (a) in the Coq model through
coqc/vm_compute and (b) against pgcat in-process with mock PostgreSQL backends (harness bin
`wire`), and compares per-server-connection statement logs (client statements and pgcat's
own ROLLBACK / RESET batches, connection closes, check-out order).  Independently of the
model, the property monitors are evaluated on the implementation's trace.
"""
import json, os
import vlib
from props import wirelib as W

SQLS = ["Begin", "Commit", "Rollback", "Select", "SetG", "Prepare", "Fail", "CopyIn", "DeallocAll"]
COQ_FILES = ["Session/Model.v", "Session/Proofs.v", "Session/Obs.v", "Session/Props.v"]


# ----------------------------------------------------------------------------- generation
class Gen:
    """Tracks just enough (per client: phase, txn status, copy) to emit ops the model accepts."""

    def __init__(self, rng, nclients, session_mode, caching, pool_size, allow_timeouts):
        self.r, self.n, self.sm, self.caching, self.ps = rng, nclients, session_mode, caching, pool_size
        # "idle": idle_client_in_transaction_timeout is configured (it fires for EVERY client that sits in the
        # transaction loop longer than the timeout, so such scenarios contain no other long waits);
        # "stmt": statement timeouts / pool-exhaustion waits are allowed, no idle timeout configured
        self.flavour = (rng.choice(["idle", "stmt"]) if allow_timeouts else "none")
        self.allow_timeouts = allow_timeouts
        self.phase = {}      # c -> none | outer | inner | gone
        self.txn = {}        # c -> I/T/E (backend status while inner)
        self.copy = {}
        self.prep_n = 0
        self.holders = 0     # clients currently holding a connection
        self.ops = []
        self.uses_idle_timeout = False
        self.uses_stmt_timeout = False

    def stmts_effect(self, c, ss):
        t, cp = self.txn.get(c, "I"), False
        for s in ss:
            if t == "E":
                if s in ("Commit", "Rollback"):
                    t = "I"
                    continue
                break
            if s == "Begin":
                t = "T"
            elif s in ("Commit", "Rollback"):
                t = "I"
            elif s == "Fail":
                if t == "T":
                    t = "E"
                break
            elif s == "CopyIn":
                cp = True
                break
        return t, cp

    def after_cycle(self, c, t, cp):
        self.txn[c], self.copy[c] = t, cp
        if t == "I" and not cp and not self.sm:
            self.leave_inner(c, "outer")
        else:
            self.enter_inner(c)

    def enter_inner(self, c):
        if self.phase[c] != "inner":
            self.phase[c] = "inner"
            self.holders += 1

    def leave_inner(self, c, to):
        if self.phase[c] == "inner":
            self.holders -= 1
        self.phase[c] = to
        self.txn[c], self.copy[c] = "I", False

    def rand_stmts(self, c):
        r = self.r
        if r.random() < 0.18:
            # a transaction-ending statement followed by session-state changing ones in the SAME query
            return [r.choice(["Commit", "Rollback"])] + [r.choice(["SetG", "Prepare", "Select", "DeallocAll"]) for _ in range(r.choice([1, 1, 2]))]
        if r.random() < 0.10:
            # session state, then the client's own DEALLOCATE ALL (it drops statements, not GUCs / role)
            return [r.choice(["SetG", "Prepare", "SetG"]), "DeallocAll"] + ([r.choice(["SetG", "Select", "Prepare"])] if r.random() < 0.4 else [])
        if r.random() < 0.08:
            return ["Begin", r.choice(["SetG", "Prepare", "Fail"]), r.choice(["Commit", "Rollback"])]
        k = r.choice([1, 1, 1, 2, 2, 3])
        ss = []
        for _ in range(k):
            ss.append(r.choice(["Begin", "Commit", "Rollback", "Select", "Select", "SetG", "Prepare", "Fail", "CopyIn", "DeallocAll"]))
        # CopyIn only as the last statement of a message
        if "CopyIn" in ss[:-1]:
            ss = [s for s in ss[:-1] if s != "CopyIn"] + ["CopyIn"]
        return ss

    def step(self):
        r = self.r
        c = r.randint(1, self.n)
        ph = self.phase.get(c, "none")
        if ph == "none":
            self.phase[c] = "outer"
            self.txn[c], self.copy[c] = "I", False
            self.ops.append(("Connect", c, self.sm))
            return
        if ph == "gone":
            return
        if ph == "outer" and self.holders >= self.ps:
            # pool exhausted: a request now yields a pool error after connect_timeout (sometimes wanted)
            if r.random() < 0.15 and self.flavour != "idle":
                self.ops.append(("Query", c, ["Select"]))
            elif r.random() < 0.1:
                self.ops.append(("Terminate", c))
                self.phase[c] = "gone"
            return
        if self.copy.get(c):
            k = r.random()
            if k < 0.45:
                self.ops.append(("CopyDone", c))
                t = self.txn[c]
                self.after_copy(c, t)
            elif k < 0.65:
                self.ops.append(("CopyFail", c))
                t = "E" if self.txn[c] == "T" else self.txn[c]
                self.after_copy(c, t)
            elif k < 0.8:
                self.ops.append(("Drop", c))
                self.leave_inner(c, "gone")
            elif k < 0.9:
                self.ops.append(("Terminate", c))
                self.leave_inner(c, "gone")
            else:
                self.ops.append(("PanicMsg", c))
                self.leave_inner(c, "gone")
            return
        k = r.random()
        if ph == "inner" and self.txn.get(c) in ("T", "E") and r.random() < 0.07:
            # a stray CopyDone / CopyFail while the server is NOT in COPY, inside an open transaction: dropped, nothing changes
            self.ops.append(("StrayCopy", c, r.choice(["c", "f"])))
            return
        if k < 0.55:
            ss = self.rand_stmts(c)
            t, cp = self.stmts_effect(c, ss)
            self.ops.append(("Query", c, ss))
            self.after_cycle(c, t, cp)
        elif k < 0.65 and not self.caching:
            q = r.choice(["Begin", "Commit", "Rollback", "Select", "SetG", "Fail"])
            named = r.random() < 0.5
            t, cp = self.stmts_effect(c, [q])
            self.ops.append(("Batch", c, named, q))
            self.after_cycle(c, t, cp)
        elif k < 0.72:
            self.ops.append(("Terminate", c))
            self.leave_inner(c, "gone")
        elif k < 0.80:
            self.ops.append(("Drop", c))
            self.leave_inner(c, "gone")
        elif k < 0.86:
            self.ops.append(("PanicMsg", c))
            self.leave_inner(c, "gone")
        elif k < 0.90 and self.caching:
            self.ops.append(("BadMsg", c))
            self.leave_inner(c, "gone")
        elif k < 0.93 and self.flavour == "idle" and ph == "inner" and self.holders == 1:
            self.ops.append(("IdleTimeout", c))
            self.uses_idle_timeout = True
            self.leave_inner(c, "outer")
        elif k < 0.96 and self.flavour == "stmt":
            ss = self.rand_stmts(c)
            self.ops.append(("StmtTimeout", c, ss))
            self.uses_stmt_timeout = True
            self.leave_inner(c, "gone")
        elif k < 0.98:
            ss = self.rand_stmts(c)
            self.ops.append(("ServerDies", c, ss))
            self.leave_inner(c, "gone")
        elif k < 1.0 and self.flavour != "idle":
            ss = [s for s in self.rand_stmts(c) if s != "CopyIn"] or ["Select"]
            self.ops.append(("WriteFail", c, ss))
            self.leave_inner(c, "gone")

    def after_copy(self, c, t):
        self.txn[c], self.copy[c] = t, False
        if t == "I" and not self.sm:
            self.leave_inner(c, "outer")


def directed_cases():
    """Hand-picked sequences (regressions of repaired defects and corner cases);
    (ops, pool_size, session, caching, cleanup_server_connections)."""
    base = _directed_base()
    T, F = True, False
    off = [
        ([("Connect", 1, F), ("Connect", 2, F), ("Query", 1, ["Begin"]), ("BadMsg", 1), ("Query", 2, ["Select"])], 1, F, T, F),
        ([("Connect", 1, F), ("Connect", 2, F), ("Query", 1, ["SetG"]), ("Query", 1, ["Begin"]), ("PanicMsg", 1), ("Query", 2, ["Select"])], 1, F, F, F),
        ([("Connect", 1, F), ("Connect", 2, F), ("Query", 1, ["Prepare", "CopyIn"]), ("Drop", 1), ("Query", 2, ["Select"])], 1, F, F, F),
    ]
    return [c + (True,) for c in base] + off


def _directed_base():
    T, F = True, False
    return [
        ([("Connect", 1, F), ("Connect", 2, F), ("Query", 1, ["Begin"]), ("PanicMsg", 1), ("Query", 2, ["Select"])], 1, F, F),
        ([("Connect", 1, F), ("Connect", 2, F), ("Query", 1, ["SetG", "DeallocAll"]), ("Query", 2, ["Select"])], 1, F, F),
        ([("Connect", 1, F), ("Connect", 2, F), ("Query", 1, ["Begin"]), ("StrayCopy", 1, "c"), ("Query", 2, ["Select"]), ("Query", 1, ["Select"]), ("StrayCopy", 1, "f"), ("Query", 1, ["Commit"]), ("Query", 2, ["Select"])], 2, F, F),
        ([("Connect", 1, F), ("Connect", 2, F), ("Query", 1, ["Prepare"]), ("Query", 1, ["SetG"]), ("Query", 1, ["DeallocAll"]), ("Query", 2, ["Select"])], 1, F, F),
        ([("Connect", 1, F), ("Connect", 2, F), ("Query", 1, ["Begin"]), ("Query", 1, ["Commit", "SetG"]), ("Query", 2, ["Select"])], 1, F, F),
        ([("Connect", 1, F), ("Connect", 2, F), ("Query", 1, ["Prepare", "CopyIn"]), ("Drop", 1), ("Query", 2, ["Select"])], 1, F, F),
        ([("Connect", 1, F), ("Connect", 2, F), ("Query", 1, ["Begin"]), ("BadMsg", 1), ("Query", 2, ["Select"])], 1, F, T),
        ([("Connect", 1, F), ("Connect", 2, F), ("Query", 1, ["Begin", "SetG", "Fail"]), ("Drop", 1), ("Query", 2, ["Select"])], 1, F, F),
        ([("Connect", 1, F), ("Connect", 2, F), ("Query", 1, ["SetG"]), ("Query", 2, ["Select"]), ("Query", 1, ["Prepare"]), ("Query", 2, ["Select"])], 1, F, F),
        ([("Connect", 1, F), ("Connect", 2, F), ("Batch", 1, T, "Select"), ("Query", 2, ["Select"]), ("Batch", 1, T, "Begin"), ("Terminate", 1), ("Query", 2, ["Select"])], 1, F, F),
        ([("Connect", 1, T), ("Connect", 2, T), ("Query", 1, ["SetG"]), ("Query", 1, ["Begin"]), ("Drop", 1), ("Query", 2, ["Select"])], 1, T, F),
        ([("Connect", 1, T), ("Connect", 2, T), ("Query", 1, ["Prepare"]), ("Terminate", 1), ("Query", 2, ["Select"]), ("PanicMsg", 2)], 1, T, F),
        ([("Connect", 1, F), ("Connect", 2, F), ("Query", 1, ["CopyIn"]), ("CopyFail", 1), ("Query", 2, ["Select"]), ("Query", 1, ["Begin", "CopyIn"]), ("CopyDone", 1), ("Query", 1, ["Commit"])], 1, F, F),
        ([("Connect", 1, F), ("Connect", 2, F), ("Connect", 3, F), ("Query", 1, ["Begin"]), ("Query", 2, ["Begin"]), ("Query", 3, ["Select"]), ("Query", 1, ["Commit"]), ("Query", 3, ["Select"])], 2, F, F),
        ([("Connect", 1, F), ("Connect", 2, F), ("Query", 1, ["Begin"]), ("ServerDies", 1, ["Select"]), ("Query", 2, ["Select"])], 1, F, F),
        ([("Connect", 1, F), ("Connect", 2, F), ("Query", 1, ["Begin"]), ("Query", 1, ["Fail"]), ("Query", 1, ["Select"]), ("Query", 1, ["Commit"]), ("Query", 2, ["Select"])], 1, F, F),
        ([("Connect", 1, F), ("Connect", 2, F), ("Query", 1, ["Begin"]), ("Query", 1, ["Rollback", "SetG"]), ("Query", 2, ["Select"])], 1, F, F),
        ([("Connect", 1, F), ("Connect", 2, F), ("Query", 1, ["Begin"]), ("Query", 1, ["Fail"]), ("Query", 1, ["Commit", "SetG"]), ("Query", 2, ["Select"])], 1, F, F),
        ([("Connect", 1, F), ("Connect", 2, F), ("Query", 1, ["Begin"]), ("Query", 1, ["Rollback", "Prepare"]), ("Query", 2, ["Select"])], 1, F, F),
        ([("Connect", 1, F), ("Connect", 2, F), ("StmtTimeout", 1, ["Select"]), ("Query", 2, ["Select"])], 1, F, F),
        ([("Connect", 1, F), ("Connect", 2, F), ("Query", 1, ["Begin"]), ("StmtTimeout", 1, ["Select"]), ("Query", 2, ["Select"])], 1, F, F),
        ([("Connect", 1, F), ("Connect", 2, F), ("WriteFail", 1, ["Select"]), ("Query", 2, ["Select"])], 1, F, F),
        ([("Connect", 1, F), ("Connect", 2, F), ("Query", 1, ["Begin"]), ("WriteFail", 1, ["SetG", "Select"]), ("Query", 2, ["Select"])], 1, F, F),
    ]


def gen_cases(rng, count, allow_timeouts=True):
    cases = []
    for i in range(count):
        ps = rng.choice([1, 1, 2])
        sm = rng.random() < 0.25
        caching = (not sm) and rng.random() < 0.25   # statement caching only exists in transaction mode
        g = Gen(rng, rng.choice([2, 3]), sm, caching, ps, allow_timeouts and rng.random() < 0.3)
        for _ in range(rng.randint(5, 14)):
            g.step()
        # end with a canary request from a fresh client so that the last hand-off is observed
        canary = 9
        g.ops.append(("Connect", canary, sm))
        if g.holders < ps:
            g.ops.append(("Query", canary, ["Select"]))
        cc = rng.random() >= 0.15      # cleanup_server_connections (default true)
        cases.append((g.ops, ps, sm, caching, cc))
    return cases


# ----------------------------------------------------------------------------- Coq side
def coq_op(o):
    k = o[0]
    b = lambda x: "true" if x else "false"
    sl = lambda ss: "[" + "; ".join(ss) + "]"
    if k == "Connect":
        return "Connect %d %s" % (o[1], b(o[2]))
    if k == "Query":
        return "Query %d %s" % (o[1], sl(o[2]))
    if k == "Batch":
        return "Batch %d %s %s" % (o[1], b(o[2]), o[3])
    if k == "StrayCopy":
        return "%s %d" % ("CopyDone" if o[2] == "c" else "CopyFail", o[1])
    if k in ("CopyDone", "CopyFail", "Terminate", "Drop", "BadMsg", "PanicMsg", "IdleTimeout"):
        return "%s %d" % (k, o[1])
    if k in ("StmtTimeout", "ServerDies", "WriteFail"):
        return "%s %d %s" % (k, o[1], sl(o[2]))
    raise ValueError(o)


def model_observe(cases):
    exprs = ["observe %d %s [%s]" % (ps, "true" if cc else "false", "; ".join(coq_op(o) for o in ops)) for ops, ps, sm, caching, cc in cases]
    vals = vlib.coq_eval("session", "From PV Require Import Session.Model Session.Obs.\nFrom Coq Require Import List. Import ListNotations.", exprs, shard=60)
    return [vlib.parse_coq(v) for v in vals]


# ----------------------------------------------------------------------------- wire side
SQLTXT = {"Begin": "BEGIN", "Commit": "COMMIT", "Rollback": "ROLLBACK", "Select": "SELECT 1", "SetG": "SET work_mem TO 7",
          "Fail": "SELECT 1 /*mock:error*/", "CopyIn": "COPY t FROM STDIN", "DeallocAll": "DEALLOCATE ALL"}


def scenario(ops, ps, sm, caching, cc=True, inuse=None):
    uses_idle = any(o[0] == "IdleTimeout" for o in ops)
    general = {"connect_timeout": 1000}
    if uses_idle:
        general["idle_client_in_transaction_timeout"] = 1500
    toml = W.make_toml(general=general, pools={"db": {
        "opts": {"pool_mode": "session" if sm else "transaction", "prepared_statements_cache_size": 50 if caching else 0,
                 "cleanup_server_connections": bool(cc)},
        "users": [{"pool_size": ps, "statement_timeout": 1200}],
        "shards": [{"servers": [["b0", "primary"]]}]}})
    steps, prep_n = [], [0]

    big = [0]

    def sqls(c, ss, prefix=""):
        out = []
        for s in ss:
            if s == "Prepare":
                prep_n[0] += 1
                out.append("PREPARE p%d AS SELECT 1" % prep_n[0])
            elif s == "Select":
                # every third SELECT returns rows that cross pgcat's 8196-byte relay buffer
                big[0] += 1
                if big[0] % 3 == 0:
                    out.append("SELECT 1 /*mock: rows=%d, size=%d*/" % ((1, 9000) if big[0] % 2 else (3, 4200)))
                else:
                    out.append(SQLTXT[s])
            else:
                out.append(SQLTXT[s])
        return prefix + "; ".join(out) + " /*c%d*/" % c

    opmeta = []
    for o in ops:
        k, c = o[0], o[1]
        cn = "c%d" % c
        if k == "Connect":
            steps.append({"op": "connect", "c": cn, "params": {"user": "u", "database": "db"}, "password": "pw"})
        elif k == "Query":
            until = "G" if (o[2] and o[2][-1] == "CopyIn") else "Z"
            steps.append({"op": "send", "c": cn, "msgs": [{"t": "Q", "sql": sqls(c, o[2])}]})
            # a CopyIn message that errors earlier ends with Z: accept either
            steps.append({"op": "recv", "c": cn, "until": "ZG" if until == "G" else "Z", "timeout_ms": 6000, "label": "q"})
        elif k == "Batch":
            named, q = o[2], o[3]
            prep_n[0] += 1
            name = "s%d" % prep_n[0] if named else ""
            steps.append({"op": "send", "c": cn, "msgs": [{"t": "P", "name": name, "sql": sqls(c, [q])}, {"t": "B", "name": name}, {"t": "E"}, {"t": "S"}]})
            steps.append({"op": "recv", "c": cn, "until": "Z", "timeout_ms": 6000, "label": "b"})
        elif k == "CopyDone":
            steps.append({"op": "send", "c": cn, "msgs": [{"t": "d", "data": "1\n"}, {"t": "c"}]})
            steps.append({"op": "recv", "c": cn, "until": "Z", "timeout_ms": 6000})
        elif k == "CopyFail":
            steps.append({"op": "send", "c": cn, "msgs": [{"t": "f", "msg": "no"}]})
            steps.append({"op": "recv", "c": cn, "until": "Z", "timeout_ms": 6000})
        elif k == "StrayCopy":
            steps.append({"op": "send", "c": cn, "msgs": [{"t": "c"}] if o[2] == "c" else [{"t": "f", "msg": "no"}]})
            steps.append({"op": "recv", "c": cn, "until": "", "count": 0, "timeout_ms": 250, "label": "stray"})
        elif k == "Terminate":
            steps.append({"op": "send", "c": cn, "msgs": [{"t": "X"}]})
            steps.append({"op": "sleep", "ms": 60})
        elif k == "Drop":
            steps.append({"op": "close", "c": cn})
            steps.append({"op": "sleep", "ms": 80})
        elif k == "BadMsg":
            steps.append({"op": "send", "c": cn, "msgs": [{"t": "B", "name": "nosuchstatement"}]})
            steps.append({"op": "recv", "c": cn, "until": "", "count": 0, "timeout_ms": 3000, "label": "bad"})
            steps.append({"op": "sleep", "ms": 40})
        elif k == "PanicMsg":
            steps.append({"op": "send", "c": cn, "msgs": [{"raw": "430000000553"}]})   # Close, body "S", no name
            steps.append({"op": "recv", "c": cn, "until": "", "count": 0, "timeout_ms": 3000, "label": "panic"})
            steps.append({"op": "sleep", "ms": 40})
        elif k == "IdleTimeout":
            steps.append({"op": "sleep", "ms": 1700})
            steps.append({"op": "recv", "c": cn, "until": "Z", "timeout_ms": 3000, "label": "idle"})
        elif k == "StmtTimeout":
            gone = (len(steps) % 2 == 0)
            if gone:
                # the client has already gone (RST) when the statement timeout fires; the server answers later
                steps.append({"op": "send", "c": cn, "msgs": [{"t": "Q", "sql": sqls(c, o[2], "/*mock:sleep=2200*/ ")}]})
                steps.append({"op": "sleep", "ms": 30})
                steps.append({"op": "close", "c": cn, "rst": True})
                steps.append({"op": "sleep", "ms": 2500})
            else:
                steps.append({"op": "send", "c": cn, "msgs": [{"t": "Q", "sql": sqls(c, o[2], "/*mock:hang*/ ")}]})
                steps.append({"op": "recv", "c": cn, "until": "", "count": 0, "timeout_ms": 4000, "label": "stmt_timeout"})
                steps.append({"op": "sleep", "ms": 40})
        elif k == "WriteFail":
            # the statements run, the client is gone (RST) when pgcat writes the reply
            steps.append({"op": "send", "c": cn, "msgs": [{"t": "Q", "sql": sqls(c, o[2], "/*mock:sleep=150*/ ")}]})
            steps.append({"op": "sleep", "ms": 30})
            steps.append({"op": "close", "c": cn, "rst": True})
            steps.append({"op": "sleep", "ms": 250})
        elif k == "ServerDies":
            steps.append({"op": "send", "c": cn, "msgs": [{"t": "Q", "sql": sqls(c, o[2], "/*mock:close*/ ")}]})
            steps.append({"op": "recv", "c": cn, "until": "", "count": 0, "timeout_ms": 4000, "label": "server_dies"})
            steps.append({"op": "sleep", "ms": 40})
        if inuse is not None and len(opmeta) < len(inuse):
            steps.append({"op": "wait_inuse", "n": inuse[len(opmeta)], "timeout_ms": 6000})
        opmeta.append(o)
    steps.append({"op": "sleep", "ms": 60})
    steps.append({"op": "snapshot", "label": "end"})
    return {"backends": [{"name": "b0"}], "toml": toml, "steps": steps, "workers": 2}


def classify_sql(sql):
    """(kind, client) for a statement text seen by the backend."""
    import re
    m = re.search(r"/\*c(\d+)\*/", sql)
    c = int(m.group(1)) if m else None
    t = sql.strip()
    if c is None:
        if t == "ROLLBACK":
            return ("rollback", None)
        if t.startswith("RESET ROLE;"):
            return ("reset", None)
        if t == ";":
            return ("health", None)
        if t.startswith("SET "):
            return ("sync", None)
        return ("foreign", None)
    return ("client", c)


def impl_conn_logs(res):
    """per backend connection (in order of first appearance): list of observed items."""
    conns, order = {}, []
    pend = {}  # conn -> pending extended batch (client) until Sync
    for e in res.get("events", []):
        if e.get("who") != "b0":
            continue
        cid = e.get("conn")
        if e["ev"] == "open":
            conns[cid] = []
            order.append(cid)
        elif e["ev"] == "msg":
            tag, d = e["tag"], e["detail"]
            if tag == "Q":
                kind, c = classify_sql(d.get("sql", ""))
                conns[cid].append({"k": kind, "c": c, "sql": d.get("sql"), "state": e["state"], "seq": e["seq"]})
            elif tag == "P":
                kind, c = classify_sql(d.get("sql", ""))
                conns[cid].append({"k": kind, "c": c, "sql": d.get("sql"), "state": e["state"], "seq": e["seq"], "ext": True})
            elif tag in ("d", "c", "f", "B", "E", "S", "D", "C", "H"):
                pass
            elif tag == "X":
                pass
        elif e["ev"] == "close":
            conns[cid].append({"k": "closed", "why": e.get("why"), "seq": e["seq"]})
    return [(cid, conns[cid]) for cid in order]


def model_conn_logs(events):
    logs, order = {}, []
    for ev in events:
        code, s = ev[0], ev[1] if len(ev) > 1 else None
        if code == 0:
            if s not in logs:
                logs[s] = []
                order.append(s)
        elif code == 1:
            logs[s].append(("client", ev[2]))
        elif code == 2:
            if ev[2]:
                logs[s].append(("rollback", None))
            if ev[3] or ev[4]:
                logs[s].append(("reset", (bool(ev[3]), bool(ev[4]))))
        elif code == 4:
            logs[s].append(("closed", None))
    return [(s, logs[s]) for s in order]


def compare(case, model, res):
    """returns list of disagreement strings (empty = agree)."""
    ops, ps, sm, caching, cc = case
    events, mconns, mclients, mon = model[:4]
    dis = []
    if "harness_error" in res or "start_error" in res:
        return ["harness: %s" % (res.get("harness_error") or res.get("start_error"))]
    for e in res.get("events", []):
        if e.get("ev") == "wait_inuse_timeout":
            dis.append("server connections in use: pooler reports %s, model %s" % (e["got"], e["want"]))
            break
    il = impl_conn_logs(res)
    # drop connections that never saw a statement and were never closed by a fault (validate() opens one early)
    il_used = [(cid, [x for x in items if x["k"] not in ("health", "sync")]) for cid, items in il]
    ml = model_conn_logs(events)
    il_cmp = []
    for cid, items in il_used:
        seq = []
        for x in items:
            if x["k"] == "client":
                seq.append(("client", x["c"]))
            elif x["k"] == "rollback":
                seq.append(("rollback", None))
            elif x["k"] == "reset":
                seq.append(("reset", ("RESET ALL" in x["sql"], "DEALLOCATE ALL" in x["sql"])))
            elif x["k"] == "closed":
                seq.append(("closed", None))
            elif x["k"] == "foreign":
                seq.append(("foreign", x["sql"]))
        il_cmp.append(seq)
    # connections still open at the end have no "closed"; connections the model closed must be closed
    il_cmp = [s for s in il_cmp if s and s != [("closed", None)]]
    ml_cmp = [s for _, s in ml]
    # at the end of the scenario the harness process ends; a trailing close of a live connection is not observed
    if len(il_cmp) != len(ml_cmp):
        dis.append("number of used server connections: impl %d model %d" % (len(il_cmp), len(ml_cmp)))
    for i, (a, b) in enumerate(zip(il_cmp, ml_cmp)):
        if a != b:
            dis.append("connection #%d: impl %s / model %s" % (i, a, b))
            break
    return dis


def monitors(res, caching, cc=True):
    """Model-free property monitors on the implementation trace. Returns (c01 violations, c02 violations)."""
    v01, v02 = [], []
    il = impl_conn_logs(res)
    for cid, items in il:
        holder, in_txn_of = None, None
        for x in items:
            if x["k"] != "client":
                continue
            st = x["state"]
            if x["c"] != holder:
                # hand-off: the backend session must be clean when the new client's first message arrives
                dirty = []
                if st["txn"] != "I":
                    dirty.append("txn=" + st["txn"])
                if st["copy"]:
                    dirty.append("copy")
                # the property speaks of state created OUTSIDE a transaction block (gucs_out / role_out)
                # (with cleanup_server_connections = false the operator gave up the reset of session state)
                g = [y for y in st.get("gucs_out", []) if y != "application_name"]
                if g and cc:
                    dirty.append("gucs set outside a transaction=%s" % g)
                if st.get("role_out") and cc:
                    dirty.append("role=%s" % st["role"])
                if st["sql_prepared"] and cc:
                    dirty.append("sql_prepared=%s" % st["sql_prepared"])
                if st["stmts"] and not caching and cc:
                    dirty.append("stmts=%s" % [s[0] for s in st["stmts"]])
                if dirty and holder is not None:
                    v02.append({"conn": cid, "from": holder, "to": x["c"], "dirty": dirty, "sql": x["sql"]})
                if holder is not None and st["txn"] != "I":
                    v01.append({"conn": cid, "foreign_statement_in_transaction_of": holder, "by": x["c"], "sql": x["sql"]})
                holder = x["c"]
    # every result a client receives names the backend connection that executed ITS statement
    sent = {}
    for e in res.get("events", []):
        if e.get("ev") == "recv" and e.get("who", "").startswith("c"):
            me = int(e["who"][1:])
            for f in e["frames"]:
                if f.get("t") == "D" and f.get("cols") and len(f["cols"]) >= 3 and isinstance(f["cols"][2], str):
                    import re
                    m = re.search(r"/\*c(\d+)\*/", f["cols"][2])
                    if m and int(m.group(1)) != me:
                        v01.append({"client": me, "received_result_of": int(m.group(1)), "sql": f["cols"][2]})
                        v02.append({"client": me, "received_unread_reply_of": int(m.group(1)), "sql": f["cols"][2]})
    # a statement that arrives inside a transaction block must be on the connection that carried the
    # same client's previous statement (the whole transaction on one server connection)
    last_conn = {}
    allmsgs = sorted([(x["seq"], cid, x) for cid, items in il for x in items if x["k"] == "client"])
    for _, cid, x in allmsgs:
        c, st = x["c"], x["state"]
        if st["txn"] != "I" and last_conn.get(c) is not None and last_conn[c] != cid:
            v01.append({"client": c, "transaction_spread_over_connections": [last_conn[c], cid], "sql": x["sql"]})
        last_conn[c] = cid
    return v01, v02


# ----------------------------------------------------------------------------- soak (thorough tier)
def soak_scenario(rng, nclients, pool_size, txns, session_mode=False):
    """nclients free-running scripted clients (one tokio task each) on the multi-thread runtime:
    random transactions, aborts at random points; the monitors are evaluated on the backend log."""
    toml = W.make_toml(general={"connect_timeout": 3000}, pools={"db": {
        "opts": {"pool_mode": "session" if session_mode else "transaction"},
        "users": [{"pool_size": pool_size}], "shards": [{"servers": [["b0", "primary"]]}]}})
    steps = []
    for c in range(1, nclients + 1):
        cn = "c%d" % c
        sub = [{"op": "connect", "c": cn, "params": {"user": "u", "database": "db"}, "password": "pw"}]
        alive = True
        for t in range(txns):
            if not alive:
                break
            k = rng.random()
            body = []
            if k < 0.55:
                body = ["BEGIN", "SELECT 1", rng.choice(["SELECT 2", "SET work_mem TO 3", "SELECT 1 /*mock:error*/"]), rng.choice(["COMMIT", "ROLLBACK"])]
            elif k < 0.8:
                body = [rng.choice(["SELECT 1", "SET work_mem TO 5", "PREPARE q%d_%d AS SELECT 1" % (c, t), "BEGIN; SELECT 1; COMMIT"])]
            else:
                body = ["BEGIN", "SELECT 1"]
            for sql in body:
                sub.append({"op": "send", "c": cn, "msgs": [{"t": "Q", "sql": "%s /*c%d*/" % (sql, c)}]})
                sub.append({"op": "recv", "c": cn, "until": "Z", "timeout_ms": 5000})
            if k >= 0.8:
                ab = rng.random()
                if ab < 0.4:
                    sub.append({"op": "close", "c": cn}); alive = False
                elif ab < 0.7:
                    sub.append({"op": "send", "c": cn, "msgs": [{"raw": "430000000553"}]}); alive = False
                else:
                    sub.append({"op": "send", "c": cn, "msgs": [{"t": "X"}]}); alive = False
        steps.append({"op": "spawn", "task": cn, "steps": sub})
    for c in range(1, nclients + 1):
        steps.append({"op": "join", "task": "c%d" % c, "timeout_ms": 60000})
    steps.append({"op": "sleep", "ms": 100})
    steps.append({"op": "snapshot", "label": "end"})
    return {"backends": [{"name": "b0"}], "toml": toml, "steps": steps, "workers": 4}


# ----------------------------------------------------------------------------- environment faults (monitor-only)
def env_scenarios(rng, count):
    """Scenarios outside the session model's op alphabet (the model has no health check and no server-side reset of an idle
    connection): a health check that is answered late, a server that resets its idle connections, both mixed with ordinary
    transactions of 2-3 clients.  Evaluated with the model-free monitors only (plus `own_reply_problems`)."""
    out = []
    for t in range(count):
        kind = ["late_healthcheck", "reset_idle", "both", "prewarm_big"][t % 4]
        ps = rng.choice([1, 1, 2])
        ncl = rng.choice([2, 3])
        general = {"connect_timeout": 1200, "healthcheck_timeout": 250}
        if kind != "reset_idle" or rng.random() < 0.5:
            general["healthcheck_delay"] = 0          # every checkout runs the `;` health check first
        plugins = None
        if kind == "prewarm_big" or rng.random() < 0.25:
            # the statements pgcat runs itself on a NEW server connection (prewarmer plugin) have replies of their own: one
            # that does not fit into a single Server::recv() buffer (8196 bytes), notices, several statements, an error
            pre = [rng.choice(["SELECT 1 /*mock: rows=40, size=300*/ /*pw*/", "SELECT 1 /*mock: rows=3, size=4000*/ /*pw*/",
                               "SELECT 1 /*mock: rows=1, size=20*/ /*pw*/", "SELECT 1 /*mock: rows=200, size=60*/ /*pw*/"])
                   for _ in range(rng.choice([1, 1, 2]))]
            plugins = "[plugins]\n[plugins.prewarmer]\nenabled = true\nqueries = [%s]\n" % ", ".join('"%s"' % x for x in pre)
        toml = W.make_toml(general=general, plugins=plugins, pools={"db": {
            "opts": {"pool_mode": "transaction"}, "users": [{"pool_size": ps, "statement_timeout": 3000}],
            "shards": [{"servers": [["b0", "primary"]]}]}})
        steps = []
        for c in range(1, ncl + 1):
            steps.append({"op": "connect", "c": "c%d" % c, "params": {"user": "u", "database": "db"}, "password": "pw"})
        nq = [0]

        def q(c, sql):
            nq[0] += 1
            steps.append({"op": "send", "c": "c%d" % c, "msgs": [{"t": "Q", "sql": "%s /*c%d*/" % (sql, c)}]})
            steps.append({"op": "recv", "c": "c%d" % c, "until": "Z", "timeout_ms": 4000, "label": "q"})
            steps.append({"op": "sleep", "ms": 25})

        def plain(c):
            q(c, rng.choice(["SELECT 1", "SELECT 1", "BEGIN; SELECT 1; COMMIT", "SELECT 1 /*mock: rows=2, size=300*/"]))
        for c in range(1, ncl + 1):
            plain(c)
        for rnd in range(rng.randint(2, 4)):
            f = kind if kind not in ("both", "prewarm_big") else rng.choice(["late_healthcheck", "reset_idle", "reset_idle"])
            if f == "late_healthcheck" and "healthcheck_delay" in general:
                steps.append({"op": "backend", "b": "b0", "slow_exact": {"sql": ";", "ms": rng.choice([450, 700]), "count": rng.choice([1, 1, 2])}})
            else:
                steps.append({"op": "backend", "b": "b0", "reset_sessions": True})
                steps.append({"op": "sleep", "ms": 60})
            victim = rng.randint(1, ncl)
            q(victim, "SELECT 1")                      # may be refused / fail: any reply is fine, somebody else's is not
            steps.append({"op": "sleep", "ms": rng.choice([100, 500, 800])})
            order = list(range(1, ncl + 1))
            rng.shuffle(order)
            for c in order + order:
                plain(c)
        steps.append({"op": "sleep", "ms": 60})
        steps.append({"op": "snapshot", "label": "end"})
        out.append({"backends": [{"name": "b0"}], "toml": toml, "steps": steps, "workers": 2, "_kind": kind})
    return out


def own_reply_problems(res):
    """Every ReadyForQuery-terminated reply a client reads for a tagged plain statement is either an error reply or carries
    rows naming exactly that statement (the mock puts the statement text into every row)."""
    bad, pending = [], {}
    for e in res.get("events", []):
        who = e.get("who", "")
        if e.get("ev") == "sent" and who.startswith("c") and e.get("msgs") and e["msgs"][0].get("t") == "Q":
            pending[who] = e["msgs"][0].get("sql", "")
        elif e.get("ev") == "recv" and who in pending and e.get("outcome") == "ok":
            sql = pending.pop(who)
            fr = e.get("frames", [])
            if any(f.get("t") == "E" for f in fr):
                continue
            rows = [f for f in fr if f.get("t") == "D" and f.get("cols") and len(f["cols"]) >= 3]
            texts = [f["cols"][2] for f in rows if isinstance(f["cols"][2], str)]
            if "SELECT" in sql and not texts:
                bad.append({"client": who, "statement": sql, "reply_without_rows": [f.get("t") for f in fr]})
            for tx in texts:
                if tx.strip() not in sql:
                    bad.append({"client": who, "statement": sql, "row_of_another_statement": tx})
    return bad
