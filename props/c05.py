"""C05 — writes and transactions go to the primary; explicit role choices are honoured.

P:  coq/Route/{Model,Spec,Proofs,Props}.v (hand model of QueryRouter::infer / is_mutation_query /
    try_execute_command's role arms / the client.rs gating / pool.get's candidate filter).
T2: a bounded-depth PostgreSQL statement grammar (props/sqlgen.py) produces SQL text with the
    generator's own abstract label; the real QueryRouter::parse + infer + try_execute_command run
    through harness bin `router`; sqlparser's real AST is projected (harness/src/astproj.rs) and the
    Coq model is evaluated on that projection with vm_compute; role / parser / primary-reads are
    compared after every step of every session, for all 24 pool configurations.
    Monitor (no model): from the generator's label alone — non-plain-read => primary, plain => not
    pinned, explicit role sticky.
"""
import itertools, json, os, re, struct
import vlib
from props import routerlib as RL
from props import sqlgen as G

COQ_FILES = ["Route/Model.v", "Route/Spec.v", "Route/Proofs.v", "Route/Props.v"]
F17 = "F17-batch-last-parse-role"
F23 = "F23-table-lock-dropped-by-parser"
# sqlparser 0.52 parse_as_table swallows the two tokens after `TABLE name`: the locking clause is lost
F23_RE = re.compile(r"\bTABLE\s+[A-Za-z_\"][A-Za-z_0-9\"]*\s+FOR\s+(UPDATE|SHARE)\b", re.I)

# (parser, splitting, primary_reads, default_role, plugins): a [plugins] section only matters on a pool whose parser is on
CFGS = [(p, s, r, d, False) for p in (True, False) for s in (True, False) for r in (False, True) for d in (None, "primary", "replica")] + \
       [(True, s, r, d, True) for s in (True, False) for r in (False, True) for d in (None, "primary", "replica")]
PLUGINS_JSON = {"table_access": {"enabled": True, "tables": ["unrelated_secret"]}, "intercept": None, "query_logger": None, "prewarmer": None}
PLUGINS_TOML = '[plugins]\n[plugins.table_access]\nenabled = true\ntables = ["unrelated_secret"]\n'
ROLE_CODE = {None: 0, "primary": 1, "replica": 2, "mirror": 3}

ROLE_CMDS = {"primary": "RPrimary", "replica": "RReplica", "any": "RAny", "auto": "RAuto", "default": "RDefault"}
PR_CMDS = {"on": "POn", "off": "POff", "default": "PDefault"}


def settings_json(c, auto_key=False):
    s = {"parser": c[0], "splitting": c[1], "primary_reads": c[2], "default_role": c[3], "shards": 1}
    if len(c) > 4 and c[4]:
        s["plugins"] = PLUGINS_JSON
    if auto_key:
        s.update({"shards": 3, "auto_key": "data.id"})
    return s


def coq_cfg(c):
    d = {None: "None", "primary": "(Some Primary)", "replica": "(Some Replica)"}[c[3]]
    b = lambda x: "true" if x else "false"
    return "(mk %s %s %s %s %s)" % (b(c[0]), b(c[1]), b(c[2]), d, b(len(c) > 4 and c[4]))


PREAMBLE = """From Coq Require Import List Bool Arith NArith.
From PV Require Import Route.Model Route.Spec.
Import ListNotations.
Definition rc (r : option role) : N := match r with None => 0 | Some Primary => 1 | Some Replica => 2 | Some Mirror => 3 end%%N.
Definition obs (cfg : settings) (st : rstate) : N := (rc (active_role st) * 4 + (if parser_on cfg st then 2 else 0) + (if preads_on cfg st then 1 else 0))%%N.
(* one number per configuration: the per-step observations as base-16 digits, most significant = first step, leading 1 *)
Definition pack (l : list N) : N := fold_left (fun acc d => acc * 16 + d)%%N l 1%%N.
Definition mk p s r d g := {| s_parser := p; s_splitting := s; s_primary_reads := r; s_default_role := d; s_plugins := g |}.
Definition cfgs := [%s].
Definition run (its : list item) := map (fun cfg => pack (map (obs cfg) (session_trace cfg (init_state cfg) its))) cfgs.
Definition shc (o : option nat) : N := match o with None => 0%%N | Some n => N.of_nat (S n) end.
Definition cfgs6 := filter (fun c => s_parser c && s_splitting c) cfgs.
Definition runsh (sho : list shres) (ss : list stmt) :=
  map (fun cfg => let r := infer_sh cfg quiet true (fun i => nth i sho ShNone) (init_state cfg) None ss in
                  (rc (active_role (fst (fst r))), shc (snd (fst r)), snd r)) cfgs6.
Definition wire_allowed (cfg : settings) (nsh : nat) (d : default_shard) (addrs : list addr) (st : rstate) (it : item) :=
  match checkout_role cfg st it with
  | None => None
  | Some r => Some (rc r, match retain_shard nsh None d with None => [] | Some keep => map a_id (candidates r keep addrs) end)
  end.
Fixpoint wire_trace (cfg : settings) (nsh : nat) (d : default_shard) (addrs : list addr) (st : rstate) (its : list item) :=
  match its with
  | [] => []
  | it :: r => wire_allowed cfg nsh d addrs st it :: wire_trace cfg nsh d addrs (client_route cfg st it) r
  end.
Definition cls (ms : list (list stmt)) := map (fun m => pack (map (fun s => if plain_read s then 1 else 0)%%N m)) ms.
""" % "; ".join(coq_cfg(c) for c in CFGS)


# ---- projection (JSON from astproj.rs) -> Gallina ------------------------------------------
def coq_q(q):
    return "(MkQuery [%s] [%s] %s %s)" % ("; ".join(coq_q(c) for c in q["with"]), "; ".join(coq_q(c) for c in q["subs"]),
                                          coq_b(q["body"]), "true" if q["locks"] else "false")


def coq_b(b):
    k = b["b"]
    if k == "select":
        return "(BSelect %s)" % ("true" if b["into"] else "false")
    if k == "setop":
        return "(BSetOp %s %s)" % (coq_b(b["l"]), coq_b(b["r"]))
    if k == "nested":
        return "(BNested %s)" % coq_q(b["q"])
    return {"insert": "BInsert", "update": "BUpdate", "values": "BValues", "table": "BTable"}[k]


def coq_stmt(s):
    if s["k"] == "start":
        return "SStartTxn"
    if s["k"] == "query":
        return "(SQuery %s)" % coq_q(s["q"])
    return "SOther"


def coq_stmts(ast):
    return "[%s]" % "; ".join(coq_stmt(s) for s in ast)


def coq_parsed(ast):
    return "PRej" if ast is None else "(PAcc quiet %s)" % coq_stmts(ast)


def bind_msg():
    b = b"\0\0" + struct.pack(">h", 0) + struct.pack(">h", 0) + struct.pack(">h", 0)
    return (b"B" + struct.pack(">i", len(b) + 4) + b).hex()


# ---- steps of a session ------------------------------------------------------------------------
def step_cmd_role(v):
    return {"op": "command", "sql": "SET SERVER ROLE TO '%s'" % v, "_k": ("role", v)}


def step_cmd_pr(v):
    return {"op": "command", "sql": "SET PRIMARY READS TO '%s'" % v, "_k": ("pr", v)}


def step_route(proto, mi):
    return {"op": "route", "proto": proto, "gate": "client", "_k": ("msg", mi)}


def step_bind():
    return {"op": "bind", "hex": bind_msg(), "_k": ("bind",)}


def coq_item(step, asts):
    k = step["_k"]
    if k[0] == "role":
        return "(ICmd (SetServerRole %s))" % ROLE_CMDS[k[1].lower()]
    if k[0] == "pr":
        return "(ICmd (SetPrimaryReads %s))" % PR_CMDS[k[1].lower()]
    if k[0] == "bind":
        return "(IBatch [BBind 0; BOther])"
    p = coq_parsed(asts[k[1]])
    return "(ISimple %s)" % p if step["proto"] == "Q" else "(IBatch [BParse 0 %s])" % p


def wire_steps(steps, texts):
    out = []
    for s in steps:
        w = {k: v for k, v in s.items() if not k.startswith("_")}
        if s["_k"][0] == "msg":
            w["sql"] = texts[s["_k"][1]]
        out.append(w)
    return out


def unpack(n, k):
    """inverse of the Coq `pack`: k base-16 digits below a leading 1"""
    ds = []
    for _ in range(k):
        ds.append(n % 16); n //= 16
    if n != 1:
        raise ValueError("pack/unpack length mismatch")
    return ds[::-1]


def dec_obs(d):
    return (d // 4, bool(d & 2), bool(d & 1))


def impl_obs(o):
    st = o["state"]
    return (ROLE_CODE[st["role"]], bool(st["parser"]), bool(st["primary_reads"]))


# ---- the model-free monitor ------------------------------------------------------------------------
def monitor(cfg, steps, outs, labels, asts):
    """Checks the property's own predicate on the implementation's trace.  `labels` are the
    GENERATOR's labels.  Returns list of (step index, kind, text)."""
    bad = []
    role, parser, preads = ROLE_CODE[cfg[3]], cfg[0], cfg[2]
    explicit = None      # role code chosen by the last SET SERVER ROLE primary|replica|any
    for i, (s, o) in enumerate(zip(steps, outs)):
        if "panic" in o:
            bad.append((i, "panic", "the step panics: %s" % o["panic"]))
            break
        k = s["_k"]
        got = impl_obs(o)
        if k[0] in ("role", "pr"):
            if not o.get("cmd"):
                bad.append((i, "command-not-recognised", s["sql"]))
            if k[0] == "role":
                v = k[1].lower()
                explicit = {"primary": 1, "replica": 2, "any": 0}.get(v)
                if explicit is not None and got[0] != explicit:
                    bad.append((i, "explicit-role", "SET SERVER ROLE TO '%s' left role %s" % (v, got[0])))
        elif k[0] == "msg":
            lab = labels[k[1]]
            if explicit is not None:
                if got[0] != explicit:
                    bad.append((i, "explicit-role", "role chosen by SET SERVER ROLE (%s) replaced by %s" % (explicit, got[0])))
            elif parser and cfg[1] and o.get("parse") == "ok" and lab:
                if any(not G.plain_stmt(l) for l in lab):
                    if got[0] != 1:
                        bad.append((i, "write-not-primary", "message with a non-plain-read routed to role %s" % got[0]))
                elif asts[k[1]] is not None and all(G.plain_stmt(l) for l in asts[k[1]]):
                    want = 0 if preads else 2
                    if got[0] != want:
                        bad.append((i, "read-pinned", "plain reads routed to role %s, expected %s" % (got[0], want)))
        elif k[0] == "bind":
            if explicit is not None and got[0] != explicit:
                bad.append((i, "explicit-role", "Bind changed the explicit role"))
        role, parser, preads = got
    return bad


def candidate_filter_tie(run, router):
    """Every wanted role (None, primary, replica, mirror) x every address list over {primary, replica, mirror} of length <= 4:
    the real `impl PartialEq<Option<Role>> for Role` used as in ConnectionPool::get's filter vs Route/Model.v candidates."""
    import itertools
    names = ["primary", "replica", "mirror"]
    coqn = {"primary": "Primary", "replica": "Replica", "mirror": "Mirror", None: None}
    lists = [list(t) for n in range(0, 5) for t in itertools.product(names, repeat=n)]
    wants = [None, "primary", "replica", "mirror"]
    cases = [(w, l) for w in wants for l in lists]
    res = RL.run_router(router, [{"settings": settings_json((True, True, False, None)),
                                  "steps": [{"op": "role_eq", "want": w, "addrs": l}]} for w, l in cases])
    exprs = []
    for w, l in cases:
        addrs = "[" + "; ".join("{| a_id := %d; a_shard := 0; a_role := %s |}" % (i, coqn[r]) for i, r in enumerate(l)) + "]"
        exprs.append("map (fun a => N.of_nat (a_id a)) (candidates %s None %s)" % ("None" if w is None else "(Some %s)" % coqn[w], addrs))
    vals = vlib.coq_eval("c05filter", "From Coq Require Import List Bool Arith NArith.\nFrom PV Require Import Route.Model.\nImport ListNotations.", exprs, shard=120)
    bad = 0
    for (w, l), r, v in zip(cases, res, vals):
        o = r["out"][0]
        model = [int(x) for x in vlib.parse_coq(v)]
        impl = o.get("kept") if "panic" not in o else "panic"
        # the property's own rule: a request for role r is served only by servers of role r; no preference = any server
        want_ids = [i for i, x in enumerate(l) if w is None or x == w]
        if impl != want_ids:
            run.violation("counterexample", "ConnectionPool::get's candidate filter (`address.role == role`): a request for role %s over servers %s keeps %s, "
                          "the property allows %s" % (w, l, impl, want_ids), {"input": {"want": w, "addrs": l}, "impl": impl, "expected": want_ids, "model": model})
            bad += 1
        elif model != impl:
            run.violation("tie-broken", "Route/Model.v candidates and the real candidate filter differ for role %s over %s: model %s, implementation %s" % (w, l, model, impl),
                          {"correspondence": "Route.Model.candidates vs impl PartialEq<Option<Role>> for Role", "input": {"want": w, "addrs": l}}, found_input=False)
            bad += 1
        if bad >= 3:
            break
    run.cov["candidate_filter_cases"] = len(cases)
    run.cov["evaluations"] += len(cases)
    run.cov["traces_validated_against_impl"] += len(cases)
    return bad == 0


def sharded_tie(run, router, quick, proof_ok, samples, distinct):
    """automatic_sharding_key set: messages over a sharded table whose statements land on different
    shards, reads before/after writes, in every order.  Compared with Route.Model.infer_sh fed with the
    per-statement outcome of the real infer_shard / infer_shard_on_write (learned from single-statement
    runs): role, active shard and infer's Err flag; monitor: a non-plain-read => primary."""
    rng = run.rng
    st = G.sharded_statements()
    cfgs6 = [c for c in CFGS if c[0] and c[1]]
    n = 0
    pending = None
    hist = {"messages": 0, "with_shard_error": 0, "error_before_a_write": 0, "panics": 0}
    for ak in ("data.id", "*.id"):
        base = settings_json((True, True, False, None), auto_key=True)
        base["auto_key"] = ak
        res = RL.run_router(router, [{"settings": base, "steps": [{"op": "route", "proto": "Q", "sql": t}]} for t, _, _ in st])
        orc, one = {}, {}
        for (t, l, k), r in zip(st, res):
            o = r["out"][0]
            if "panic" in o or o.get("parse") != "ok" or len(o["ast"]) != 1:
                hist["panics"] += "panic" in o
                continue
            sh = o["state"]["shard"]
            orc[t] = "ShErr" if str(o.get("infer", "")).startswith("err") else ("ShNone" if sh is None else "(ShSome %d)" % sh)
            one[t] = (l, k, o["ast"][0])
        by = {}
        for t, (l, k, a) in one.items():
            by.setdefault(k, []).append(t)
        shard_of = lambda t: orc[t]
        msgs = []
        # two reads on different shards, then a write: every order (the write's role must not depend on the error)
        reads = [t for t in by["read"] if orc[t].startswith("(ShSome")]
        for _ in range(60 if quick else 600):
            a = rng.choice(reads)
            b = rng.choice([t for t in reads if orc[t] != orc[a]])
            w = rng.choice(by["write"] + by["lock"])
            for perm in itertools.permutations([a, b, w]):
                msgs.append(list(perm))
        for _ in range(120 if quick else 1500):
            kinds = [rng.choice(["read", "read", "write", "lock", "start"]) for _ in range(rng.randint(1, 3))]
            parts = [rng.choice(by[k]) for k in kinds]
            for perm in set(itertools.permutations(parts)):
                msgs.append(list(perm))
        for t in one:
            msgs.append([t])
        seen, uniq = set(), []
        for m in msgs:
            if tuple(m) not in seen:
                seen.add(tuple(m)); uniq.append(m)
        msgs = uniq
        cases = []
        for mi, m in enumerate(msgs):
            for ci, c in enumerate(cfgs6):
                sj = settings_json(c, auto_key=True)
                sj["auto_key"] = ak
                protos = ["Q", "P"] if not quick else ["Q" if (mi + ci) % 2 else "P"]
                for pr in protos:
                    cases.append((mi, ci, {"settings": sj, "steps": [{"op": "route", "proto": pr, "sql": "; ".join(m)}]}))
        res = RL.run_router(router, [c[2] for c in cases])
        asts = {}
        for (mi, ci, case), r in zip(cases, res):
            o = r["out"][0]
            if o.get("parse") == "ok":
                asts.setdefault(mi, o["ast"])
        exprs = ["runsh [%s] %s" % ("; ".join(orc[t] for t in m), coq_stmts(asts[mi])) for mi, m in enumerate(msgs) if mi in asts and len(asts[mi]) == len(m)]
        idx = [mi for mi, m in enumerate(msgs) if mi in asts and len(asts[mi]) == len(m)]
        vals = vlib.coq_eval("c05sh", PREAMBLE, exprs, shard=120) if proof_ok else None
        model = {mi: vlib.parse_coq(v) for mi, v in zip(idx, vals)} if vals is not None else {}
        for (mi, ci, case), r in zip(cases, res):
            o = r["out"][0]
            m = msgs[mi]
            if "panic" in o:
                hist["panics"] += 1
                continue
            if o.get("parse") != "ok":
                continue
            n += 1
            run.cov["traces_validated_against_impl"] += 1
            distinct.add(("sharded", ak, ci, case["steps"][0]["proto"], tuple(m)))
            sh = o["state"]["shard"]
            impl = (ROLE_CODE[o["state"]["role"]], 0 if sh is None else sh + 1, str(o.get("infer", "")).startswith("err"))
            labs = [one[t][0] for t in m]
            if ci == 0:
                hist["messages"] += 1
                if impl[2]:
                    hist["with_shard_error"] += 1
                    # an error recorded before a later write statement
                    if any(one[t][1] in ("write", "lock") for t in m[1:]):
                        hist["error_before_a_write"] += 1
            if any(not G.plain_stmt(l) for l in labs) and impl[0] != 1:
                run.violation("counterexample", "automatic_sharding_key=%s: message %r with a non-plain-read is routed to role %s (infer: %s)" % (ak, "; ".join(m), o["state"]["role"], o.get("infer")),
                              {"input": case, "monitor": "write-not-primary", "impl": list(impl)})
                return n
            if mi in model and pending is None:
                mo = tuple(model[mi][ci])
                mo = (mo[0], mo[1], bool(mo[2]))
                if mo != impl:
                    # keep it; the monitor above goes on over the remaining messages looking for a failing input
                    pending = ("automatic_sharding_key=%s: message %r: model (role, shard+1, Err)=%s implementation=%s" % (ak, "; ".join(m), mo, impl),
                               {"correspondence": "Route/Model.v infer_sh vs QueryRouter::infer", "input": case, "oracle": [orc[t] for t in m], "model": list(mo), "impl": list(impl)})
        if ak == "data.id":
            ex = next((m for m in msgs if len(m) == 3 and one[m[2]][1] == "write" and orc[m[0]] != orc[m[1]] and orc[m[0]].startswith("(ShSome") and orc[m[1]].startswith("(ShSome")), None)
            if ex:
                samples.append({"kind": "sharded-message", "sql": "; ".join(ex), "per_statement_shard_outcome": [orc[t] for t in ex]})
    run.cov["sharded"] = hist
    if pending is not None and not run.violations:
        run.violation("tie-broken", pending[0] + " [every message with a non-plain-read is still routed to the primary]", pending[1], found_input=False)
    return n



# ---------------------------------------------------------------------------------------------- wire leg
WIRE_SHAPES = {
    # name: list of shards, each a list of (backend, role)
    "1x(P+R)": [[("p0", "primary"), ("r0", "replica")]],
    "1x(P+2R)": [[("p0", "primary"), ("r0a", "replica"), ("r0b", "replica")]],
    "2x(P+R)": [[("p0", "primary"), ("r0", "replica")], [("p1", "primary"), ("r1", "replica")]],
    "2x(P+R|P+2R)": [[("p0", "primary"), ("r0", "replica")], [("p1", "primary"), ("r1a", "replica"), ("r1b", "replica")]],
    "3x(P+R|P+2R|P)": [[("p0", "primary"), ("r0", "replica")], [("p1", "primary"), ("r1a", "replica"), ("r1b", "replica")], [("p2", "primary")]],
    "1x(P)": [[("p0", "primary")]],           # a shard without a replica: a request for a replica must fail, not fall back
}
W_READS = ["SELECT a FROM t WHERE a = 1", "SELECT count(*) FROM u", "SELECT 1", "SELECT * FROM t JOIN u ON t.id = u.id", "WITH x AS (SELECT 1) SELECT * FROM x",
           "SELECT 1; SELECT 2"]
W_WRITES = ["INSERT INTO t (a) VALUES (1)", "UPDATE t SET a = 2 WHERE a = 1", "DELETE FROM t WHERE a = 2", "SELECT * FROM t FOR UPDATE", "SELECT * FROM (SELECT * FROM t FOR SHARE) s",
            "WITH x AS (INSERT INTO t VALUES (1) RETURNING *) SELECT * FROM x", "CREATE TABLE n1 (id int)", "TRUNCATE t", "SELECT a INTO t2 FROM t",
            "SELECT 1; INSERT INTO t (a) VALUES (3)", "SELECT * FROM t FOR UPDATE; SELECT 1", "UPDATE t SET a = 1; SELECT 1"]
W_REJECTED = ["VACUUM t", "LOCK TABLE t"]       # sqlparser rejects them: the role is not recomputed
W_EMPTY = ["/*%s*/", "; /*%s*/", " /*%s*/ ; ", "  /*%s*/  ", "-- %s\n/*%s*/"]   # no statement at all (a ping): the tag sits in a comment


def w_tagged(sql, tag):
    """every statement of the message carries the tag of its transaction"""
    return "; ".join("%s /*%s*/" % (p.strip(), tag) for p in sql.split(";"))


def gen_wire_session(rng, t, shape, allow_begin):
    """list of items: ("cmd", sql, coq) | ("txn", kind, first_sql, frames, tag, nonplain, known)"""
    items = []
    n = 0

    def empty_txn():
        nonlocal n
        tag = "w%d_%d" % (t, n)
        n += 1
        q = rng.choice(W_EMPTY).replace("%s", tag)
        if rng.random() < 0.5:
            return ("txn", "simple", q, [[{"t": "Q", "sql": q}]], tag, None, None)
        return ("txn", "batch", q, [[{"t": "P", "name": "", "sql": q}, {"t": "B", "portal": "", "name": ""}, {"t": "E", "portal": "", "max": 0}, {"t": "S"}]], tag, None, None)

    def txn():
        nonlocal n
        if rng.random() < 0.07:
            return empty_txn()
        tag = "w%d_%d" % (t, n)
        n += 1
        k = rng.random()
        if k < 0.30:
            sql = rng.choice(W_READS)
            kind, nonplain = "simple", False
        elif k < 0.58:
            sql = rng.choice(W_WRITES)
            kind, nonplain = "simple", True
        elif k < 0.63:
            sql = rng.choice(W_REJECTED)
            kind, nonplain = "simple", None
        elif k < 0.78 and allow_begin:
            inner = [rng.choice(W_READS[:5] + W_WRITES[:3]) for _ in range(rng.randint(1, 2))]
            frames = [[{"t": "Q", "sql": w_tagged(x, tag)}] for x in [rng.choice(["BEGIN", "START TRANSACTION", "BEGIN ISOLATION LEVEL SERIALIZABLE"])] + inner + [rng.choice(["COMMIT", "ROLLBACK"])]]
            return ("txn", "begin", frames[0][0]["sql"], frames, tag, True, None)
        elif k < 0.93:
            nonplain = rng.random() < 0.55
            sql = rng.choice([x for x in (W_WRITES if nonplain else W_READS) if ";" not in x])
            q = w_tagged(sql, tag)
            return ("txn", "batch", q, [[{"t": "P", "name": "", "sql": q}, {"t": "B", "portal": "", "name": ""}, {"t": "E", "portal": "", "max": 0}, {"t": "S"}]], tag, nonplain, None)
        else:
            w = w_tagged(rng.choice([x for x in W_WRITES if ";" not in x]), tag)
            r = w_tagged(rng.choice([x for x in W_READS if ";" not in x]), tag)
            fr = [{"t": "P", "name": "", "sql": w}, {"t": "B", "portal": "", "name": ""}, {"t": "E", "portal": "", "max": 0},
                  {"t": "P", "name": "", "sql": r}, {"t": "B", "portal": "", "name": ""}, {"t": "E", "portal": "", "max": 0}, {"t": "S"}]
            return ("txn", "batch2", (w, r), [fr], tag, True, F17)
        q = w_tagged(sql, tag)
        return ("txn", kind, q, [[{"t": "Q", "sql": q}]], tag, nonplain, None)

    for _ in range(rng.randint(1, 3)):
        items.append(txn())
    for _ in range(rng.randint(2, 3)):
        if rng.random() < 0.7:
            v = rng.choice(["primary", "replica", "any", "primary", "replica", "auto", "default"])
            items.append(("cmd", "SET SERVER ROLE TO '%s'" % v, "(ICmd (SetServerRole %s))" % ROLE_CMDS[v], ("role", v)))
            if rng.random() < 0.5:
                items.append(empty_txn())       # a ping right after the explicit choice
        else:
            v = rng.choice(["on", "off", "default"])
            items.append(("cmd", "SET PRIMARY READS TO '%s'" % v, "(ICmd (SetPrimaryReads %s))" % PR_CMDS[v], ("pr", v)))
        for _ in range(rng.randint(3, 5)):      # several consecutive transactions after every SET
            items.append(txn())
    return items


def wire_scenario(toml, backends, items):
    steps = [{"op": "connect", "c": "c1", "params": {"user": "u", "database": "db"}, "password": "pw"}]
    for it in items:
        if it[0] == "cmd":
            steps += [{"op": "send", "c": "c1", "msgs": [{"t": "Q", "sql": it[1]}]}, {"op": "recv", "c": "c1", "until": "Z", "timeout_ms": 4000}]
        else:
            for fr in it[3]:
                steps += [{"op": "send", "c": "c1", "msgs": fr}, {"op": "recv", "c": "c1", "until": "Z", "timeout_ms": 4000}]
    return {"backends": [{"name": b} for b in backends], "toml": toml, "steps": steps}


def check_wire(run, router, quick, proof_ok, samples, distinct, recorded):
    """pgcat in-process with mock backends that carry a role: the backend that executed each tagged
    statement vs Route.Model (checkout_role of the session so far + candidates), and the monitor."""
    from props import wirelib as W
    ok, blog, bins = vlib.cargo_build(["wire"])
    if not ok:
        run.violation("tie-broken", "wire harness does not build against /repo", {"correspondence": "wire harness build", "log": blog[-3000:]}, found_input=False)
        return 0
    wire = bins["wire"]
    rng = run.rng
    base = settings_json((True, True, False, None))

    nsess = 150 if quick else 1500
    shapes = list(WIRE_SHAPES)
    metas, scns = [], []
    for t in range(nsess):
        shape = shapes[t % len(shapes)] if t % 4 else rng.choice(shapes)
        shards = WIRE_SHAPES[shape]
        c = (rng.random() < 0.8, rng.random() < 0.8, rng.random() < 0.5, rng.choice([None, "primary", "replica"]), rng.random() < 0.5)
        if t % 5 == 0:
            c = (True, True, c[2], c[3], t % 10 == 0)
        if not c[0]:
            c = (False, False, c[2], c[3], False)      # config.rs rejects read/write splitting and plugins without the parser
        dsh = rng.choice(["shard_0", "random", "random_healthy"])
        toml = W.make_toml(pools={"db": {"opts": {"query_parser_enabled": c[0], "query_parser_read_write_splitting": c[1], "primary_reads_enabled": c[2],
                                                  "default_role": c[3] or "any", "default_shard": dsh},
                                         "users": [{"pool_size": 3}], "plugins": PLUGINS_TOML if c[4] else None,
                                         "shards": [{"servers": [[b, r] for b, r in sh]} for sh in shards]}})
        items = gen_wire_session(rng, t, shape, allow_begin=(shape != "1x(P)"))
        backends = [b for sh in shards for b, _ in sh]
        metas.append({"shape": shape, "cfg": c, "default_shard": dsh, "items": items, "backends": backends,
                      "role_of": {b: r for sh in shards for b, r in sh}, "shard_of": {b: i for i, sh in enumerate(shards) for b, _ in sh}})
        scns.append(wire_scenario(toml, backends, items))
    results = W.run_scenarios(wire, scns, timeout=90)

    # projection of every routed text (the real parser on the real text, tags included)
    routed = sorted({x for m in metas for it in m["items"] if it[0] == "txn" for x in ([it[2]] if isinstance(it[2], str) else list(it[2]))})
    pres = RL.run_router(router, [{"settings": base, "steps": [{"op": "route", "proto": "Q", "sql": t}]} for t in routed])
    ast_of = {t: (r["out"][0]["ast"] if r["out"][0].get("parse") == "ok" else None) for t, r in zip(routed, pres)}
    ast_for = lambda sql: ast_of[sql]

    exprs = []
    for m in metas:
        its = []
        for it in m["items"]:
            if it[0] == "cmd":
                its.append(it[2])
            elif it[1] == "batch":
                its.append("(IBatch [BParse 0 %s; BBind 0; BOther])" % coq_parsed(ast_for(it[2])))
            elif it[1] == "batch2":
                its.append("(IBatch [BParse 0 %s; BBind 0; BOther; BParse 1 %s; BBind 1; BOther])" % (coq_parsed(ast_for(it[2][0])), coq_parsed(ast_for(it[2][1]))))
            else:
                its.append("(ISimple %s)" % coq_parsed(ast_for(it[2])))
        coqr = {"primary": "Primary", "replica": "Replica"}
        addrs = "[%s]" % "; ".join("{| a_id := %d; a_shard := %d; a_role := %s |}" % (i, m["shard_of"][b], coqr[m["role_of"][b]]) for i, b in enumerate(m["backends"]))
        d = "(DShard 0)" if m["default_shard"] == "shard_0" else "DRandom"
        exprs.append("wire_trace %s %d %s %s (init_state %s) [%s]" % (coq_cfg(m["cfg"]), len(WIRE_SHAPES[m["shape"]]), d, addrs, coq_cfg(m["cfg"]), "; ".join(its)))
    vals = vlib.coq_eval("c05w", PREAMBLE, exprs, shard=max(1, (len(exprs) + 15) // 16)) if proof_ok else None

    n = 0
    hist = {"sessions": 0, "plugin_pools": 0, "empty_messages": 0, "empty_under_explicit_role_on_plugin_pool": 0, "transactions": 0, "commands": 0, "set_valued": 0, "no_candidate_errors": 0, "known_F17": 0, "by_shape": {}, "executed_on": {"primary": 0, "replica": 0},
            "any_role_used": {"primary": 0, "replica": 0}, "transactions_after_explicit_role": 0}
    f17_w = None
    pending = None       # first disagreement with the model on which the monitor has nothing to say
    for si, (m, scn, res) in enumerate(zip(metas, scns, results)):
        rp = {"kind_of_input": "wire", "input": {"shape": m["shape"], "cfg": m["cfg"], "default_shard": m["default_shard"], "role_of": m["role_of"],
                                                  "items": [list(it[:3]) + [it[4]] if it[0] == "txn" else list(it[:2]) for it in m["items"]], "scenario": scn}}
        if "harness_error" in res or "start_error" in res:
            run.broken.append("wire harness failed: %s" % (res.get("harness_error") or res.get("start_error")))
            continue
        recvs = [e for e in res["events"] if e.get("ev") == "recv" and e.get("who") == "c1"]
        nrecv = sum(1 if it[0] == "cmd" else len(it[3]) for it in m["items"])
        if len(recvs) != nrecv or any(e.get("outcome") != "ok" for e in recvs):
            run.violation("counterexample", "wire session %d (%s): a message got no complete reply: outcomes %s, task results %s" % (si, m["shape"], [e.get("outcome") for e in recvs][-4:], res.get("task_results")), rp)
            return n
        landed = {}          # tag -> list of (backend, conn)
        for e in res["events"]:
            if e.get("ev") == "msg" and e.get("tag") in ("Q", "E"):
                sql = e["detail"].get("sql") or ""
                if re.match(r"(?i)\s*SET (SERVER ROLE|PRIMARY READS)", sql):
                    run.violation("counterexample", "custom command forwarded to a server: %r" % sql, rp)
                    return n
                for tg in set(re.findall(r"/\*(w\d+_\d+)\*/", sql)):
                    landed.setdefault(tg, []).append((e["who"], e.get("conn")))
        mv = vlib.parse_coq(vals[si]) if vals is not None else None
        hist["sessions"] += 1
        hist["plugin_pools"] += bool(m["cfg"][4])
        hist["by_shape"][m["shape"]] = hist["by_shape"].get(m["shape"], 0) + 1
        # monitor state (model-free): what the session asked for so far
        c = m["cfg"]
        explicit, parser, preads = "none", c[0], c[2]
        ri = 0
        for ii, it in enumerate(m["items"]):
            if it[0] == "cmd":
                fr = recvs[ri]["frames"]; ri += 1
                hist["commands"] += 1
                if not any(f.get("t") == "C" for f in fr) or any(f.get("t") == "E" for f in fr):
                    run.violation("counterexample", "wire session %d: %r is not acknowledged" % (si, it[1]), dict(rp, frames=fr))
                    return n
                k, v = it[3]
                if k == "role":
                    explicit = v if v in ("primary", "replica", "any") else "none"
                    parser = {"auto": True, "default": c[0]}.get(v, False)
                else:
                    preads = {"on": True, "off": False, "default": c[2]}[v]
                if mv is not None and mv[ii] is not None:
                    run.violation("tie-broken", "wire session %d: the model takes %r for a routed message" % (si, it[1]), rp, found_input=False)
                    return n
                continue
            _, kind, first, frames, tag, nonplain, knowncls = it
            frs = [recvs[ri + j]["frames"] for j in range(len(frames))]
            ri += len(frames)
            hist["transactions"] += 1
            if isinstance(first, str) and ast_for(first) == []:
                hist["empty_messages"] += 1
                hist["empty_under_explicit_role_on_plugin_pool"] += bool(c[4] and explicit != "none")
            n += 1
            run.cov["traces_validated_against_impl"] += 1
            where = landed.get(tag, [])
            errored = any(f.get("t") == "E" for f in frs[0])
            backs = sorted(set(where))
            distinct.add(("wire", m["shape"], c, m["default_shard"], explicit, parser, preads, kind, str(first)))
            desc = "wire session %d (%s, parser=%s splitting=%s primary_reads=%s default_role=%s plugins=%s default_shard=%s), transaction %s %r" % (
                si, m["shape"], c[0], c[1], c[2], c[3], c[4], m["default_shard"], tag, first if isinstance(first, str) else list(first))
            if len(backs) > 1:
                run.violation("counterexample", "%s: the statements of one transaction ran on different server connections %s" % (desc, backs), dict(rp, landed=backs))
                return n
            be = backs[0][0] if backs else None
            if be is not None:
                hist["executed_on"][m["role_of"][be]] += 1
            # ---- monitor: the property's own predicate
            bad = None
            if be is not None:
                role = m["role_of"][be]
                if explicit in ("primary", "replica"):
                    hist["transactions_after_explicit_role"] += 1
                    if role != explicit:
                        bad = "SET SERVER ROLE TO '%s' is in force but the transaction ran on %s (%s)" % (explicit, be, role)
                elif explicit == "any":
                    hist["transactions_after_explicit_role"] += 1
                elif parser and c[1] and nonplain is not None:
                    if nonplain and role != "primary":
                        bad = "a write / transaction ran on %s (%s)" % (be, role)
                    elif not nonplain and not preads and role != "replica":
                        bad = "plain reads with primary reads off ran on %s (%s)" % (be, role)
            if bad:
                if knowncls == F17 and explicit == "none":
                    hist["known_F17"] += 1
                    f17_w = f17_w or dict(rp, transaction=tag, backend=be)
                else:
                    run.violation("counterexample", "%s: %s" % (desc, bad), dict(rp, monitor=bad, backend=be, transaction=tag))
                    return n
            # ---- model: allowed servers for this checkout
            if mv is not None and pending is None:
                al = mv[ii]
                if al is None:
                    run.violation("tie-broken", "%s: the model takes it for a custom command" % desc, rp, found_input=False)
                    return n
                want, ids = al[1]
                allowed = [m["backends"][i] for i in ids]
                # the property's own rule for the checkout, computed independently of Model.candidates: servers of the wanted
                # role (any role if none is wanted) on the shard the pool falls back to when the client selected none
                keep = 0 if (len(WIRE_SHAPES[m["shape"]]) == 1 or m["default_shard"] == "shard_0") else None
                rule = [b for b in m["backends"] if (want == 0 or ROLE_CODE[m["role_of"][b]] == want) and (keep is None or m["shard_of"][b] == keep)]
                if rule != allowed:
                    run.violation("tie-broken", "%s: Route.Model candidates yields %s for wanted role code %s, the property's rule (role and shard filter) yields %s" % (desc, allowed, want, rule),
                                  dict(rp, model_allowed=allowed, rule=rule), found_input=False)
                    return n
                if len(allowed) > 1:
                    hist["set_valued"] += 1
                    if be is not None and len(set(m["role_of"][b] for b in allowed)) > 1:
                        hist["any_role_used"][m["role_of"][be]] += 1
                if not allowed:
                    hist["no_candidate_errors"] += 1
                    if be is not None or not errored:
                        run.violation("counterexample", "%s: no server of the requested role exists on the selected shard, yet the transaction ran on %s (error reply: %s)" % (desc, be, errored),
                                      dict(rp, backend=be, model_allowed=allowed))
                        return n
                elif be is None or be not in allowed:
                    # (a failing predicate of the monitor was reported above) the monitor goes on over the rest of this and the
                    # remaining sessions; only if it finds nothing is this reported, as a broken tie
                    pending = ("%s: ran on %s; Route.Model allows %s" % (desc, be, allowed), dict(rp, backend=be, transaction=tag, model_allowed=allowed, error_reply=errored))
    if pending is not None and not run.violations:
        run.violation("tie-broken", pending[0] + " [the monitor finds no transaction that breaks the property in %d sessions]" % hist["sessions"], pending[1], found_input=False)
    if hist["known_F17"]:
        recorded(F17, "wire: Parse(write) Bind Execute Parse(read) Bind Execute Sync ran the write on a replica [%d batches this run]" % hist["known_F17"], f17_w)
    run.cov["wire"] = hist
    if metas:
        samples.append({"kind": "wire-session", "shape": metas[0]["shape"], "cfg(parser,splitting,primary_reads,default_role)": list(metas[0]["cfg"]), "default_shard": metas[0]["default_shard"],
                        "items": [it[1] if it[0] == "cmd" else (it[2] if isinstance(it[2], str) else list(it[2])) for it in metas[0]["items"]][:8]})
    return n



def check(run):
    quick = run.tier == "quick"
    rng = run.rng
    run.assumptions += [
        "Coq 8.16.1 kernel + vm_compute; no axioms (Print Assumptions: closed under the global context for every theorem)",
        "sqlparser 0.52 is environment: the model starts at the abstract AST; harness/src/astproj.rs (trusted glue, ~100 lines) projects the real AST, "
        "cross-checked per run against the generator's own label and against an independent whole-statement visitor (any_lock / any_mut flags)",
        "db_activity_based_routing (process-global moka caches, time dependent) is an oracle input of the model (theorems quantify over it) and is kept OFF in the correspondence",
        "pool.get's candidate filter (role, shard, skip unusable) is transcribed in Route/Model.v and proved about; its role comparison (impl PartialEq<Option<Role>> for Role) is run on real Address values for every wanted role x every server list of length <= 4 and compared with Model.candidates; the rest of ConnectionPool::get needs servers and is exercised by C07's wire scenarios",
        "a role decision is used by client.rs only at the next checkout; in-transaction messages never re-route (read, client.rs:1175-1330)",
        "functions with side effects (SELECT nextval(..)) are plain reads for any SQL parser: outside the syntactic property",
        "shard inference (infer_shard / infer_shard_on_write) is an oracle input of Route.Model.infer_sh; in the tie each statement's outcome is learned from the real functions (single-statement runs) and fed to the model",
        "wire leg: mock PostgreSQL backends (harness/src/mockpg.rs) report which backend executed each tagged statement; the model's allowed set (checkout_role + candidates) must contain it; which allowed server is picked is the pooler's random choice (set-valued, counted)",
    ]
    run.cov["trusted_base"] = ["coqc 8.16.1 kernel", "vm_compute", "harness/src/bin/router.rs", "harness/src/bin/wire.rs + mockpg.rs + props/wirelib.py (wire leg)", "harness/src/astproj.rs (AST projection)",
                               "props/sqlgen.py labels (cross-checked against the projection)", "props/c05.py comparison",
                               "Print Assumptions: Closed under the global context (all theorems)"]
    proof_ok, log = vlib.prove(run, COQ_FILES, "Route/Props.v")
    run.log("proof ok=%s" % proof_ok)
    ok, blog, bins = vlib.cargo_build(["router"])
    if not ok:
        run.violation("tie-broken", "harness does not build against /repo (API used by the correspondence changed)",
                      {"correspondence": "router harness build", "log": blog[-3000:]}, found_input=False)
        return
    router = bins["router"]

    # ---- 0. the candidate filter of pool.get: `address.role == role` on real Address values vs role_matches ----
    if not candidate_filter_tie(run, router):
        return

    # ---- 1. statements and messages ---------------------------------------------------------
    stmts = G.statements(rng, 2000 if quick else 12000, 2 if quick else 4)
    base = settings_json((True, True, False, None))
    res = RL.run_router(router, [{"settings": base, "steps": [{"op": "route", "proto": "Q", "sql": t}]} for t, _ in stmts])
    acc, rej_kinds = [], {}
    shape_hist, mism = {}, []
    for (t, l), r in zip(stmts, res):
        o = r["out"][0]
        if "panic" in o:
            run.violation("counterexample", "QueryRouter::parse/infer panics on %r: %s" % (t, o["panic"]), {"input": {"settings": base, "steps": [{"op": "route", "proto": "Q", "sql": t}]}})
            return
        if o.get("parse") != "ok":
            rej_kinds[G.shape(l)] = rej_kinds.get(G.shape(l), 0) + 1
            continue
        acc.append((t, l))
        shape_hist[G.shape(l)] = shape_hist.get(G.shape(l), 0) + 1
    rejected_stmts = [(t, l) for (t, l), r in zip(stmts, res) if r["out"][0].get("parse") != "ok"]
    run.log("statements: %d generated, %d accepted by sqlparser, %d rejected" % (len(stmts), len(acc), len(rejected_stmts)))

    by = {}
    for t, l in acc:
        by.setdefault("plain" if G.plain_stmt(l) else ("start" if l["k"] == "start" else ("other" if l["k"] == "other" else "wq")), []).append((t, l))
    msgs = []            # (text, [labels])
    for t, l in acc:
        msgs.append((t, [l]))
    for e in G.EMPTY:
        msgs.append((e, []))
    for t, l in acc[:40]:
        msgs.append((t + ";", [l]))
        msgs.append(("  " + t + " ;  ", [l]))
    # 2 and 3 statements, every order
    nmulti = 340 if quick else 3000
    for _ in range(nmulti):
        kinds = [rng.choice(["plain", "plain", "wq", "other", "start"]) for _ in range(rng.choice([2, 2, 3]))]
        if all(k == "plain" for k in kinds) and rng.random() < 0.7:
            kinds[rng.randrange(len(kinds))] = rng.choice(["wq", "other", "start"])
        parts = [rng.choice(by[k]) for k in kinds if by.get(k)]
        for perm in set(itertools.permutations(range(len(parts)))):
            msgs.append(("; ".join(parts[i][0] for i in perm), [parts[i][1] for i in perm]))
    for t, l in rejected_stmts[: (60 if quick else 600)]:
        msgs.append((t, [l]))
        if by.get("plain"):
            p = rng.choice(by["plain"])
            msgs.append((p[0] + "; " + t, [p[1], l]))
    seen, uniq = set(), []
    for m in msgs:
        if m[0] not in seen:
            seen.add(m[0]); uniq.append(m)
    msgs = uniq
    texts = [m[0] for m in msgs]
    labels = [m[1] for m in msgs]

    # ---- 2. projection of every message (base config), label cross-check ---------------------------
    asts = [None] * len(msgs)
    res = RL.run_router(router, [{"settings": base, "steps": [{"op": "route", "proto": "Q" if i % 2 else "P", "sql": t}]} for i, t in enumerate(texts)])
    n_acc = n_rej = n_label_ok = 0
    flag_bad = []
    for i, r in enumerate(res):
        o = r["out"][0]
        if o.get("parse") == "ok":
            asts[i] = o["ast"]
            n_acc += 1
            proj = [G.canon_stmt(s) for s in o["ast"]]
            lab = [G.canon_stmt(s) for s in labels[i]]
            if proj == lab:
                n_label_ok += 1
            else:
                mism.append({"sql": texts[i], "label": lab, "projection": proj})
            for s in o["ast"]:
                if s["k"] == "query":
                    if bool(s["any_lock"]) != bool(G.any_lock(s["q"])) or bool(s["any_mut"]) != bool(G.any_mut(s["q"])):
                        flag_bad.append({"sql": texts[i], "stmt": s})
        else:
            n_rej += 1
    run.log("messages: %d (accepted %d, rejected %d); label==projection on %d, mismatches %d; projection-tree vs visitor-flag disagreements %d"
            % (len(msgs), n_acc, n_rej, n_label_ok, len(mism), len(flag_bad)))
    if flag_bad:
        run.violation("tie-broken", "the AST projection misses a nested Query node that sqlparser's visitor reaches (projection tree and whole-statement flags disagree) on %r" % flag_bad[0]["sql"],
                      {"correspondence": "harness/src/astproj.rs query() vs flags()", "input": flag_bad[0]}, found_input=False)
    # a label mismatch that changes the classification is left to the monitor (it uses the label);
    # a mismatch of shape only is reported in the coverage
    cls_mism = [m for m in mism if [(s["k"], G.plain_stmt(s)) for s in m["label"]] != [(s["k"], G.plain_stmt(s)) for s in m["projection"]]]

    # ---- 3. sessions -----------------------------------------------------------------------------------
    sessions = []
    for i in range(len(msgs)):
        sessions.append([step_route("Q" if (i // 2) % 2 else "P", i)])
        if not quick:
            sessions.append([step_route("P" if (i // 2) % 2 else "Q", i)])
    role_vals = ["primary", "replica", "any", "auto", "default", "PRIMARY", "Replica"]
    pr_vals = ["on", "off", "default"]
    kind_idx = {}
    for i, l in enumerate(labels):
        if asts[i] is None:
            k = "rej"
        elif not l:
            k = "empty"
        elif all(G.plain_stmt(x) for x in l):
            k = "plain"
        else:
            k = "write"
        kind_idx.setdefault(k, []).append(i)
    pick = lambda k: rng.choice(kind_idx[k])
    # boundary: every command followed by every (second command | nothing) then each kind of message
    cmds = [step_cmd_role(v) for v in ["primary", "replica", "any", "auto", "default"]] + [step_cmd_pr(v) for v in pr_vals]
    for c1 in cmds:
        for c2 in cmds + [None]:
            seq = [dict(c1)] + ([dict(c2)] if c2 else [])
            for k in ("plain", "write", "plain", "rej", "empty", "plain"):
                if kind_idx.get(k):
                    seq.append(step_route(rng.choice("QP"), pick(k)))
            seq.insert(rng.randrange(1, len(seq)), step_bind())
            sessions.append(seq)
    # an empty / comment-only / whitespace message (simple and Parse) right after every SET SERVER ROLE value, then three
    # more messages: on a pool with plugins the session is still parsed, the explicit role must survive
    for v in ["primary", "replica", "any", "auto", "default"]:
        for ei in kind_idx.get("empty", []):
            for proto in "QP":
                seq = [step_route(rng.choice("QP"), pick("plain")), step_cmd_role(v), step_route(proto, ei)]
                if proto == "P":
                    seq.append(step_bind())
                seq += [step_route(rng.choice("QP"), pick(k)) for k in ("plain", "write", "plain")]
                sessions.append(seq)
    # random sessions of 2-4 messages with overrides in between
    for _ in range(700 if quick else 12000):
        seq = []
        for _ in range(rng.randint(2, 4)):
            if rng.random() < 0.3:
                seq.append(step_cmd_role(rng.choice(role_vals)) if rng.random() < 0.6 else step_cmd_pr(rng.choice(pr_vals)))
            k = rng.choice(["plain", "plain", "write", "write", "rej", "empty"] if rng.random() < 0.8 else list(kind_idx))
            seq.append(step_route(rng.choice("QQP"), pick(k if kind_idx.get(k) else "plain")))
            if rng.random() < 0.1:
                seq.append(step_bind())
        sessions.append(seq)
    # extended-protocol batches of the known class F17 (several Parse before the Sync; Bind without Parse)
    f17 = []
    for _ in range(30 if quick else 300):
        w, p = pick("write"), pick("plain")
        f17.append(([step_route("P", w), step_bind(), step_route("P", p), step_bind()], "two-parse"))
        f17.append(([step_route("P", w), step_bind(), step_route("Q", p), step_bind()], "stale-bind"))

    # ---- 4. model (Coq) and implementation ---------------------------------------------------------
    exprs = []
    for seq in sessions:
        mids = [s["_k"][1] for s in seq if s["_k"][0] == "msg"]
        exprs.append("(run [%s], cls [%s])" % ("; ".join(coq_item(s, asts) for s in seq),
                                               "; ".join(coq_stmts(asts[m]) for m in mids if asts[m] is not None)))
    for seq, _ in f17:
        exprs.append("(run [%s])" % "; ".join(coq_item(s, asts) for s in seq))
    model_vals = None
    if proof_ok:
        # observations are packed into one number per configuration: small outputs, cheap to parse
        model_vals = vlib.coq_eval("c05ev", PREAMBLE, exprs, shard=80)
    run.log("sessions: %d (+%d F17 batches), model evaluated: %s" % (len(sessions), len(f17), model_vals is not None))

    cases = []
    for seq in sessions:
        ws = wire_steps(seq, texts)
        for c in CFGS:
            cases.append({"settings": settings_json(c), "steps": ws})
    # the same sessions with automatic sharding on (role must not depend on shard inference)
    ak_sessions = list(range(0, len(sessions), 7 if quick else 3))
    ak_cfgs = [c for c in CFGS if c[0] and c[1]]
    for si in ak_sessions:
        ws = wire_steps(sessions[si], texts)
        for c in ak_cfgs:
            cases.append({"settings": settings_json(c, auto_key=True), "steps": ws})
    for seq, _ in f17:
        ws = wire_steps(seq, texts)
        for c in CFGS:
            cases.append({"settings": settings_json(c), "steps": ws})
    res = RL.run_router(router, cases)
    run.log("implementation: %d sessions run" % len(cases))

    evals = 0
    distinct = set()
    samples = []
    panics = 0
    pos = 0
    spec_mism = []

    def compare(seq, c, outs, mrow, what, si):
        """model row vs implementation outs for one configuration"""
        nonlocal evals, panics, pending
        if pending is not None:
            mrow = None          # a disagreement is on record: from here on only the monitor searches for a failing input
        for j, o in enumerate(outs):
            if "panic" in o:
                panics += 1
                return True
            evals += 1
            run.cov["traces_validated_against_impl"] += 1
            if mrow is not None:
                m = dec_obs(unpack(mrow, len(outs))[j])
                g = impl_obs(o)
                if m != g:
                    ws = wire_steps(seq, texts)
                    pending = ("%s: model and implementation disagree at step %d (%s) under parser=%s splitting=%s primary_reads=%s default_role=%s plugins=%s: model (role,parser,primary_reads)=%s impl=%s"
                               % (what, j, ws[j].get("sql", ws[j]["op"])[:120], c[0], c[1], c[2], c[3], c[4], m, g),
                               {"correspondence": "Route/Model.v session_trace vs QueryRouter (harness bin router)", "input": {"settings": settings_json(c), "steps": ws[:j + 1]},
                                "step": j, "model": list(m), "impl": list(g), "ast": [asts[s["_k"][1]] if s["_k"][0] == "msg" else None for s in seq[:j + 1]]})
                    return False
        return True

    def watch(seq, c, outs):
        """the property's own predicates on the implementation's outputs of one session (no model); True = a failing input was reported"""
        for (j, kind, text) in monitor(c, seq, outs, labels, asts):
            if kind == "panic":
                continue
            ws = wire_steps(seq, texts)
            if kind == "write-not-primary" and F23_RE.search(ws[j].get("sql", "")):
                f23.append({"settings": settings_json(c), "steps": ws, "step": j, "role": outs[j]["state"]["role"]})
                continue
            # shrink: drop every step the failure does not need (the monitor re-run on the implementation decides)
            seq, outs, j = list(seq), list(outs), j
            i = 0
            while i < len(seq) and len(seq) > 1:
                cand = seq[:i] + seq[i + 1:]
                (r2,) = RL.run_router(router, [{"settings": settings_json(c), "steps": wire_steps(cand, texts)}])
                f2 = [x for x in monitor(c, cand, r2["out"], labels, asts) if x[1] == kind]
                if f2:
                    seq, outs, j = cand, r2["out"], f2[0][0]
                else:
                    i += 1
            ws = wire_steps(seq, texts)
            rp = {"input": {"settings": settings_json(c), "steps": ws, "labels": [labels[s["_k"][1]] if s["_k"][0] == "msg" else None for s in seq]},
                  "monitor": kind, "step": j, "impl": [list(impl_obs(o)) for o in outs]}
            if pending is not None:
                rp["model_disagreement"] = pending[0]
            run.violation("counterexample", "%s at step %d: %r under parser=%s splitting=%s primary_reads=%s default_role=%s plugins=%s"
                          % (text, j, ws[j].get("sql", ws[j]["op"])[:200], c[0], c[1], c[2], c[3], c[4]), rp)
            return True
        return False

    known = {e.get("id"): e for e in vlib.known_findings("C05")}
    stop = False
    pending = None       # first model/implementation disagreement: reported as tie-broken only if the monitor finds no failing input
    f23 = []

    def recorded(fid, text, replay_input):
        e = known.get(fid)
        if e is not None and e.get("status") == "known":
            run.known_finding(e.get("line") or text, key=fid)
        else:
            run.violation("counterexample", text + " (not listed as known in known_findings.jsonl)", {"input": replay_input, "class": fid})
    for si, seq in enumerate(sessions):
        mv = vlib.parse_coq(model_vals[si]) if model_vals is not None else None
        mids = [s["_k"][1] for s in seq if s["_k"][0] == "msg"]
        if mv is not None:
            # Spec.v's plain_read on the projection vs the generator's own classification
            accm = [m for m in mids if asts[m] is not None]
            for m, row in zip(accm, mv[1]):
                want = [G.plain_stmt(l) for l in labels[m]]
                got = [bool(x) for x in unpack(row, len(asts[m]))]
                if got != want and len(spec_mism) < 20:
                    spec_mism.append({"sql": texts[m], "spec_plain_read": got, "generator": want})
        for ci, c in enumerate(CFGS):
            outs = res[pos]["out"]; pos += 1
            if stop:
                continue
            for j, s in enumerate(seq):
                if s["_k"][0] == "msg":
                    distinct.add((ci, s.get("proto"), s["_k"][1], impl_obs(outs[j - 1]) if j else None))
            compare(seq, c, outs, mv[0][ci] if mv is not None else None, "session %d" % si, si)
            if watch(seq, c, outs):
                stop = True
        if si in (0, 5, len(msgs) + 3) and mv is not None:
            samples.append({"kind": "session", "steps": [w.get("sql", w["op"])[:100] for w in wire_steps(seq, texts)], "config": "parser on, splitting on, primary_reads off, default_role any",
                            "model (role,parser,primary_reads) per step": [list(dec_obs(d)) for d in unpack(mv[0][0], len(seq))],
                            "impl": [list(impl_obs(o)) for o in res[pos - len(CFGS)]["out"]]})
    # automatic sharding on: same model rows
    for si in ak_sessions:
        mv = vlib.parse_coq(model_vals[si]) if model_vals is not None else None
        for c in ak_cfgs:
            outs = res[pos]["out"]; pos += 1
            if stop:
                continue
            compare(sessions[si], c, outs, mv[0][CFGS.index(c)] if mv is not None else None, "session %d (automatic_sharding_key on)" % si, si)
            if watch(sessions[si], c, outs):
                stop = True
    # F17 batches: model == impl, and the property's predicate fails exactly as recorded
    f17_hits = 0
    f17_sample = None
    for fi, (seq, kind) in enumerate(f17):
        mv = vlib.parse_coq(model_vals[len(sessions) + fi]) if model_vals is not None else None
        for ci, c in enumerate(CFGS):
            outs = res[pos]["out"]; pos += 1
            if stop:
                continue
            if not compare(seq, c, outs, mv[ci] if mv is not None else None, "F17 batch %d" % fi, fi):
                continue
            if c[0] and c[1] and not any("panic" in o for o in outs):
                # the batch executes a non-plain-read statement (first Bind) but the checkout role is
                if impl_obs(outs[-1])[0] != 1:
                    f17_hits += 1
                    if f17_sample is None:
                        f17_sample = {"settings": settings_json(c), "steps": wire_steps(seq, texts), "kind": kind, "final_role": outs[-1]["state"]["role"]}
    if f17_hits:
        text = ("extended-protocol batch whose executed statement is not the one of its last accepted Parse (a second Parse in the batch, or Bind of an earlier named statement): "
                "the checkout role is the last Parse's / the stale one, e.g. Parse(%r) Bind Parse(%r) Bind Sync -> %s [%d occurrences this run; Route/Props.v c05_batch_refuted]"
                % (f17_sample["steps"][0].get("sql", "")[:60], f17_sample["steps"][2].get("sql", "")[:40], f17_sample["final_role"], f17_hits))
        recorded(F17, text, f17_sample)
    if f23:
        w = f23[0]
        recorded(F23, "a locking clause directly after `TABLE name` is swallowed by sqlparser 0.52 (parse_as_table): the accepted message %r is routed to %s [%d occurrences this run]"
                 % (w["steps"][w["step"]]["sql"][:160], w["role"], len(f23)), w)
    run.cov["f23_table_lock_dropped"] = len(f23)
    run.cov["f17_batches"] = {"run": len(f17) * len(CFGS), "role_not_primary": f17_hits}

    if spec_mism and not run.violations:
        # generator's idea of "plain read" differs from Spec.v on the projection: only harmful if the
        # projection equals the label (otherwise it is the label mismatch already counted)
        hard = [m for m in spec_mism if not any(x["sql"] == m["sql"] for x in mism)]
        if hard:
            run.violation("tie-broken", "Route/Spec.v plain_read and the generator's classification disagree on %r" % hard[0]["sql"],
                          {"correspondence": "Spec.plain_read vs props/sqlgen.plain_stmt", "input": hard[0]}, found_input=False)

    n_sharded = 0
    if not run.violations:
        n_sharded = sharded_tie(run, router, quick, proof_ok, samples, distinct)
    evals += n_sharded
    if not run.violations:
        evals += check_wire(run, router, quick, proof_ok, samples, distinct, recorded)
    if pending is not None and not run.violations:
        # the implementation left the model, but every property predicate still holds on every library session, on the
        # sharded messages and on every wire transaction of this run
        run.violation("tie-broken", pending[0] + " [the property's own predicates (explicit role honoured, writes to the primary, reads not pinned) hold on all %d library sessions and on the wire]" % len(sessions),
                      pending[1], found_input=False)
    run.cov["evaluations"] = evals
    run.cov["distinct_nontrivial"] = len(distinct)
    run.cov["rule"] = ("statements: %d boundary forms (incl. every former witness) + %d non-query statements + grammar-generated queries (depth <= %d: joins, derived tables, scalar/EXISTS/IN sub-queries, CTEs read-only and "
                       "data-modifying, set operations, parenthesised arms, FOR UPDATE/SHARE/NO KEY UPDATE/KEY SHARE, INTO); messages of 1-3 statements in every order, empty messages, messages the parser rejects; "
                       "sessions: every message alone (Q or P framing), 72 command-pair boundary sessions, random sessions of 2-4 messages with SET SERVER ROLE / SET PRIMARY READS in between, Bind steps; "
                       "empty / comment-only / whitespace messages (Q and Parse) right after every SET SERVER ROLE value followed by three more messages; "
                       "each session under all 24 combinations of parser x splitting x primary_reads x default_role plus 12 with a [plugins] section (table_access on an unrelated table: the session stays parsed "
                       "after SET SERVER ROLE), a share again with automatic_sharding_key on; "
                       "sharded messages (automatic_sharding_key data.id and *.id, 3 shards): 1-3 statements over the sharded table in every order, reads on different shards before/after writes, key-column updates, "
                       "compared on (role, shard, Err) with infer_sh fed with the real per-statement shard outcome; wire: sessions of 9-20 transactions (simple / multi-statement / BEGIN..COMMIT / Parse-Bind-Execute-Sync / "
                       "two-Parse batches / parser-rejected) with SET SERVER ROLE / SET PRIMARY READS followed by 3-5 consecutive transactions, on 6 pool shapes (1-3 shards, primary + 0-2 replicas) x default_shard "
                       "shard_0|random|random_healthy x default_role x parser/splitting/primary_reads. "
                       "distinct = distinct (configuration, framing, message, router state before the message)"
                       % (len(G.statements(__import__("random").Random(0), 0, 0)) - len(G.START) - len(G.OTHER), len(G.START) + len(G.OTHER), 2 if quick else 4))
    run.cov["samples"] = samples[:6] + [{"kind": "message", "sql": texts[i][:160], "label": [G.shape(l) for l in labels[i]], "accepted": asts[i] is not None}
                                        for i in (0, 8, 14, len(acc) - 1, len(acc) + 30) if 0 <= i < len(texts)]
    run.cov["input_distribution"] = {"statements_generated": len(stmts), "statements_accepted": len(acc), "statements_rejected_by_sqlparser": len(rejected_stmts),
                                     "accepted_by_shape": shape_hist, "rejected_by_shape": rej_kinds, "messages": len(msgs), "messages_accepted": n_acc, "messages_rejected": n_rej,
                                     "message_kinds": {k: len(v) for k, v in kind_idx.items()}, "sessions": len(sessions), "configurations": len(CFGS),
                                     "sessions_with_auto_sharding": len(ak_sessions) * len(ak_cfgs), "steps_that_panicked": panics}
    run.cov["label_vs_projection"] = {"equal": n_label_ok, "different": len(mism), "different_in_classification": len(cls_mism), "examples": mism[:3]}
    run.cov["rejected_examples"] = [t for t, _ in rejected_stmts[:25]]

    # ---- 5. proof broken: search for a failing input with the monitor only (done above) ----------------
    if not proof_ok and not run.violations and not run.broken:
        run.violation("proof-broken", "Route/Props.v no longer checks; the monitor found no failing input on the implementation in %d steps" % evals,
                      {"theorem": "Route/Props.v", "coq_log": log[-2500:]}, found_input=False)
    if not quick and proof_ok:
        vlib.coqchk(run, ["PV.Route.Props"])


def replay(run, path):
    r = json.load(open(path))
    ok, blog, bins = vlib.cargo_build(["router"])
    inp = r.get("input", {})
    print(json.dumps({k: v for k, v in r.items() if k != "ast"}, indent=1)[:3000])
    if "scenario" in inp:
        from props import wirelib as W
        ok, blog, wb = vlib.cargo_build(["wire"])
        res = W.run_scenario(wb["wire"], inp["scenario"])
        landed = {}
        for e in res.get("events", []):
            if e.get("ev") == "msg" and e.get("tag") in ("Q", "E"):
                for tg in set(re.findall(r"/\*(w\d+_\d+)\*/", e["detail"].get("sql") or "")):
                    landed.setdefault(tg, set()).add(e["who"])
        print("replay (wire): transaction -> backend(role):", {t: ["%s(%s)" % (b, inp["role_of"].get(b)) for b in sorted(bs)] for t, bs in sorted(landed.items())})
        tg, be = r.get("transaction"), r.get("backend")
        if tg and be:
            now = sorted(landed.get(tg, []))
            same = bool(now) and all(inp["role_of"].get(b) == inp["role_of"].get(be) for b in now)
            print("replay: transaction %s ran on %s then, on %s now -> %s" % (tg, be, now, "same role again" if same else "differs (the pooler picks at random among allowed servers)"))
            return 1 if same else 0
        return 0
    if "steps" not in inp:
        return 0
    (res,) = RL.run_router(bins["router"], [{"settings": inp["settings"], "steps": inp["steps"]}])
    now = [list(impl_obs(o)) if "panic" not in o else "panic" for o in res["out"]]
    print("replay: implementation (role, parser, primary_reads) per step now:", now)
    if r.get("kind") == "counterexample" and "impl" in r:
        same = now == r["impl"]
        print("replay: %s" % ("reproduced" if same else "behaviour changed"))
        return 1 if same else 0
    if "model" in r and "step" in r:
        same = now[r["step"]] != r["model"]
        print("replay: model said %s at step %d -> %s" % (r["model"], r["step"], "still differs" if same else "agrees now"))
        return 1 if same else 0
    return 0
